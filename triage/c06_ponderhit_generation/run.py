#!/usr/bin/env python3
"""run.py <texel binary built with a working network> [delay_s]
`go ponder wtime 1200 btime 1200` on a KQKR root (an on-demand tablebase is generated because a ponder search has no limit
yet), `ponderhit` after delay_s (default 0.9 s: inside the mate-in-N phase of the generation here).  The budget after the
ponderhit is 200 ms (BufferTime 1000) and is already used up, so the best move is due at once.  Prints the latency."""
import subprocess, sys, time, threading
exe = sys.argv[1]
delay = float(sys.argv[2]) if len(sys.argv) > 2 else 0.9
p = subprocess.Popen([exe], stdin=subprocess.PIPE, stdout=subprocess.PIPE, text=True, bufsize=1)
def send(s):
    p.stdin.write(s + '\n'); p.stdin.flush()
send('uci'); send('setoption name Hash value 16'); send('isready')
while True:
    if p.stdout.readline().strip() == 'readyok':
        break
send('position fen 8/8/8/3k4/8/8/6r1/QK6 w - - 0 1')
send('go ponder wtime 1200 btime 1200')
time.sleep(delay)
t_hit = time.time()
send('ponderhit')
best = None
while True:
    l = p.stdout.readline()
    if not l:
        break
    if l.startswith('bestmove'):
        best = l.strip(); break
lat = (time.time() - t_hit) * 1000
send('quit'); p.wait(timeout=10)
print('%s  %.0f ms after ponderhit (ponderhit %.1f s after go ponder)' % (best, lat, delay))
sys.exit(0 if lat < 150 else 1)
