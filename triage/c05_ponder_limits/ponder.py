import subprocess,sys,time,threading
exe=sys.argv[1]
p=subprocess.Popen([exe],stdin=subprocess.PIPE,stdout=subprocess.PIPE,text=True,bufsize=1)
out=[]
def rd():
    for l in p.stdout: out.append((time.time(),l.rstrip()))
threading.Thread(target=rd,daemon=True).start()
def send(s): p.stdin.write(s+'\n'); p.stdin.flush()
send('uci'); send('setoption name Threads value 1'); send('isready'); time.sleep(1)
send('position startpos moves e2e4'); send('go ponder depth 3'); time.sleep(1)
t0=time.time(); send('ponderhit'); time.sleep(6)
bm=[(t-t0,l) for t,l in out if l.startswith('bestmove')]
print('bestmove within 6s of ponderhit:', bm)
depths=[l for t,l in out if l.startswith('info depth') and ' pv' in l]
print('last info:', depths[-1][:80] if depths else None)
send('stop'); time.sleep(1)
print('after stop:', [l for t,l in out if l.startswith('bestmove')])
send('quit'); p.wait(5)
