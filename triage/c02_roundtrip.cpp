// Triage replay for C02 (not a check): two round trips the pinned sources do not reproduce.
//   (a) compact serialisation of a half-move clock >= 256 / full-move number >= 65536
//   (b) FEN round trip of a position reached by a double pawn push next to an enemy pawn whose
//       en-passant capture is illegal (makeMove records the square, readFEN normalises it away)
#include "position.hpp"
#include "textio.hpp"
#include "computerPlayer.hpp"
#include <iostream>

int main() {
    ComputerPlayer::initEngine();
    int bad = 0;
    {
        Position pos = TextIO::readFEN("k7/8/8/8/8/8/8/K6R w - - 300 70000");
        Position::SerializeData d;
        pos.serialize(d);
        Position pos2;
        pos2.deSerialize(d);
        std::cout << "(a) before: " << TextIO::toFEN(pos) << "\n    after : " << TextIO::toFEN(pos2)
                  << "\n    equal=" << (pos == pos2) << " halfMoveClock " << pos.getHalfMoveClock() << " -> " << pos2.getHalfMoveClock()
                  << " fullMoveCounter " << pos.getFullMoveCounter() << " -> " << pos2.getFullMoveCounter() << std::endl;
        if (pos.getHalfMoveClock() != pos2.getHalfMoveClock() || pos.getFullMoveCounter() != pos2.getFullMoveCounter()) bad++;
    }
    {
        Position pos = TextIO::readFEN("8/8/8/8/k2p3R/8/4P3/7K w - - 0 1");
        UndoInfo ui;
        pos.makeMove(TextIO::uciStringToMove("e2e4"), ui);
        std::string fen = TextIO::toFEN(pos);
        Position pos2 = TextIO::readFEN(fen);
        std::cout << "(b) written: " << fen << "\n    re-read: " << TextIO::toFEN(pos2)
                  << "\n    equal=" << (pos == pos2) << " hash equal=" << (pos.zobristHash() == pos2.zobristHash()) << std::endl;
        if (!(pos == pos2)) bad++;
    }
    std::cout << "round trips not reproduced: " << bad << std::endl;
    return bad ? 1 : 0;
}
