#!/bin/sh
# Usage: run.sh <srcdir>
# Copies the sources in <srcdir> to a scratch directory under /tmp, adds the
# demonstration program as an extra CMake target (so that it is compiled with
# exactly the project's flags and linked with the freshly built static libraries
# texelutillib/texellib), builds only that target, runs it and cleans up.
# Exit status 0: property held.  Non-zero: violation observed (or build problem).
set -u
if [ $# -ne 1 ] || [ ! -f "$1/lib/texelutillib/bookbuild.hpp" ]; then
    echo "usage: $0 <srcdir>" >&2
    exit 2
fi
SRC=$(cd "$1" && pwd)
HERE=$(cd "$(dirname "$0")" && pwd)
SCR=$(mktemp -d /tmp/c19pe_demo.XXXXXX) || exit 2
trap 'rm -rf "$SCR"' EXIT INT TERM

mkdir "$SCR/src" "$SCR/build"
(cd "$SRC" && tar -cf - --exclude=./_build --exclude=./build --exclude=./.git --exclude=./seed .) \
    | tar -xf - -C "$SCR/src" || exit 2

mkdir "$SCR/src/test/c19pe"
cp "$HERE/demo.cpp" "$SCR/src/test/c19pe/demo.cpp"
cat > "$SCR/src/test/c19pe/CMakeLists.txt" <<'EOF'
add_executable(c19pe demo.cpp)
target_link_libraries(c19pe texelutillib)
EOF
echo 'add_subdirectory(c19pe)' >> "$SCR/src/test/CMakeLists.txt"

cmake -G Ninja -S "$SCR/src" -B "$SCR/build" > "$SCR/cmake.log" 2>&1 || { tail -20 "$SCR/cmake.log"; echo "configure failed"; exit 2; }
cmake --build "$SCR/build" -j8 --target c19pe > "$SCR/build.log" 2>&1 || { tail -30 "$SCR/build.log"; echo "build failed"; exit 2; }

"$SCR/build/c19pe" "$SCR/book.bin"
rc=$?
if [ $rc -eq 0 ]; then
    echo "RESULT: property held"
else
    echo "RESULT: property VIOLATED (exit $rc)"
fi
exit $rc
