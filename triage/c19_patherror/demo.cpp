/*
 * Triage replay: stale path errors after setSearchResult (harness adapted from the demo of seed C19b).
 *
 * Builds a small opening book (real chess positions, through the normal
 * Book::addPosToBook / BookNode::setSearchResult API) that contains a
 * transposition where the SAME move (d7d5) leads from two DIFFERENT parent
 * positions to one child position, then checks the defining equations of the
 * book graph with an independent re-computation and a save/reload cycle.
 *
 * Exit status 0: all invariants hold.  Exit status 1: violation(s) found.
 */

#include "bookbuild.hpp"
#include "textio.hpp"
#include "position.hpp"
#include "computerPlayer.hpp"

#include <cstdio>
#include <cstdlib>
#include <iostream>
#include <map>
#include <set>
#include <deque>
#include <string>
#include <vector>

using BookBuild::BookNode;
using BookBuild::IGNORE_SCORE;
using BookBuild::INVALID_SCORE;
using BBook = BookBuild::Book; // (::Book is the engine's polyglot-style book class)

// Book declares "friend class ::BookBuildTest", which gives this class access
// to the private book API (same trick as the repository's own unit tests).
class BookBuildTest {
public:
    static int run(const std::string& tmpFile);

private:
    static int negate(int s) {
        if (s == IGNORE_SCORE || s == INVALID_SCORE)
            return s;
        if (s > SearchConst::MATE0 / 2)
            return -(s - 1);
        if (s < -(SearchConst::MATE0 / 2))
            return -(s + 1);
        return -s;
    }

    static std::string name(const BBook& book, U64 hash) {
        Position pos;
        std::vector<Move> ml;
        if (!book.getPosition(hash, pos, ml))
            return "?";
        std::string ret;
        Position p = TextIO::readFEN(TextIO::startPosFEN);
        UndoInfo ui;
        for (const Move& m : ml) {
            if (!ret.empty())
                ret += ' ';
            ret += TextIO::moveToUCIString(m);
            p.makeMove(m, ui);
        }
        return ret.empty() ? "root" : ret;
    }

    static int check(const BBook& book, const char* tag);
    static int compare(const BBook& a, const BBook& b);
    static U64 add(BBook& book, const std::string& moves);
    static void setRes(BBook& book, U64 hash, const char* move, int score);
};

/** Independent check of all structural/score invariants. Returns number of violations. */
int
BookBuildTest::check(const BBook& book, const char* tag) {
    int nErr = 0;
    auto err = [&](U64 h, const std::string& msg) {
        std::cout << "VIOLATION [" << tag << "] node (" << name(book, h) << "): " << msg << std::endl;
        nErr++;
    };

    // True parent relation, derived from the child links only
    using Edge = std::pair<U16, const BookNode*>; // move, parent
    std::map<const BookNode*, std::vector<Edge>> trueParents;
    for (const auto& e : book.bookNodes) {
        const BookNode* n = e.second.get();
        for (const auto& c : n->getChildren())
            trueParents[c.second].push_back(Edge(c.first, n));
    }

    // 1. Mutual consistency of parent/child links
    for (const auto& e : book.bookNodes) {
        const BookNode* n = e.second.get();
        for (const auto& c : n->getChildren()) {
            bool found = false;
            for (const auto& p : c.second->getParents()) // linear scan on purpose
                if (p.compressedMove == c.first && p.parent == n)
                    found = true;
            if (!found) {
                Move m; m.setFromCompressed(c.first);
                err(e.first, "has child via " + TextIO::moveToUCIString(m) +
                    " but the child has no parent link back to this node");
            }
        }
        for (const auto& p : n->getParents()) {
            auto it = p.parent->getChildren().find(p.compressedMove);
            if (it == p.parent->getChildren().end() || it->second != n)
                err(e.first, "has a parent link that the parent does not mirror");
        }
        size_t nTrue = trueParents.count(n) ? trueParents[n].size() : 0;
        if (nTrue != n->getParents().size())
            err(e.first, "records " + num2Str((int)n->getParents().size()) +
                " parent(s) but " + num2Str((int)nTrue) + " node(s) have it as child");
    }

    // 2. Depth == BFS distance from root over child links
    std::map<const BookNode*, int> dist;
    {
        const BookNode* root = book.getBookNode(book.startPosHash);
        std::deque<const BookNode*> q;
        dist[root] = 0;
        q.push_back(root);
        while (!q.empty()) {
            const BookNode* n = q.front(); q.pop_front();
            for (const auto& c : n->getChildren())
                if (!dist.count(c.second)) {
                    dist[c.second] = dist[n] + 1;
                    q.push_back(c.second);
                }
        }
    }
    for (const auto& e : book.bookNodes) {
        const BookNode* n = e.second.get();
        if (!dist.count(n)) {
            err(e.first, "not reachable from root");
            continue;
        }
        if (dist[n] != n->getDepth())
            err(e.first, "depth " + num2Str(n->getDepth()) + " != shortest distance " + num2Str(dist[n]));
    }

    // 3. Negamax fixed point
    for (const auto& e : book.bookNodes) {
        const BookNode* n = e.second.get();
        int expected = n->getSearchScore();
        auto it = n->getChildren().find(n->getBestNonBookMove().getCompressedMove());
        if (it != n->getChildren().end() && it->second->getNegaMaxScore() != INVALID_SCORE)
            expected = IGNORE_SCORE;
        if (expected != INVALID_SCORE)
            for (const auto& c : n->getChildren())
                expected = std::max(expected, negate(c.second->getNegaMaxScore()));
        if (expected != n->getNegaMaxScore())
            err(e.first, "negaMaxScore " + num2Str(n->getNegaMaxScore()) +
                " != max(searchScore, -children) = " + num2Str(expected));
    }

    // 4. Path errors (defining equation, using the true parent relation)
    for (const auto& e : book.bookNodes) {
        const BookNode* n = e.second.get();
        int expW, expB;
        if (n->getDepth() == 0) {
            expW = expB = 0;
        } else {
            expW = expB = INT_MAX;
            for (const Edge& pe : trueParents[n]) {
                const BookNode* p = pe.second;
                int w = p->getPathErrorWhite();
                int b = p->getPathErrorBlack();
                if (w == INVALID_SCORE || b == INVALID_SCORE)
                    continue;
                if (n->getNegaMaxScore() == INVALID_SCORE || p->getNegaMaxScore() == INVALID_SCORE)
                    continue;
                int delta = p->getNegaMaxScore() - negate(n->getNegaMaxScore());
                if (n->getDepth() % 2 != 0)
                    w += delta;
                else
                    b += delta;
                expW = std::min(expW, w);
                expB = std::min(expB, b);
            }
            if (expW == INT_MAX || expB == INT_MAX)
                expW = expB = INVALID_SCORE;
        }
        if (expW != n->getPathErrorWhite() || expB != n->getPathErrorBlack())
            err(e.first, "path errors (" + num2Str(n->getPathErrorWhite()) + "," +
                num2Str(n->getPathErrorBlack()) + ") != defining equation (" +
                num2Str(expW) + "," + num2Str(expB) + ")");
    }
    return nErr;
}

/** Compare graph and scores of two books. Returns number of differences. */
int
BookBuildTest::compare(const BBook& a, const BBook& b) {
    int nErr = 0;
    auto err = [&](U64 h, const std::string& msg) {
        std::cout << "VIOLATION [reload] node (" << name(a, h) << "): " << msg << std::endl;
        nErr++;
    };
    if (a.bookNodes.size() != b.bookNodes.size()) {
        std::cout << "VIOLATION [reload] number of nodes differs" << std::endl;
        nErr++;
    }
    for (const auto& e : a.bookNodes) {
        const BookNode* n1 = e.second.get();
        const BookNode* n2 = b.getBookNode(e.first);
        if (!n2) {
            err(e.first, "missing after reload");
            continue;
        }
        auto cmp = [&](const char* what, int v1, int v2) {
            if (v1 != v2)
                err(e.first, std::string(what) + " " + num2Str(v1) + " before save, " +
                    num2Str(v2) + " after reload");
        };
        cmp("negaMaxScore", n1->getNegaMaxScore(), n2->getNegaMaxScore());
        cmp("depth", n1->getDepth(), n2->getDepth());
        cmp("pathErrorWhite", n1->getPathErrorWhite(), n2->getPathErrorWhite());
        cmp("pathErrorBlack", n1->getPathErrorBlack(), n2->getPathErrorBlack());
        cmp("expansionCostWhite", n1->getExpansionCostWhite(), n2->getExpansionCostWhite());
        cmp("expansionCostBlack", n1->getExpansionCostBlack(), n2->getExpansionCostBlack());
        std::set<std::pair<U16,U64>> p1, p2, c1, c2;
        for (const auto& p : n1->getParents()) p1.insert(std::make_pair(p.compressedMove, p.parent->getHashKey()));
        for (const auto& p : n2->getParents()) p2.insert(std::make_pair(p.compressedMove, p.parent->getHashKey()));
        for (const auto& c : n1->getChildren()) c1.insert(std::make_pair(c.first, c.second->getHashKey()));
        for (const auto& c : n2->getChildren()) c2.insert(std::make_pair(c.first, c.second->getHashKey()));
        if (p1 != p2)
            err(e.first, "set of parents differs after reload (" + num2Str((int)p1.size()) +
                " vs " + num2Str((int)p2.size()) + ")");
        if (c1 != c2)
            err(e.first, "set of children differs after reload");
    }
    return nErr;
}

/** Add the position reached by "moves" (all but the last move must already be in the book). */
U64
BookBuildTest::add(BBook& book, const std::string& moves) {
    std::vector<std::string> mv;
    splitString(moves, mv);
    Position pos = TextIO::readFEN(TextIO::startPosFEN);
    UndoInfo ui;
    for (size_t i = 0; i + 1 < mv.size(); i++)
        pos.makeMove(TextIO::uciStringToMove(mv[i]), ui);
    Move last = TextIO::uciStringToMove(mv.back());
    std::vector<U64> toSearch;
    book.addPosToBook(pos, last, toSearch);
    pos.makeMove(last, ui);
    return pos.bookHash();
}

void
BookBuildTest::setRes(BBook& book, U64 hash, const char* move, int score) {
    BookNode* n = book.getBookNode(hash);
    n->setSearchResult(book.bookData, TextIO::uciStringToMove(move), score, 1000);
}

int
BookBuildTest::run(const std::string& tmpFile) {
    BBook book("");
    const U64 root = book.startPosHash;
    // chain root -> A (e2e4) -> B (e7e5) -> C (g1f3), and a sibling D (d2d4) that dominates the root score
    U64 A = add(book, "e2e4");
    U64 B = add(book, "e2e4 e7e5");
    U64 C = add(book, "e2e4 e7e5 g1f3");
    U64 D = add(book, "d2d4");
    setRes(book, root, "g1f3", 20);
    setRes(book, D, "d7d5", -50);
    setRes(book, A, "c7c5", -15);
    setRes(book, B, "b1c3", 12);
    setRes(book, C, "b8c6", -10);
    int nErr = check(book, "initial book");
    std::cout << "root.negaMax=" << book.getBookNode(root)->getNegaMaxScore()
              << " A.negaMax=" << book.getBookNode(A)->getNegaMaxScore()
              << " A.pathErrorWhite=" << book.getBookNode(A)->getPathErrorWhite() << std::endl;
    // a new search result deep in the line changes C, B and A but not the root
    setRes(book, C, "b8c6", -40);
    std::cout << "root.negaMax=" << book.getBookNode(root)->getNegaMaxScore()
              << " A.negaMax=" << book.getBookNode(A)->getNegaMaxScore()
              << " A.pathErrorWhite=" << book.getBookNode(A)->getPathErrorWhite() << std::endl;
    nErr += check(book, "after setSearchResult on C");
    book.writeToFile(tmpFile);
    BBook book2("");
    book2.readFromFile(tmpFile);
    nErr += check(book2, "reloaded book");
    nErr += compare(book, book2);
    std::cout << "total violations: " << nErr << std::endl;
    return nErr == 0 ? 0 : 1;
}

int
main(int argc, char* argv[]) {
    if (argc != 2) {
        std::cerr << "usage: demo <tmpfile>" << std::endl;
        return 2;
    }
    ComputerPlayer::initEngine();
    return BookBuildTest::run(argv[1]);
}
