#!/bin/bash
# usage: run.sh <texel binary>  - the last command of the input has no trailing newline
T=$1
a=$(printf 'uci\nisready\n' | $T | grep -c '^readyok$')
b=$(printf 'uci\nisready' | $T | grep -c '^readyok$')
c=$(printf 'position startpos\ngo depth 3' | timeout 20 $T | grep -c '^bestmove ')
echo "isready + newline: $a readyok;  isready without newline: $b readyok;  'go depth 3' without newline: $c bestmove"
if [ "$a" = 1 ] && [ "$b" = 1 ] && [ "$c" = 1 ]; then echo "RESULT: every command was answered"; exit 0; fi
echo "RESULT: VIOLATION - the last input line is dropped when it does not end with a newline"; exit 1
