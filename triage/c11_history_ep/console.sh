#!/bin/bash
# usage: console.sh <texel binary>  - console game: a valid repetition claim after undo/redo of the double push
T=$1
out=$( (echo "setpos 4k2n/8/8/8/4p3/8/3P4/3KR2N w - - 0 1"; echo "d4"; echo "undo"; echo "redo"; \
 for m in Ng6 Ng3 Nh8 Nh1 Ng6 Ng3 Nh8; do echo $m; done; echo "draw rep Nh1"; echo "getpos"; echo "quit") | $T txt 2>&1 | tail -30)
echo "$out" | grep -i "draw\|game over\|rep" | tail -5
if echo "$out" | grep -qi "draw by repetition\|Game is a draw by rep"; then echo "RESULT: claim accepted"; exit 0; else echo "RESULT: VIOLATION - valid repetition claim refused"; exit 1; fi
