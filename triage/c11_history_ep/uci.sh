#!/bin/bash
# usage: uci.sh <texel binary>   - UCI history whose first occurrence carries an illegal en-passant square
# (d2d4 next to the pawn e4, which is pinned by Re1): g3h1 produces the third occurrence and must be scored cp 0.
# Control: the same history with the black pawn on e5 (no en-passant square at all).
T=$1
run() { (echo "uci"; echo "setoption name Threads value 1"; echo "isready"; echo "position fen $1 moves d2d4 h8g6 h1g3 g6h8 g3h1 h8g6 h1g3 g6h8"; \
 echo "go depth 3 searchmoves g3h1"; sleep 1; echo quit) | $T 2>&1 | grep "^info depth [0-9]* score" | tail -1; }
c=$(run "4k2n/pp6/8/4p3/8/8/3P4/BB1KR2N w - - 0 1"); echo "control : $c"
o=$(run "4k2n/pp6/8/8/4p3/8/3P4/BB1KR2N w - - 0 1"); echo "pinned  : $o"
case "$c" in *"score cp 0 "*) ;; *) echo "RESULT: control not scored as a draw (harness problem)"; exit 2;; esac
case "$o" in *"score cp 0 "*) echo "RESULT: third occurrence scored as a draw"; exit 0;; *) echo "RESULT: VIOLATION - third occurrence not scored as a draw"; exit 1;; esac
