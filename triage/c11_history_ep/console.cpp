// Triage replay for C11 (not a check): a valid repetition claim in the console game is refused after the double pawn
// push was taken back and replayed (`redo` does not normalise the en-passant square).
#include "game.hpp"
#include "humanPlayer.hpp"
#include "computerPlayer.hpp"
#include "util.hpp"
#include <iostream>

static int play(bool undoRedo) {
    Game game(make_unique<HumanPlayer>(), make_unique<HumanPlayer>());
    game.processString("setpos 4k2n/8/8/8/4p3/8/3P4/3KR2N w - - 0 1");
    game.processString("d4");
    if (undoRedo) {
        game.processString("undo");
        game.processString("redo");
    }
    for (const char* m : {"Ng6", "Ng3", "Nh8", "Nh1", "Ng6", "Ng3", "Nh8"})
        if (!game.processString(m)) { std::cout << "move " << m << " rejected" << std::endl; return 2; }
    game.processString("draw rep Nh1");
    bool accepted = game.getGameState() == Game::DRAW_REP;
    std::cout << (undoRedo ? "with undo/redo   : " : "without undo/redo: ") << (accepted ? "claim accepted" : "claim refused") << std::endl;
    return accepted ? 0 : 1;
}

int main() {
    ComputerPlayer::initEngine();
    int a = play(false);
    int b = play(true);
    if (a != 0) { std::cout << "RESULT: control failed" << std::endl; return 2; }
    std::cout << (b == 0 ? "RESULT: claim accepted in both games" : "RESULT: VIOLATION - valid repetition claim refused after undo/redo") << std::endl;
    return b;
}
