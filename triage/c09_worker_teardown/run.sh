#!/bin/bash
# run.sh <srcdir>: builds texel from <srcdir> with ThreadSanitizer and the synthetic network in a scratch directory,
# runs 3 rounds of (Threads 512, go, Threads 1, go) and counts ThreadSanitizer reports.
# Before the fix (D20): "data race on vptr (ctor/dtor vs virtual call)", Communicator::~Communicator (engine thread, via
# ~WorkerThread -> children.clear()) against Communicator::poll parallel.cpp:215 of the parent worker's still running thread.
# After: 0 reports (also 6 rounds with Threads 16).
SRC=${1:?srcdir}; S=$(mktemp -d /tmp/c09td.XXXXXX); trap 'rm -rf "$S"' EXIT
mkdir $S/src && (cd "$SRC" && git archive HEAD 2>/dev/null || tar -c --exclude=_build .) | tar -x -C $S/src
cp "$(dirname "$0")/../mknet_out/nndata.tbin.compr" $S/src/ 2>/dev/null || cp /tmp/helpers/nndata.tbin.compr $S/src/
cmake -G Ninja -S $S/src -B $S/b -DCMAKE_BUILD_TYPE=RelWithDebInfo -DCMAKE_CXX_FLAGS="-fsanitize=thread -g -O1" -DCMAKE_C_FLAGS="-fsanitize=thread -g -O1" -DCMAKE_EXE_LINKER_FLAGS="-fsanitize=thread" >/dev/null && cmake --build $S/b -j16 --target texel >/dev/null || exit 2
python3 "$(dirname "$0")/driver.py" $S/b/texel 3 512 0 $S/tsan || exit 2
n=$(cat $S/tsan.* 2>/dev/null | grep -c "WARNING: ThreadSanitizer")
echo "ThreadSanitizer reports: $n"; [ "$n" = 0 ]
