#!/usr/bin/env python3
"""Drive a ThreadSanitizer-instrumented texel binary through a UCI session in
which the pool of helper threads is created from scratch several times
(Threads N -> 1 -> N ...), with a large N, so that starting the tree of worker
threads takes a noticeable amount of time.

Optionally the whole engine process is suspended (SIGSTOP) for a short while
right after each "go" that creates the workers, which is just another legal
schedule: the operating system does not run any of the engine's threads for
some hundred milliseconds while the workers are starting.

usage: driver.py <texel-binary> <rounds> <threads> <stall-ms> <tsan-log-prefix>
exit status: 0 = session completed, 3 = engine died / did not answer
"""
import os, queue, signal, subprocess, sys, threading, time

ANSWER_TIMEOUT = 600  # seconds


def main():
    exe = sys.argv[1]
    rounds = int(sys.argv[2])
    threads = int(sys.argv[3])
    stall_ms = int(sys.argv[4])
    logprefix = sys.argv[5]

    env = dict(os.environ)
    env["TSAN_OPTIONS"] = ("halt_on_error=0 report_thread_leaks=0 "
                           "report_signal_unsafe=0 log_path=" + logprefix)
    p = subprocess.Popen([exe], stdin=subprocess.PIPE, stdout=subprocess.PIPE,
                         stderr=subprocess.DEVNULL, env=env,
                         universal_newlines=True, bufsize=1)
    lines = queue.Queue()

    def reader():
        for line in p.stdout:
            lines.put(line)
        lines.put(None)
    threading.Thread(target=reader, daemon=True).start()

    def send(s):
        p.stdin.write(s + "\n")
        p.stdin.flush()

    def wait_for(tok):
        deadline = time.time() + ANSWER_TIMEOUT
        while True:
            try:
                line = lines.get(timeout=max(0.1, deadline - time.time()))
            except queue.Empty:
                line = None
            if line is None:
                print("driver: engine died or did not answer while waiting for '%s' (exit status so far: %s)"
                      % (tok, p.poll()))
                try:
                    p.kill()
                except Exception:
                    pass
                sys.exit(3)
            if line.startswith(tok):
                return line

    send("uci"); wait_for("uciok")
    send("setoption name Hash value 1")
    send("isready"); wait_for("readyok")
    for r in range(rounds):
        # Many helper threads. All of them are new, the previous search used one thread.
        send("setoption name Threads value %d" % threads)
        send("position startpos")
        send("go depth 2")
        if stall_ms > 0:
            time.sleep(0.03)                 # the workers are being started now
            os.kill(p.pid, signal.SIGSTOP)   # nothing in the engine runs for a while
            time.sleep(stall_ms / 1000.0)
            os.kill(p.pid, signal.SIGCONT)
        wait_for("bestmove")
        # Back to a single thread: all helper threads are destroyed again.
        send("setoption name Threads value 1")
        send("go depth 1"); wait_for("bestmove")
    send("quit")
    try:
        p.wait(timeout=ANSWER_TIMEOUT)
    except subprocess.TimeoutExpired:
        print("driver: engine did not terminate after quit")
        p.kill()
        sys.exit(3)
    if p.returncode not in (0, 66):   # 66 = TSan's exit code when races were reported
        print("driver: engine exit status %d" % p.returncode)
        sys.exit(3)


main()
