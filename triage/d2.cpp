#include "material.hpp"
#include <iostream>
int main() { MatId id; for (int i = 0; i < 6; i++) id.addPiece(Piece::BQUEEN); std::cout << id() << std::endl; }
