// Triage replay for C17 (not a check): a FEN whose half-move clock is INT_MAX is accepted; one reversible move later the
// clock has wrapped to INT_MIN and Position::bookHash() indexes moveCntKeys[min(clock, 100)] far below the table.
// Before the fix (D21): SIGSEGV in bookHash.  After: the clock field of such a FEN is ignored (like a negative one).
#include "position.hpp"
#include "textio.hpp"
#include "computerPlayer.hpp"
#include <iostream>
int main() {
    ComputerPlayer::initEngine();
    Position pos = TextIO::readFEN("8/8/8/8/8/2k5/8/KQ6 w - - 2147483647 1");
    std::cout << "accepted, clock " << pos.getHalfMoveClock() << std::endl;
    UndoInfo ui;
    pos.makeMove(TextIO::uciStringToMove("a1a2"), ui);
    std::cout << "after Ka2 clock " << pos.getHalfMoveClock() << std::endl;
    std::cout << "bookHash " << pos.bookHash() << std::endl;
    return 0;
}
