// Triage replay for C18 (not a check): a polyglot file with N duplicate entries of weight 65535 for the start
// position.  N = 16384 -> weight sum 2^30 - 16384 (works); N = 16385 -> sum > 2^30: Random::nextInt never returns;
// N = 32769 -> the int sum overflows.   usage: c18_weight_sum <N> <tmpfile>   (run under `timeout`)
#include "book.hpp"
#include "polyglot.hpp"
#include "parameters.hpp"
#include "textio.hpp"
#include "computerPlayer.hpp"
#include <fstream>
#include <iostream>

int main(int argc, char* argv[]) {
    int n = atoi(argv[1]);
    std::string file = argv[2];
    ComputerPlayer::initEngine();
    Position pos = TextIO::readFEN(TextIO::startPosFEN);
    Move m = TextIO::uciStringToMove("e2e4");
    U64 key = PolyglotBook::getHashKey(pos);
    U16 pgMove = PolyglotBook::getPGMove(pos, m);
    {
        std::ofstream os(file.c_str(), std::ios::binary);
        for (int i = 0; i < n; i++) {
            PolyglotBook::PGEntry ent;
            PolyglotBook::serialize(key, pgMove, 65535, ent);
            os.write((const char*)ent.data, 16);
        }
    }
    UciParams::bookFile->set(file);
    Book book(false);
    Move out;
    book.getBookMove(pos, out);
    std::cout << "N=" << n << " probe returned " << TextIO::moveToUCIString(out) << std::endl;
    return out == m ? 0 : 1;
}
