#include "transpositionTable.hpp"
#include "textio.hpp"
#include "position.hpp"
#include "constants.hpp"
#include <iostream>
#include <thread>
#include <chrono>
int main() {
    TranspositionTable tt(1 << 20); // 16 MB
    Position pos = TextIO::readFEN("8/8/8/8/8/2k5/r7/KQ6 w - - 0 1"); // KQKR
    RelaxedShared<S64> maxT(-1);     // go infinite
    std::thread stopper([&]{ std::this_thread::sleep_for(std::chrono::milliseconds(30)); maxT = 0; }); // "stop"
    bool ok = tt.updateTB(pos, maxT);
    stopper.join();
    int score = 12345;
    bool hit = tt.probeDTM(pos, 0, score);
    std::cout << "updateTB=" << ok << "  probeDTM hit=" << hit << " score=" << score << std::endl;
    Move m(Square(1), Square(9), 0, 77);
    for (U64 k = 1; k < 3000000; k++)
        tt.insert(k * 0x9E3779B97F4A7C15ULL, m, TType::T_EXACT, 0, 5, 33);
    int nHit = 0, nWin = 0, nLoss = 0, nDraw = 0;
    const char* fens[] = {"8/8/8/8/8/2k5/r7/KQ6 w - - 0 1", "8/8/8/3k4/8/8/r7/KQ6 b - - 0 1",
                          "7k/8/8/8/8/8/r7/KQ6 w - - 0 1", "8/8/8/8/4k3/8/1r6/K1Q5 w - - 0 1",
                          "8/5k2/8/8/8/8/6r1/K5Q1 w - - 0 1", "8/8/8/8/8/k7/7r/KQ6 b - - 0 1"};
    for (const char* f : fens) {
        Position p = TextIO::readFEN(f);
        int s = 0;
        if (tt.probeDTM(p, 0, s)) {
            nHit++;
            std::cout << "  after hash traffic: " << f << " -> score " << s << std::endl;
        }
    }
    RelaxedShared<S64> inf(-1);
    Position big = TextIO::readFEN(TextIO::startPosFEN);
    std::cout << "updateTB(start position) says TB available: " << tt.updateTB(big, inf) << std::endl;
    return 0;
}
