#!/bin/bash
# run.sh <texel binary built with a working network>: a FEN with 46 black queens (263 pseudo-legal moves) followed by a search.
# Before the fix (D18): SIGSEGV (MoveList overflow).  After: the FEN is rejected, the engine answers from the previous position.
T=${1:?texel binary}
printf 'position fen kqqqqqqq/q6q/q6q/q6q/q6q/q5qq/q4qPP/qqqqqqNK b - - 0 1\ngo depth 1\nquit\n' | timeout 20 "$T" | tail -2
rc=${PIPESTATUS[1]}
echo "engine exit status: $rc"
[ "$rc" = 0 ]
