// Generate a synthetic network file (random small weights), LZMA86-compressed like nndata.tbin.compr
#include "nntypes.hpp"
#include "random.hpp"
#include <fstream>
#include <sstream>
#include <iostream>
extern "C" {
#include "Lzma86Enc.h"
}
int main(int argc, char** argv) {
    auto nd = NetData::create();
    Random rnd(4711);
    for (size_t i = 0; i < COUNT_OF(nd->weight1.data); i++) nd->weight1.data[i] = (S16)(rnd.nextInt(41) - 20);
    for (size_t i = 0; i < COUNT_OF(nd->bias1.data); i++) nd->bias1.data[i] = (S16)(rnd.nextInt(41) - 20);
    for (auto& h : nd->head) {
        for (auto& v : h.lin2.weight.data) v = (S8)(rnd.nextInt(21) - 10);
        for (auto& v : h.lin2.bias.data) v = rnd.nextInt(201) - 100;
        for (auto& v : h.lin3.weight.data) v = (S8)(rnd.nextInt(21) - 10);
        for (auto& v : h.lin3.bias.data) v = rnd.nextInt(201) - 100;
        for (auto& v : h.lin4.weight.data) v = (S8)(rnd.nextInt(21) - 10);
        for (auto& v : h.lin4.bias.data) v = rnd.nextInt(201) - 100;
    }
    std::stringstream ss;
    nd->save(ss);
    std::string raw = ss.str();
    std::vector<unsigned char> out(raw.size() + raw.size() / 2 + 1024);
    size_t outLen = out.size();
    int res = Lzma86_Encode(out.data(), &outLen, (const unsigned char*)raw.data(), raw.size(), 5, 1 << 20, SZ_FILTER_NO);
    if (res != SZ_OK) { std::cerr << "encode failed " << res << std::endl; return 1; }
    std::ofstream os(argv[1], std::ios::binary);
    os.write((const char*)out.data(), outLen);
    std::cout << "raw " << raw.size() << " compressed " << outLen << std::endl;
}
