#include "evaluate.hpp"
#include "textio.hpp"
#include "computerPlayer.hpp"
#include <iostream>
int main() {
    ComputerPlayer::initEngine();
    Position pos = TextIO::readFEN("r1bqkbnr/pppp1ppp/2n5/4p3/4P3/5N2/PPPP1PPP/RNBQKB1R w KQkq - 2 3");
    auto et = Evaluate::getEvalHashTables();      // tables that persist across searches (EngineControl::et)
    int s0, s1cached, s1fresh;
    { Evaluate ev(*et); ev.connectPosition(pos); ev.setWhiteContempt(0);   s0 = ev.evalPos(); }
    { Evaluate ev(*et); ev.connectPosition(pos); ev.setWhiteContempt(200); s1cached = ev.evalPos(); }
    auto et2 = Evaluate::getEvalHashTables();     // from scratch
    { Evaluate ev(*et2); ev.connectPosition(pos); ev.setWhiteContempt(200); s1fresh = ev.evalPos(); }
    std::cout << "contempt 0: " << s0 << "   contempt 200 with old tables: " << s1cached
              << "   contempt 200 from scratch: " << s1fresh << std::endl;
    return s1cached == s1fresh ? 0 : 1;
}
