// Triage replay for C18 (not a check): a sorted, well-formed polyglot file larger than 2 GiB.  The first
// 134217800 entries are zero (key 0), the last entry stores e2e4 with weight 100 for the start position.
// readEntry computes `entNo * entSize` in int: for entNo >= 2^27 the offset overflows and the probe misses.
//   usage: c18_offset_overflow <tmpfile>      (the file is sparse: ~2 GiB apparent, a few KB on disk)
#include "book.hpp"
#include "polyglot.hpp"
#include "parameters.hpp"
#include "textio.hpp"
#include "computerPlayer.hpp"
#include <fstream>
#include <iostream>
#include <unistd.h>
#include <fcntl.h>

static int probe(const std::string& file, long nLeading) {
    Position pos = TextIO::readFEN(TextIO::startPosFEN);
    Move m = TextIO::uciStringToMove("e2e4");
    PolyglotBook::PGEntry ent;
    PolyglotBook::serialize(PolyglotBook::getHashKey(pos), PolyglotBook::getPGMove(pos, m), 100, ent);
    int fd = open(file.c_str(), O_CREAT | O_TRUNC | O_WRONLY, 0600);
    if (fd < 0 || pwrite(fd, ent.data, 16, (off_t)nLeading * 16) != 16) { perror("write"); return 2; }
    close(fd);
    UciParams::bookFile->set(file);
    Book book(false);
    Move out;
    book.getBookMove(pos, out);
    std::cout << nLeading << " leading entries: probe returned " << TextIO::moveToUCIString(out) << std::endl;
    return out == m ? 0 : 1;
}

int main(int argc, char* argv[]) {
    ComputerPlayer::initEngine();
    int a = probe(argv[1], 1000);
    int b = probe(argv[1], 134217800L);
    unlink(argv[1]);
    if (a != 0) { std::cout << "RESULT: control failed" << std::endl; return 2; }
    std::cout << (b == 0 ? "RESULT: stored move returned" : "RESULT: VIOLATION - stored move with positive weight is never returned") << std::endl;
    return b;
}
