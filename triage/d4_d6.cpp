#include "transpositionTable.hpp"
#include "textio.hpp"
#include "position.hpp"
#include "constants.hpp"
#include <iostream>
int main(int argc, char** argv) {
    std::string which = argc > 1 ? argv[1] : "";
    if (which == "D3") {
        TranspositionTable tt(1 << 20); // 16 MB
        Position pos = TextIO::readFEN("8/8/8/8/8/2k5/8/KQ6 w - - 0 1"); // KQK, white wins
        RelaxedShared<S64> maxT(0); // "stop" already requested -> generation aborted
        bool ok = tt.updateTB(pos, maxT);
        int score = 12345;
        bool hit = tt.probeDTM(pos, 0, score);
        std::cout << "updateTB=" << ok << " probeDTM hit=" << hit << " score=" << score << std::endl;
        // now ordinary hash traffic, then probe again
        Move m(Square(1), Square(9), 0, 77);
        for (U64 k = 1; k < 4000000; k++)
            tt.insert(k * 0x9E3779B97F4A7C15ULL, m, TType::T_EXACT, 0, 5, 33);
        score = 12345;
        hit = tt.probeDTM(pos, 0, score);
        std::cout << "after hash traffic: probeDTM hit=" << hit << " score=" << score << std::endl;
        RelaxedShared<S64> inf(-1);
        // next search on a non-TB position: does updateTB claim a TB is available?
        Position pos5 = TextIO::readFEN("8/8/8/8/8/2k5/1P6/KQ6 w - - 0 1");
        std::cout << "updateTB(5-man, pawn)=" << tt.updateTB(pos5, inf) << std::endl;
    } else if (which == "D4") {
        // fresh table at generation 1 versus cleared table whose generation wrapped to 0
        auto run = [](int nGen) {
            TranspositionTable tt(1 << 10);
            for (int i = 0; i < nGen; i++) tt.nextGeneration();
            tt.clear();                 // "Clear Hash"
            tt.nextGeneration();        // next search
            Move m(Square(1), Square(9), 0, 10);
            U64 kA = 0x1234000000000010ULL, kB = 0x1234000000000011ULL; // same bucket (low bits masked)
            tt.insert(kA, m, TType::T_GE, 0, 0, 5);
            tt.insert(kB, m, TType::T_GE, 0, 0, 5);
            TranspositionTable::TTEntry e; tt.probe(kA, e);
            return e.getType();
        };
        std::cout << "fresh (0 prior searches): entry A type after inserting B = " << run(0) << std::endl;
        std::cout << "15 prior searches + Clear Hash: entry A type after inserting B = " << run(15) << std::endl;
    } else if (which == "D6") {
        Position pos = TextIO::readFEN("8/8/8/8/8/2k5/8/KQ6 w - - -200000 1");
        std::cout << "hmc=" << pos.getHalfMoveClock() << std::endl;
        std::cout << pos.bookHash() << std::endl;
    } else if (which == "D2") {
        Position pos = TextIO::readFEN("qqqqqq1k/8/8/8/8/8/8/K7 w - - 0 1");
        std::cout << "matId=" << pos.materialId() << std::endl;
    }
}
