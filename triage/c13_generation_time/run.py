#!/usr/bin/env python3
"""Triage replay for C13 (not a check): usage run.py <texel binary>
KQKR root `8/8/8/3k4/8/8/6r1/QK6 w` (won: mate 11 with a1a8).  With clock values whose hard limit allows on-demand
generation (>= 3 s) but whose soft limit is shorter than the generation itself, the first clock poll aborts the search
at node 1: no score line is printed and the first move of the static ordering is played."""
import subprocess, sys, time, threading
exe = sys.argv[1]
bad = []
for wtime in (30000, 34000, 38000, 42000, 46000, 50000, 60000):
    p = subprocess.Popen([exe], stdin=subprocess.PIPE, stdout=subprocess.PIPE, text=True, bufsize=1)
    out = []
    t = threading.Thread(target=lambda: [out.append(l.rstrip()) for l in p.stdout], daemon=True)
    t.start()
    def send(s):
        p.stdin.write(s + '\n'); p.stdin.flush()
    send('uci'); send('setoption name Threads value 1'); send('setoption name Hash value 64'); send('isready')
    send('position fen 8/8/8/3k4/8/8/6r1/QK6 w - - 0 1')
    send('go wtime %d btime %d' % (wtime, wtime))
    t0 = time.time()
    while time.time() - t0 < 20 and not any(l.startswith('bestmove') for l in out):
        time.sleep(0.05)
    send('quit'); p.wait(5)
    scores = [l for l in out if l.startswith('info depth') and ' score ' in l]
    bm = [l for l in out if l.startswith('bestmove')]
    nodes = [l for l in out if l.startswith('info nodes')]
    last = scores[-1].split(' pv')[0] if scores else 'no score line'
    print('wtime %6d: %-60s %s %s' % (wtime, last, bm[0] if bm else 'no bestmove', nodes[-1] if nodes else ''))
    if not scores or ' mate ' not in scores[-1]:
        bad.append(wtime)
print('RESULT: ' + ('VIOLATION - table built but not consulted for clocks %s' % bad if bad else 'every move was played with tablebase knowledge'))
sys.exit(1 if bad else 0)
