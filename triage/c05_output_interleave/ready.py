import subprocess,sys,time,threading,re
exe=sys.argv[1]; N=int(sys.argv[2])
p=subprocess.Popen([exe],stdin=subprocess.PIPE,stdout=subprocess.PIPE,text=True,bufsize=1)
out=[]
def rd():
    for l in p.stdout: out.append(l.rstrip('\n'))
t=threading.Thread(target=rd,daemon=True); t.start()
def send(s): p.stdin.write(s+'\n'); p.stdin.flush()
send('uci'); send('setoption name Threads value 1'); send('isready'); time.sleep(1)
n0=len(out)
send('position startpos'); send('go infinite')
for i in range(N): send('isready')
time.sleep(2); send('stop'); time.sleep(1); send('quit'); p.wait(5); time.sleep(0.5)
lines=out[n0:]
ok=re.compile(r'^(readyok|bestmove [a-h][1-8][a-h][1-8][qrbn]?( ponder [a-h][1-8][a-h][1-8][qrbn]?)?|info (depth \d+( score (cp|mate) -?\d+( upperbound| lowerbound)? time \d+ nodes \d+ nps \d+( tbhits \d+)?( multipv \d+)? pv( [a-h][1-8][a-h][1-8][qrbn]?)*)?|currmove \S+ currmovenumber \d+|nodes \d+ nps \d+ hashfull \d+( tbhits \d+)? time \d+|string .*))$')
bad=[l for l in lines if not ok.match(l)]
print('lines',len(lines),'readyok lines',sum(1 for l in lines if l=='readyok'),'of',N,'malformed',len(bad))
for l in bad[:8]: print('  MALFORMED:',repr(l))
sys.exit(1 if bad or sum(1 for l in lines if l=='readyok')!=N else 0)
