// Triage replay for C18 (not a check): a polyglot file with two entries under the start position's key, the legal
// move e2e4 and the move word 2752 (d6a1: from an empty square).  getBookMove filters the second one out;
// getAllBookMoves (the console player's "Book moves:" line, printed right after a successful getBookMove) handed it
// to TextIO::moveToString unfiltered.   usage: c18_allmoves_hang <tmpfile>   (run under `timeout 10`)
#include "book.hpp"
#include "polyglot.hpp"
#include "parameters.hpp"
#include "textio.hpp"
#include "computerPlayer.hpp"
#include <fstream>
#include <iostream>

int main(int argc, char* argv[]) {
    std::string file = argv[1];
    ComputerPlayer::initEngine();
    Position pos = TextIO::readFEN(TextIO::startPosFEN);
    Move m = TextIO::uciStringToMove("e2e4");
    U64 key = PolyglotBook::getHashKey(pos);
    {
        std::ofstream os(file.c_str(), std::ios::binary);
        PolyglotBook::PGEntry ent;
        PolyglotBook::serialize(key, PolyglotBook::getPGMove(pos, m), 10, ent);
        os.write((const char*)ent.data, 16);
        PolyglotBook::serialize(key, 2752, 10, ent);
        os.write((const char*)ent.data, 16);
    }
    UciParams::bookFile->set(file);
    Book book(false);
    Move out;
    book.getBookMove(pos, out);
    std::cout << "getBookMove -> " << TextIO::moveToUCIString(out) << std::endl;
    std::cout << "getAllBookMoves -> " << std::flush;
    std::cout << book.getAllBookMoves(pos) << std::endl;
    return 0;
}
