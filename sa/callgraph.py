"""Whole-program call graph: CHA + lambda/std::function registration edges + thread roots,
with the refinements of DESIGN 1.3 (each has a *checked premise*, see premises()):

 (i)  handler-object sensitivity: a virtual call on a by-reference parameter of polymorphic
      class type (Communicator::poll(CommandHandler&)) is resolved per call site to the
      concrete class of the object passed there (pass-through parameters are propagated);
 (ii) `virt_only`: restrict the targets of named virtual methods to named classes (used to
      build an engine-side and a helper-side view of Search::StopHandler::shouldStop);
 (iii) reference members whose dynamic class is fixed by their only construction site
      (REF_FIELD_CLASS).
Only events in CFG blocks that are still reachable after constant-stub folding are used.
"""
from collections import defaultdict, deque

from .core import cname, walk, strip_targs, ap

THREAD_CTORS = ('std::thread::thread',)
LISTENER_SINK = 'Parameters::Listener::addListener'
LISTENER_INVOKERS = ['Parameters::Listener::notify', 'Parameters::Listener::addListener']
POOL_ADD = 'ThreadPool::addTask'
POOL_GET = ('ThreadPool::getResult', 'ThreadPool::getAllResults')

# reference member -> (class it always refers to, class whose constructions are the premise)
REF_FIELD_CLASS = {
    'ThreadStopHandler::commHandler': 'WorkerThread::CommHandler',
}


def _is_thread_sink(e):
    n = cname(e)
    if n in THREAD_CTORS:
        return True
    full = e.get('n') or ''
    # make_unique<std::thread>(f) / make_shared<std::thread>(f)
    if strip_targs(full).split('::')[-1] in ('make_unique', 'make_shared') and '<std::thread' in full:
        return True
    return False


class CallGraph:
    def __init__(self, fb, virt_only=None):
        self.fb = fb
        self.virt_only = virt_only or {}
        self.edges = defaultdict(set)        # caller key -> callee keys (same thread)
        self.redges = defaultdict(set)
        self.sites = defaultdict(list)       # (caller, callee) -> [(block, idx, event)]
        self.extra_at = defaultdict(set)     # (caller key, id(event)) -> extra callee keys at that event
        self.overriders = defaultdict(set)   # base method key -> overriding method keys (transitive)
        self.thread_roots = []               # (callable key, creator key, event)
        self.pool_tasks = defaultdict(list)  # registering function key -> [task lambda keys]
        self.listeners = []                  # (lambda key, registering function key)
        self.unresolved = []
        self.method_class = {}
        self.premise_notes = []
        self._build()

    # ------------------------------------------------------------------ helpers

    def _cls_of(self, key):
        f = self.fb.funcs.get(key)
        if f is not None:
            return f.d.get('cls')
        return self.method_class.get(key)

    def _virtual_targets(self, base_key, static_cls=None):
        """Concrete targets of a virtual call to base_key; static_cls narrows to that class's
        sub-hierarchy (handler-object sensitivity)."""
        cands = {base_key} | self.overriders.get(base_key, set())
        bn = self.fb.kname(base_key)
        only = self.virt_only.get(bn)
        if only is not None:
            cands = {k for k in cands if self._cls_of(k) in only}
        if static_cls is not None:
            sub = self._subclasses(static_cls)
            narrowed = {k for k in cands if self._cls_of(k) in sub}
            # methods not overridden in the sub-hierarchy: inherited implementation
            if narrowed:
                return narrowed
            sup = self._superclasses(static_cls)
            inh = {k for k in cands if self._cls_of(k) in sup}
            return inh or {base_key}
        return cands

    def _subclasses(self, cls):
        out = {cls}
        changed = True
        while changed:
            changed = False
            for r in self.fb.records.values():
                if r['name'] in out:
                    continue
                for b in r.get('bases', []):
                    if strip_targs(b) in out or b in out:
                        out.add(r['name'])
                        changed = True
                        break
        return out

    def _superclasses(self, cls):
        out = set()
        stack = [cls]
        while stack:
            c = stack.pop()
            r = self.fb.records.get(c)
            if not r:
                continue
            for b in r.get('bases', []):
                if b not in out:
                    out.add(b)
                    stack.append(b)
        return out

    def _related(self, a, b):
        return a == b or a in self._subclasses(b) or b in self._subclasses(a)

    def _listener_class(self, recv):
        """Static class of the object a listener is registered on (through shared_ptr if needed)."""
        if not isinstance(recv, dict):
            return None
        for n in walk(recv):
            rc = n.get('rc')
            if not rc:
                continue
            if rc.startswith(('std::shared_ptr<', 'std::unique_ptr<')):
                inner = rc[rc.index('<') + 1:]
                depth = 0
                out = ''
                for ch in inner:
                    if ch == '<':
                        depth += 1
                    if ch == '>' and depth == 0:
                        break
                    if ch == '>':
                        depth -= 1
                    if ch == ',' and depth == 0:
                        break
                    out += ch
                return strip_targs(out.strip())
            if rc in self.fb.records:
                return strip_targs(rc)
        if recv.get('k') == 'this':
            return None
        return None

    @staticmethod
    def _class_of_type(t):
        if not t:
            return None
        t = t.replace('const ', '').replace('&', '').replace('*', '').strip()
        return t

    # ------------------------------------------------------------------ construction

    def _build(self):
        fb = self.fb
        direct = defaultdict(set)
        for r in fb.records.values():
            for m in r.get('methods', []):
                self.method_class[m['key']] = r['name']
                for o in m.get('overrides', []):
                    direct[o].add(m['key'])
        for f in fb.funcs.values():
            for o in f.d.get('overrides', []) or []:
                direct[o].add(f.key)
        for base in list(direct):
            seen = set()
            dq = deque(direct[base])
            while dq:
                k = dq.popleft()
                if k in seen:
                    continue
                seen.add(k)
                dq.extend(direct.get(k, ()))
            self.overriders[base] = seen

        polymorphic = {r['name'] for r in fb.records.values() if r.get('polymorphic')}

        # pass 1: handler parameters: func key -> {param id: set(base method keys called on it)}
        hparams = {}
        for f in fb.funcs.values():
            if not f.has_cfg:
                continue
            pids = {}
            for p in f.d.get('params', []):
                c = p.get('rc')
                if c in polymorphic and '&' in (p.get('t') or ''):
                    pids[p['id']] = (p['n'], c)
            if not pids:
                continue
            used = defaultdict(set)
            for bid, i, e in f.events():
                if e.get('k') == 'call' and e.get('virt') and e.get('recv') is not None:
                    r = e['recv']
                    if r.get('k') == 'var' and r.get('vk') == 'param' and r.get('id') in pids:
                        used[r['id']].add(e['f'])
            if used:
                hparams[f.key] = {'idx': {p['id']: n for n, p in enumerate(f.d.get('params', []))},
                                  'used': dict(used)}
        # pass-through propagation: G(handler&) { F(handler) } makes G a handler-parameter function too
        changed = True
        while changed:
            changed = False
            for g in fb.funcs.values():
                if not g.has_cfg:
                    continue
                gp = {p['id']: n for n, p in enumerate(g.d.get('params', []))
                      if p.get('rc') in polymorphic and '&' in (p.get('t') or '')}
                if not gp:
                    continue
                for bid, i, e in g.events():
                    if e.get('k') != 'call' or e.get('f') not in hparams:
                        continue
                    hp = hparams[e['f']]
                    for pid, pos in hp['idx'].items():
                        if pid not in hp['used']:
                            continue
                        args = e.get('args', [])
                        if pos < len(args) and isinstance(args[pos], dict):
                            a = args[pos]
                            if a.get('k') == 'var' and a.get('vk') == 'param' and a.get('id') in gp:
                                ent = hparams.setdefault(g.key, {'idx': {p['id']: n for n, p in enumerate(g.d.get('params', []))},
                                                                 'used': {}})
                                cur = ent['used'].setdefault(a['id'], set())
                                if not hp['used'][pid] <= cur:
                                    cur |= hp['used'][pid]
                                    changed = True
        self.hparams = hparams

        by_sname = fb.by_name
        for f in fb.funcs.values():
            if not f.has_cfg:
                continue
            lambda_vars = {}
            local_types = {}
            handed = set()
            all_lambdas = []
            hp_self = hparams.get(f.key, {'used': {}})
            for bid, i, e in f.events():
                k = e.get('k')
                if k == 'decl':
                    for v in e.get('vars', []):
                        local_types[v.get('id')] = v.get('rc')
                        init = v.get('init')
                        if init is not None:
                            for n in walk(init):
                                if n.get('k') == 'lambda':
                                    lambda_vars[v.get('id')] = n['f']
                                    break
                if k == 'lambda':
                    all_lambdas.append(e['f'])
                if k not in ('call', 'ctor'):
                    continue
                callee = e.get('f')
                n = cname(e)
                cargs = []
                for a in e.get('args', []):
                    for nd in walk(a):
                        if nd.get('k') == 'lambda':
                            cargs.append(nd['f'])
                        elif nd.get('k') == 'var' and nd.get('id') in lambda_vars:
                            cargs.append(lambda_vars[nd['id']])
                        elif nd.get('k') in ('fref', 'mref') and nd.get('f') in fb.funcs:
                            cargs.append(nd['f'])
                if cargs and k == 'ctor' and e.get('copy') and '(lambda@' in (e.get('f') or ''):
                    cargs = []      # copy/move of the closure object itself
                if cargs and k == 'ctor' and (e.get('cls') or '').startswith('std::function'):
                    handed.update(cargs)
                    cargs = []      # wrapping a callable in std::function does not invoke it; the
                                    # call that receives the wrapper sees the callable through its argument tree
                if cargs:
                    handed.update(cargs)
                    if _is_thread_sink(e):
                        for c in cargs:
                            self.thread_roots.append((c, f.key, e))
                    elif n == LISTENER_SINK or (n.endswith('::addListener') and n.startswith('Parameters::')):
                        a_ = [x for x in e.get('args', [])]
                        call_now = not (len(a_) >= 2 and isinstance(a_[1], dict) and a_[1].get('cv') == 0)
                        rcls = self._listener_class(e.get('recv'))
                        for c in cargs:
                            self.listeners.append((c, f.key, call_now, rcls))
                            if call_now:
                                # addListener(f, callNow=true) invokes exactly the callable being registered
                                self._add(f.key, c, (bid, i, e))
                                self.extra_at[(f.key, id(e))].add(c)
                    elif n == POOL_ADD:
                        for c in cargs:
                            self.pool_tasks[f.key].append(c)
                    else:
                        for c in cargs:
                            self._add(f.key, c, (bid, i, e))
                            self.extra_at[(f.key, id(e))].add(c)
                if callee:
                    self._add(f.key, callee, (bid, i, e))
                    if e.get('virt') and not e.get('qualified'):
                        r = e.get('recv')
                        static_cls = None
                        skip = False
                        if isinstance(r, dict) and r.get('k') == 'var' and r.get('vk') == 'param' and \
                                r.get('id') in hp_self['used']:
                            skip = True     # resolved at the call sites of f
                        elif isinstance(r, dict) and r.get('k') == 'mem' and strip_targs(r.get('f', '')) in REF_FIELD_CLASS:
                            static_cls = REF_FIELD_CLASS[strip_targs(r['f'])]
                        elif isinstance(r, dict) and r.get('k') == 'var' and r.get('vk') == 'local':
                            c = local_types.get(r.get('id'))
                            if c in polymorphic:
                                static_cls = c
                        if not skip:
                            for o in self._virtual_targets(callee, static_cls):
                                self._add(f.key, o, (bid, i, e))
                                self.extra_at[(f.key, id(e))].add(o)
                    # handler-object sensitivity at the call sites of handler-parameter functions
                    hp = hparams.get(callee)
                    if hp:
                        args = e.get('args', [])
                        for pid, methods in hp['used'].items():
                            pos = hp['idx'].get(pid)
                            if pos is None or pos >= len(args) or not isinstance(args[pos], dict):
                                continue
                            a = args[pos]
                            static_cls = None
                            passthrough = False
                            if a.get('k') == 'var' and a.get('vk') == 'local':
                                static_cls = local_types.get(a.get('id'))
                            elif a.get('k') == 'var' and a.get('vk') == 'param':
                                if a.get('id') in hp_self['used']:
                                    passthrough = True
                                else:
                                    static_cls = a.get('rc')
                            elif a.get('k') == 'mem' and strip_targs(a.get('f', '')) in REF_FIELD_CLASS:
                                static_cls = REF_FIELD_CLASS[strip_targs(a['f'])]
                            if passthrough:
                                continue
                            if static_cls not in polymorphic:
                                static_cls = None
                            for m in methods:
                                for o in self._virtual_targets(m, static_cls):
                                    self._add(f.key, o, (bid, i, e))
                                    self.extra_at[(f.key, id(e))].add(o)
                elif k == 'call':
                    fn = e.get('fn')
                    hit = False
                    if fn is not None:
                        for nd in walk(fn):
                            if nd.get('k') == 'var' and nd.get('id') in lambda_vars:
                                self._add(f.key, lambda_vars[nd['id']], (bid, i, e))
                                self.extra_at[(f.key, id(e))].add(lambda_vars[nd['id']])
                                hit = True
                    if not hit:
                        self.unresolved.append((f.key, e.get('ln')))
                if k == 'call' and n.endswith('::operator()') and e.get('recv') is not None:
                    r = e['recv']
                    if r.get('k') == 'var' and r.get('id') in lambda_vars:
                        self._add(f.key, lambda_vars[r['id']], (bid, i, e))
                        self.extra_at[(f.key, id(e))].add(lambda_vars[r['id']])
            for l in all_lambdas:
                if l not in handed:
                    self._add(f.key, l, None)
        for f in fb.funcs.values():
            p = f.d.get('pattern')
            if p and p in fb.funcs:
                self._add(p, f.key, None)
        # Listener::notify() invoked from a method of class K runs the listeners registered on objects
        # whose static class is related to K (receiver-class sensitivity; an unknown receiver class
        # falls back to "every listener")
        for f in fb.funcs.values():
            if not f.has_cfg:
                continue
            for bid, i, e in f.events():
                if e.get('k') == 'call' and cname(e) == 'Parameters::Listener::notify':
                    k = strip_targs(f.d.get('cls') or '')
                    for (lam, regf, call_now, rcls) in self.listeners:
                        if rcls is None or not k or self._related(k, rcls):
                            self._add(f.key, lam, (bid, i, e))
                            self.extra_at[(f.key, id(e))].add(lam)

    def _add(self, a, b, site):
        self.edges[a].add(b)
        self.redges[b].add(a)
        if site is not None:
            self.sites[(a, b)].append(site)

    # ------------------------------------------------------------------ premises

    def premises(self, rep, clause):
        """Check the premises the refinements rely on; record them as obligations."""
        fb = self.fb
        for field, cls in REF_FIELD_CLASS.items():
            owner = field.rsplit('::', 1)[0]
            fl = fb.field(field)
            if fl is None:
                rep.broken(clause, 'premise anchor missing: field ' + field)
                continue
            # every construction of `owner` passes, at the ctor position that initialises the
            # field, an expression of static type cls&
            ctors = [f for f in fb.funcs.values() if f.d.get('ctor') and f.d.get('cls') == owner and f.has_cfg]
            pos = None
            for c in ctors:
                for bid, i, e in c.events():
                    if e.get('k') == 'minit' and strip_targs(e.get('f', '')) == field:
                        init = e.get('init')
                        for n in walk(init):
                            if n.get('k') == 'var' and n.get('vk') == 'param':
                                for pi, p in enumerate(c.d.get('params', [])):
                                    if p['id'] == n.get('id'):
                                        pos = pi
            sites = 0
            ok = pos is not None
            bad = ''
            for f in fb.funcs.values():
                if not f.has_cfg:
                    continue
                for bid, i, e in f.events():
                    is_make = e.get('k') == 'call' and strip_targs(e.get('n') or '').split('::')[-1] in ('make_unique', 'make_shared') \
                        and ('<' + owner) in (e.get('n') or '')
                    is_ctor = e.get('k') == 'ctor' and strip_targs(e.get('cls') or '') == owner and not e.get('copy') and \
                        f.sname.split('::')[-1] not in ('make_unique', 'make_shared')
                    if not (is_make or is_ctor):
                        continue
                    sites += 1
                    args = e.get('args', [])
                    if pos is None or pos >= len(args):
                        ok = False
                        continue
                    a = args[pos]
                    t = a.get('rc') if isinstance(a, dict) and a.get('k') == 'var' else None
                    if t != cls:
                        ok = False
                        bad = '%s:%s passes %s' % (f.file, e.get('ln'), t)
            rep.ob(clause, 'premise (call-graph refinement)', '%s always refers to a %s' % (field, cls),
                   ok and sites > 0, '', bad or ('%d construction site(s)' % sites), '')

    # ------------------------------------------------------------------ queries

    def callers_of(self, name):
        out = set()
        for g in self.fb.by_name.get(name, []):
            out |= self.redges.get(g.key, set())
        for (a, b) in self.sites:
            if b not in self.fb.funcs and self.fb.kname(b) == name:
                out.add(a)
        return out

    def call_sites(self, name):
        out = []
        for f in self.fb.funcs.values():
            if not f.has_cfg:
                continue
            for bid, i, e in f.events():
                if e.get('k') in ('call', 'ctor') and cname(e) == name:
                    out.append((f, bid, i, e))
        return out

    def reachable(self, roots, stop=()):
        seen = set()
        dq = deque(roots)
        stop = set(stop)
        while dq:
            k = dq.popleft()
            if k in seen or k in stop:
                continue
            seen.add(k)
            for c in self.edges.get(k, ()):
                if c not in seen:
                    dq.append(c)
        return seen

    def path_to(self, roots, target_pred, stop=()):
        seen = set()
        dq = deque((r, (r,)) for r in roots)
        stop = set(stop)
        while dq:
            k, trail = dq.popleft()
            if k in seen or k in stop:
                continue
            seen.add(k)
            if target_pred(k):
                return list(trail)
            for c in sorted(self.edges.get(k, ())):
                if c not in seen:
                    dq.append((c, trail + (c,)))
        return None

    def names(self, keys):
        return sorted({self.fb.kname(k) for k in keys})
