"""K3: null typestate of a smart-pointer member, inductive over the methods of its class.

Configuration: 'N' (null) or 'V' (valid).  Every method of the class is analysed from both
entry states (the class invariant is "either"), calls to sibling methods on `this` use a
summary {entry state -> exit states} computed by the same analysis (recursion bounded), and
a dereference (operator->, operator*) reached in state 'N' is a violation.
"""
from .core import ap, cname, strip_not, show
from .flow import Flow

MAKERS = ('std::make_unique', 'make_unique', 'std::make_shared', 'make_shared')


class NullState:
    def __init__(self, fb, cls, member, path=None):
        self.fb = fb
        self.cls = cls
        self.member = member
        self.path = path or ('this.' + member)
        self.summaries = {}
        self.in_progress = set()
        self.violations = []   # (func, pos, event)
        self.derefs = []       # all deref sites visited (func.key, line)
        self.methods = {}

    # -- classification of events

    def is_member(self, t):
        return ap(t) == self.path

    def value_state(self, t):
        """Abstract value of an expression assigned to the pointer: {'N'}, {'V'} or both."""
        if not isinstance(t, dict):
            return {'N', 'V'}
        k = t.get('k')
        if k == 'null':
            return {'N'}
        if k == 'new':
            return {'V'}
        if k in ('call', 'ctor'):
            n = cname(t)
            if n in MAKERS or n.split('::')[-1] in ('make_unique', 'make_shared'):
                return {'V'}
            if k == 'ctor' and t.get('args'):
                # unique_ptr<T>(new T) / move-construct from a maker
                if len(t['args']) == 1:
                    return self.value_state(t['args'][0])
            if k == 'ctor' and not t.get('args'):
                return {'N'}
        if k == 'cast':
            return self.value_state(t.get('e'))
        return {'N', 'V'}

    def transfer_for(self, func, collect):
        def transfer(e, c, pos):
            k = e.get('k')
            if k == 'call':
                n = cname(e)
                last = n.split('::')[-1]
                recv = e.get('recv')
                if recv is not None and self.is_member(recv):
                    if last in ('operator->', 'operator*'):
                        if collect:
                            self.derefs.append((func.key, e.get('ln')))
                        if c == 'N':
                            if collect:
                                self.violations.append((func, pos, e))
                            return ['V']
                        return [c]
                    if last == 'reset':
                        a = [x for x in e.get('args', []) if not (isinstance(x, dict) and x.get('defarg'))]
                        if not a:
                            return ['N']
                        return sorted(self.value_state(a[0]))
                    if last == 'operator=':
                        return sorted(self.value_state(e['args'][0])) if e.get('args') else ['N', 'V']
                    if last in ('release',):
                        return ['N']
                    if last in ('swap',):
                        return ['N', 'V']
                    return [c]
                # sibling method on this
                if recv is not None and recv.get('k') == 'this' and e.get('f'):
                    callee = self.fb.funcs.get(e['f'])
                    if callee is not None and callee.has_cfg and callee.d.get('cls') == self.cls:
                        s = self.summary(callee)
                        return sorted(s.get(c, {'N', 'V'}))
                # the pointer escapes by non-const reference / move
                for a in e.get('args', []):
                    if self.is_member(a) or (isinstance(a, dict) and a.get('k') == 'call' and cname(a) == 'std::move'
                                             and a.get('args') and self.is_member(a['args'][0])):
                        if n == 'std::move':
                            return [c]
                        return ['N', 'V']
                return [c]
            if k == 'asg' and self.is_member(e.get('l')):
                return sorted(self.value_state(e.get('r')))
            return [c]
        return transfer

    def refine(self, cond, truth, c):
        e, pol = strip_not(cond)
        want_valid = None
        if isinstance(e, dict):
            if e.get('k') == 'call':
                n = cname(e).split('::')[-1]
                if n == 'operator bool' and e.get('recv') is not None and self.is_member(e['recv']):
                    want_valid = (truth == pol)
                elif n in ('operator!=', 'operator==') :
                    ops = ([e['recv']] if e.get('recv') is not None else []) + list(e.get('args', []))
                    if len(ops) == 2 and any(self.is_member(o) for o in ops) and any(
                            isinstance(o, dict) and (o.get('k') == 'null' or (o.get('k') == 'ctor' and not o.get('args')))
                            for o in ops):
                        ne = (n == 'operator!=')
                        want_valid = ((truth == pol) == ne)
            elif e.get('k') == 'bin' and e.get('op') in ('!=', '=='):
                ops = [e.get('l'), e.get('r')]
                def is_m(o):
                    return self.is_member(o) or (isinstance(o, dict) and o.get('k') == 'call' and
                                                 cname(o).split('::')[-1] == 'get' and o.get('recv') is not None and self.is_member(o['recv']))
                if any(is_m(o) for o in ops) and any(isinstance(o, dict) and (o.get('k') == 'null' or o.get('cv') == 0) for o in ops):
                    ne = (e['op'] == '!=')
                    want_valid = ((truth == pol) == ne)
        if want_valid is None:
            return [c]
        if want_valid:
            return [c] if c == 'V' else []
        return [c] if c == 'N' else []

    def summary(self, func):
        if func.key in self.summaries:
            return self.summaries[func.key]
        if func.key in self.in_progress:
            return {'N': {'N', 'V'}, 'V': {'N', 'V'}}
        self.in_progress.add(func.key)
        s = {}
        for c0 in ('N', 'V'):
            fl = Flow(func, self.transfer_for(func, False), self.refine).run({c0})
            s[c0] = set(fl.at_exit) if fl.at_exit else {c0}
        self.in_progress.discard(func.key)
        self.summaries[func.key] = s
        return s

    def analyse_method(self, func, entry=('N', 'V')):
        fl = Flow(func, self.transfer_for(func, True), self.refine).run(set(entry))
        return fl

    def describe(self, func, pos, e):
        return '%s:%s %s dereferences %s which may be null here (no dominating null test / initialisation on some path)' % (
            func.file, e.get('ln'), func.sname, self.member)
