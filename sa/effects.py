"""Effect engine: which fields of `this` a method writes (may / must), transitively through
calls to sibling methods on the same object.  Used by K13 (reset completeness) and K10."""
from .core import cname, ap, walk

# non-const member functions that only hand out access; the write (if any) shows up as an
# assignment through the returned reference
ACCESSORS = ('operator[]', 'at', 'begin', 'end', 'front', 'back', 'data', 'get', 'operator->', 'operator*', 'find', 'size', 'empty')
DEFINITE_MUTATORS = ('reset', 'clear', 'operator=', 'assign', 'swap')


def _field_of_path(p):
    """'this.f.g' -> 'f' (top-level field of this); 'this.f[]...' / 'this.f->...' -> 'f[]'
    (the elements / pointee, not the field itself); None for other paths."""
    if not p or not p.startswith('this.'):
        return None
    rest = p[5:]
    cut = len(rest)
    for sep in ('.', '[', '-'):
        i = rest.find(sep)
        if 0 <= i < cut:
            cut = i
    name = rest[:cut]
    if not name:
        return None
    if rest[cut:cut + 1] in ('[', '-'):
        return name + '[]'
    return name


def event_writes(e):
    """(may-write fields, definite-write fields) of `this` for one event (no call summaries)."""
    may, must = set(), set()
    k = e.get('k')
    if k == 'asg':
        p = ap(e.get('l'))
        f = _field_of_path(p)
        if f:
            may.add(f)
            if p == 'this.' + f and e.get('op') == '=':
                must.add(f)
            elif p == 'this.' + f:
                must.add(f)          # compound assignment still (re)writes the whole scalar
    elif k == 'incdec':
        p = ap(e.get('e'))
        f = _field_of_path(p)
        if f:
            may.add(f)
            if p == 'this.' + f:
                must.add(f)
    elif k == 'call':
        r = e.get('recv')
        if r is not None and not e.get('cmeth') and cname(e).split('::')[-1] not in ACCESSORS:
            p = ap(r)
            f = _field_of_path(p)
            if f and p != 'this':
                may.add(f)
                if p == 'this.' + f and cname(e).split('::')[-1] in DEFINITE_MUTATORS:
                    must.add(f)
        # fields (or their elements) bound to a non-const reference parameter
        for ai in e.get('mutargs', []) or []:
            args = e.get('args', [])
            if ai < len(args):
                f = _field_of_path(ap(args[ai]))
                if f:
                    may.add(f)
    elif k == 'acc':
        if e.get('a') in ('addr', 'mutarg'):
            f = _field_of_path(ap(e.get('e')))
            if f:
                may.add(f)
    elif k == 'minit':
        f = (e.get('f') or '').split('::')[-1]
        if f:
            may.add(f)
            must.add(f)
    return may, must


class Effects:
    def __init__(self, fb, cls):
        self.fb = fb
        self.cls = cls
        self.methods = {f.key: f for f in fb.funcs.values() if f.has_cfg and f.d.get('cls') == cls}
        self._may = {}
        self._busy = set()

    def sibling(self, e):
        if e.get('k') != 'call' or not e.get('f'):
            return None
        r = e.get('recv')
        if r is None or r.get('k') != 'this':
            return None
        return self.methods.get(e['f'])

    def may_write(self, func):
        if func.key in self._may:
            return self._may[func.key]
        if func.key in self._busy:
            return set()
        self._busy.add(func.key)
        out = set()
        for b, i, e in func.events():
            m, _ = event_writes(e)
            out |= m
            s = self.sibling(e)
            if s is not None:
                out |= self.may_write(s)
        self._busy.discard(func.key)
        self._may[func.key] = out
        return out

    def must_write(self, func, field, depth=0):
        """True when every entry->exit path of func definitely writes `field` (directly or via
        a sibling method that must-writes it)."""
        if depth > 4:
            return False

        def writes(e):
            if e is None:
                return False
            _, must = event_writes(e)
            if field in must:
                return True
            s = self.sibling(e)
            if s is not None and s.key != func.key:
                return self.must_write(s, field, depth + 1)
            return False
        w = func.path_avoiding((func.entry, -1), lambda e: e is None, writes)
        return w is None

    def const_written(self, func, field):
        """Set of constants assigned to this.<field> in func (None for non-constant)."""
        out = set()
        for b, i, e in func.events():
            if e.get('k') == 'asg' and e.get('op') == '=' and ap(e.get('l')) == 'this.' + field:
                r = e.get('r')
                out.add(r.get('cv') if isinstance(r, dict) and 'cv' in r else None)
        return out

    def reads_outside_own_update(self, field):
        """Is the field read anywhere (in the whole program) other than inside its own
        increment / compound update?  (a pure statistics counter is not behaviour-relevant)"""
        q = self.cls + '::' + field
        for f in self.fb.funcs.values():
            if not f.has_cfg:
                continue
            for b, i, e in f.events():
                if e.get('k') == 'acc' and isinstance(e.get('e'), dict) and e['e'].get('k') == 'mem' and \
                        e['e'].get('f', '').split('<')[0] == q and e.get('a') in ('r', 'rwu', 'cmcall', 'arg', 'ref', 'base'):
                    return True
        return False
