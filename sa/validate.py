"""The repo's "is this move in the generated list" idiom, checked path-sensitively (K3/K15):

    bool found = false;                       // reset, once per candidate
    for (i...) if (list[i] == cand) { found = true; break; }
    if (!found) <reject>                      // test

A candidate that did not come from a move generator (hash move, book move, ponder move) may
reach makeMove / an output only on the accepted side of such a test whose flag was reset for
*this* candidate (in every loop that contains the test).
"""
from .core import cname, ap, walk, show, strip_not, eff_cond
from . import regions as G


def _loops_containing(f, b):
    return [h for h, body in f.natural_loops().items() if b in body]


def membership_tests(f):
    """Instances of the idiom in f."""
    out = []
    flags = {}
    for b, i, e in f.events():
        if e.get('k') == 'decl':
            for v in e.get('vars', []):
                if (v.get('ct') or v.get('t')) == 'bool' and isinstance(v.get('init'), dict) and v['init'].get('cv') == 0:
                    flags.setdefault(v['id'], {'name': v['n'], 'resets': [], 'sets': []})['resets'].append((b, i))
        if e.get('k') == 'asg' and isinstance(e.get('l'), dict) and e['l'].get('k') == 'var' and e['l'].get('t') == 'bool' and isinstance(e.get('r'), dict) and 'cv' in e['r']:
            ent = flags.setdefault(e['l']['id'], {'name': e['l']['n'], 'resets': [], 'sets': []})
            if e['r']['cv'] == 0:
                ent['resets'].append((b, i))
            else:
                ent['sets'].append((b, i, e))
    for vid, ent in flags.items():
        if not ent['sets']:
            continue
        # the comparison guarding `flag = true`
        cands = []
        for (b, i, e) in ent['sets']:
            cmp_ = None
            for d in sorted(f.dominators().get(b, set()), reverse=False):
                t = f.blocks[d].get('term')
                c = eff_cond(t) if t else None
                if c is None:
                    continue
                ce, pol = strip_not(c)
                is_eq = isinstance(ce, dict) and ((ce.get('k') == 'call' and cname(ce).split('::')[-1] == 'operator==') or (ce.get('k') == 'bin' and ce.get('op') == '=='))
                if is_eq and pol:
                    s0 = f.blocks[d]['succ'][0]
                    if s0 == b or s0 in f.dominators().get(b, set()):
                        cmp_ = ce
            if cmp_ is None:
                cands = None
                break
            ops = ([cmp_['recv']] if cmp_.get('recv') is not None else []) + list(cmp_.get('args', [])) if cmp_.get('k') == 'call' else [cmp_.get('l'), cmp_.get('r')]
            elem = [o for o in ops if _is_list_elem(o)]
            other = [o for o in ops if not _is_list_elem(o)]
            if len(elem) != 1 or len(other) != 1:
                cands = None
                break
            cands.append((show(other[0], 200), show(elem[0], 200), other[0], elem[0]))
        if not cands:
            continue
        # tests of the flag
        for bid, blk in f.blocks.items():
            if bid in f.dead:
                continue
            t = blk.get('term')
            c = eff_cond(t) if t else None
            if c is None or len(blk['succ']) != 2:
                continue
            ce, pol = strip_not(c)
            if not (isinstance(ce, dict) and ce.get('k') == 'var' and ce.get('id') == vid):
                continue
            acc = blk['succ'][0] if pol else blk['succ'][1]
            rej = blk['succ'][1] if pol else blk['succ'][0]
            loops = _loops_containing(f, bid)
            reset_ok = False
            for (rb, ri) in ent['resets']:
                if not f.pos_dominates((rb, ri), (bid, 10 ** 6)):
                    continue
                nl = f.natural_loops()
                if all(rb in nl[h] for h in loops):
                    reset_ok = True
            out.append({'flag': ent['name'], 'flag_id': vid, 'test': bid, 'accept': acc, 'reject': rej, 'reset_ok': reset_ok,
                        'candidate': cands[0][0], 'list': cands[0][1], 'candidate_tree': cands[0][2], 'list_tree': cands[0][3], 'line': t.get('ln'), 'loops': loops})
    return out


def _is_list_elem(t):
    while isinstance(t, dict) and t.get('k') == 'cast':
        t = t.get('e')
    if not isinstance(t, dict):
        return False
    if t.get('k') == 'idx':
        return True
    if t.get('k') == 'call' and cname(t).split('::')[-1] == 'operator[]':
        return True
    if t.get('k') == 'mem' and isinstance(t.get('b'), dict):
        return _is_list_elem(t['b'])
    return False
