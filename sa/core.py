"""Fact base, expression-tree utilities and CFG engine."""
import json
import re
from collections import defaultdict, deque


# ----------------------------------------------------------------------------- trees

def strip_targs(s):
    """Remove template argument lists: std::vector<int>::push_back -> std::vector::push_back."""
    if not s or '<' not in s:
        return s
    out = []
    depth = 0
    i = 0
    n = len(s)
    while i < n:
        c = s[i]
        if c == '<':
            # operator<, operator<<, operator<= are not template brackets
            if s[max(0, i - 8):i].endswith('operator') or (depth == 0 and s[max(0, i - 9):i].endswith('operator<')):
                out.append(c)
            else:
                depth += 1
        elif c == '>' and depth > 0:
            depth -= 1
        elif depth == 0:
            out.append(c)
        i += 1
    return ''.join(out)


def children(t):
    """Direct sub-trees of a node (evaluation order as far as the IR knows it)."""
    if not isinstance(t, dict):
        return []
    k = t.get('k')
    out = []
    if k == 'call':
        if t.get('recv') is not None:
            out.append(t['recv'])
        if t.get('fn') is not None:
            out.append(t['fn'])
        out.extend(t.get('args', []))
    elif k == 'ctor':
        out.extend(t.get('args', []))
    elif k in ('bin', 'asg'):
        out.extend([t.get('l'), t.get('r')])
    elif k in ('un', 'incdec', 'cast', 'delete', 'throw', 'ret', 'acc'):
        if t.get('e') is not None:
            out.append(t['e'])
    elif k == 'cond':
        out.extend([t.get('c'), t.get('a'), t.get('b')])
    elif k == 'idx':
        out.extend([t.get('b'), t.get('i')])
    elif k == 'mem':
        out.append(t.get('b'))
    elif k == 'new':
        if t.get('init') is not None:
            out.append(t['init'])
    elif k == 'init':
        out.extend(t.get('elems', []))
    elif k == 'other':
        out.extend(t.get('ch', []))
    elif k == 'decl':
        for v in t.get('vars', []):
            if v.get('init') is not None:
                out.append(v['init'])
    elif k == 'minit':
        if t.get('init') is not None:
            out.append(t['init'])
    return [c for c in out if isinstance(c, dict)]


def walk(t):
    """All nodes of a tree, pre-order."""
    if not isinstance(t, dict):
        return
    stack = [t]
    while stack:
        n = stack.pop()
        yield n
        ch = children(n)
        stack.extend(reversed(ch))


def cname(t):
    """Qualified callee name with template arguments stripped."""
    return strip_targs(t.get('n') or '') if isinstance(t, dict) else ''


def is_call(t, *names):
    """Is t a call (or ctor) whose stripped qualified name is one of names?"""
    if not isinstance(t, dict) or t.get('k') not in ('call', 'ctor'):
        return False
    n = cname(t)
    return n in names


def const_of(t):
    if isinstance(t, dict) and 'cv' in t:
        return t['cv']
    return None


SMART_DEREF = ('operator->', 'operator*', 'get')


def ap(t):
    """Canonical access path of an lvalue-ish tree, or None."""
    if not isinstance(t, dict):
        return None
    k = t.get('k')
    if k == 'this':
        return 'this'
    if k == 'var':
        if 'q' in t:
            return '::' + strip_targs(t['q'])
        return '%s#%s' % (t.get('n'), t.get('id'))
    if k == 'mem':
        b = ap(t.get('b'))
        if b is None:
            return None
        f = t.get('f', '?').split('::')[-1]
        return b + '.' + f
    if k == 'idx':
        b = ap(t.get('b'))
        if b is None:
            return None
        i = t.get('i')
        if isinstance(i, dict) and 'cv' in i:
            return '%s[%s]' % (b, i['cv'])
        return b + '[]'
    if k == 'call':
        n = cname(t)
        last = n.split('::')[-1]
        if last in SMART_DEREF and t.get('recv') is not None and n.startswith(('std::unique_ptr', 'std::shared_ptr', 'std::__shared_ptr')):
            b = ap(t['recv'])
            return None if b is None else b + '->'
        if last == 'operator[]' and t.get('recv') is not None:
            b = ap(t['recv'])
            return None if b is None else b + '[]'
        return None
    if k == 'un' and t.get('op') == '*':
        b = ap(t.get('e'))
        return None if b is None else b + '->'
    if k == 'cast':
        return ap(t.get('e'))
    return None


def field_of(t):
    """Qualified field name if t is a member access (possibly through smart deref)."""
    if isinstance(t, dict) and t.get('k') == 'mem':
        return strip_targs(t.get('f'))
    return None


def fields_in(t):
    return [strip_targs(n['f']) for n in walk(t) if n.get('k') == 'mem' and 'f' in n]


_NAMES = [None]     # current alpha-renaming {var id: canonical name} used by _show (see canonical())


class canonical:
    """Context manager: inside it, locals and parameters of `func` are rendered by canonical names ($p0, $p1 ...
    for parameters by position, $l0, $l1 ... for locals in declaration order), so that renderings of sibling
    functions - or of one function before and after a renaming of its variables - compare equal."""

    def __init__(self, func):
        self.func = func

    def __enter__(self):
        self.prev = _NAMES[0]
        _NAMES[0] = self.func.alpha_names() if self.func is not None else None
        return self

    def __exit__(self, *a):
        _NAMES[0] = self.prev
        return False


def show(t, maxlen=160):
    """Readable rendering of a tree (for reports)."""
    s = _show(t)
    return s if len(s) <= maxlen else s[:maxlen - 3] + '...'


def _show(t):
    if not isinstance(t, dict):
        return '?'
    k = t.get('k')
    if k == 'int':
        return t.get('n', str(t.get('cv')))
    if k in ('str',):
        return json.dumps(t.get('v', ''))
    if k == 'this':
        return 'this'
    if k == 'var':
        nm = _NAMES[0]
        if nm and t.get('id') in nm and t.get('vk') in ('local', 'param'):
            return nm[t['id']]
        return t.get('n', '?')
    if k == 'mem':
        b = t.get('b')
        f = t.get('f', '?').split('::')[-1]
        if isinstance(b, dict) and b.get('k') == 'this':
            return f
        return _show(b) + ('->' if t.get('arrow') else '.') + f
    if k == 'call':
        n = cname(t).split('::')[-1]
        args = ', '.join(_show(a) for a in t.get('args', []))
        if t.get('recv') is not None:
            if n in ('operator->', 'operator*'):
                return _show(t['recv'])
            if n == 'operator bool':
                return 'bool(' + _show(t['recv']) + ')'
            if n.startswith('operator') and t.get('op'):
                return '(%s %s %s)' % (_show(t['recv']), t['op'], args)
            return '%s%s%s(%s)' % (_show(t['recv']), '->' if t.get('arrow') else '.', n, args)
        if t.get('op') and len(t.get('args', [])) == 2:
            return '(%s %s %s)' % (_show(t['args'][0]), t['op'], _show(t['args'][1]))
        return '%s(%s)' % (cname(t) or _show(t.get('fn')), args)
    if k == 'ctor':
        return '%s(%s)' % (strip_targs(t.get('cls', '?')), ', '.join(_show(a) for a in t.get('args', [])))
    if k in ('bin', 'asg'):
        return '(%s %s %s)' % (_show(t.get('l')), t.get('op'), _show(t.get('r')))
    if k == 'un':
        return '%s%s' % (t.get('op'), _show(t.get('e')))
    if k == 'incdec':
        return (_show(t.get('e')) + t['op']) if t.get('post') else (t['op'] + _show(t.get('e')))
    if k == 'cond':
        return '(%s ? %s : %s)' % (_show(t.get('c')), _show(t.get('a')), _show(t.get('b')))
    if k == 'idx':
        return '%s[%s]' % (_show(t.get('b')), _show(t.get('i')))
    if k == 'cast':
        return _show(t.get('e')) if t.get('imp') else '(%s)%s' % (t.get('t'), _show(t.get('e')))
    if k == 'ret':
        return 'return ' + (_show(t['e']) if t.get('e') else '')
    if k == 'decl':
        return '; '.join('%s %s%s' % (v.get('t'), v.get('n'), (' = ' + _show(v['init'])) if v.get('init') else '')
                         for v in t.get('vars', []))
    if k == 'lambda':
        return '[lambda]'
    if k == 'acc':
        return _show(t.get('e'))
    if k == 'throw':
        return 'throw ' + (_show(t['e']) if t.get('e') else '')
    if k == 'dtor':
        return '~' + t.get('n', '?')
    if k == 'null':
        return 'nullptr'
    if k == 'new':
        return 'new ' + t.get('t', '?')
    return '<%s>' % (t.get('c') or k)


def eff_cond(term):
    """The expression whose truth value selects succ[0] (true) / succ[1] (false) of a block.
    For `if (a && b)` clang normally builds a short-circuit CFG: the final block is reached only
    when `a` held and decides on the right-most operand.  When the condition is wrapped in
    temporaries' clean-ups clang instead computes the logical value in the statement's block
    (both operand blocks flow into it); such blocks are marked `vshape` by Func and decide on
    the *whole* condition (see implied_atoms for what a branch then implies)."""
    if not term:
        return None
    c = term.get('cond')
    if c is None:
        return None
    if term.get('vshape'):
        return c
    if term.get('c') == 'BinaryOperator' and term.get('op') in ('&&', '||'):
        # condition reported is the LHS
        return _rightmost(c)
    return _rightmost(c)


def _rightmost(c):
    if not isinstance(c, dict):
        return c
    if c.get('k') == 'bin' and c.get('op') in ('&&', '||'):
        return _rightmost(c.get('r'))
    if c.get('k') == 'un' and c.get('op') == '!':
        inner = c.get('e')
        r = _rightmost(inner)
        if r is inner:
            return c
        return {'k': 'un', 'op': '!', 'e': r}
    if c.get('k') == 'cast' and c.get('imp'):
        inner = c.get('e')
        r = _rightmost(inner)
        if r is inner:
            return c
        return r
    return c


def implied_atoms(cond, truth):
    """[(atom, truth)] facts implied by `cond` evaluating to `truth` (conjunctions on the true
    side, disjunctions on the false side; nothing is implied by a false conjunction)."""
    c = cond
    while isinstance(c, dict) and c.get('k') == 'cast' and c.get('imp'):
        c = c.get('e')
    if not isinstance(c, dict):
        return []
    if c.get('k') == 'un' and c.get('op') == '!':
        return implied_atoms(c.get('e'), not truth)
    if c.get('k') == 'bin' and c.get('op') == '&&':
        return implied_atoms(c.get('l'), True) + implied_atoms(c.get('r'), True) if truth else []
    if c.get('k') == 'bin' and c.get('op') == '||':
        return [] if truth else implied_atoms(c.get('l'), False) + implied_atoms(c.get('r'), False)
    return [(c, truth)]


def strip_not(c):
    """Return (expr, polarity): peel `!` and implicit bool casts."""
    pol = True
    while isinstance(c, dict):
        if c.get('k') == 'un' and c.get('op') == '!':
            pol = not pol
            c = c.get('e')
        elif c.get('k') == 'cast' and c.get('imp'):
            c = c.get('e')
        else:
            break
    return c, pol


# ----------------------------------------------------------------------------- functions

class Func:
    __slots__ = ('d', 'key', 'name', 'sname', 'file', 'line', 'blocks', 'entry', 'exit', 'preds',
                 '_dom', '_pdom', 'unit', 'dead')

    def __init__(self, d, unit=None):
        self.d = d
        self.key = d['key']
        self.name = d['name']
        self.sname = strip_targs(d['name'])
        self.file = d.get('file')
        self.line = d.get('line')
        self.unit = unit
        self.blocks = {}
        self.entry = d.get('entry')
        self.exit = d.get('exit')
        for b in d.get('blocks', []):
            b['succ'] = [s for s in b.get('succ', []) if s is not None and s >= 0]
            self.blocks[b['id']] = b
        self.preds = defaultdict(list)
        for b in self.blocks.values():
            for s in b['succ']:
                self.preds[s].append(b['id'])
        self._dom = None
        self._pdom = None
        self.dead = set()
        # blocks clang already proved unreachable (pruned trivially-false edges, e.g. `if (tb && ...)` in the
        # <false> instantiation) carry no behaviour: their events are not analysed
        if self.blocks and self.entry in self.blocks:
            self.dead = set(self.blocks) - self.live_blocks()
        # value-shaped logical conditions (see eff_cond)
        for b in self.blocks.values():
            t = b.get('term')
            if not t or t.get('c') == 'BinaryOperator' or len(b['succ']) != 2:
                continue
            c = t.get('cond')
            while isinstance(c, dict) and ((c.get('k') == 'cast' and c.get('imp')) or (c.get('k') == 'un' and c.get('op') == '!')):
                c = c.get('e')
            if not (isinstance(c, dict) and c.get('k') == 'bin' and c.get('op') in ('&&', '||')):
                continue
            for p in self.preds.get(b['id'], []):
                pt = self.blocks[p].get('term')
                ps = self.blocks[p]['succ']
                if pt and pt.get('c') == 'BinaryOperator' and pt.get('op') in ('&&', '||') and len(ps) == 2:
                    # value shape: the short-circuit edge of the operand block (true for ||, false for &&) enters the
                    # statement's block, which then branches on the materialised value.  In the ordinary control-flow
                    # shape that edge goes straight to the then / else target and only the other edge comes here.
                    short = ps[0] if pt['op'] == '||' else ps[1]
                    if short == b['id']:
                        t['vshape'] = 1

    @property
    def has_cfg(self):
        return bool(self.blocks)

    def alpha_names(self):
        """{var id: canonical name}: parameters by position, locals by order of declaration."""
        out = {}
        for i, p in enumerate(self.d.get('params', [])):
            if 'id' in p:
                out[p['id']] = '$p%d' % i
        decls = []
        for bid, blk in self.blocks.items():
            for e in blk['ev']:
                if e.get('k') == 'decl':
                    for v in e.get('vars', []):
                        decls.append(((e.get('ln') or 0), v['id']))
        k = 0
        for ln, vid in sorted(decls):
            if vid not in out:
                out[vid] = '$l%d' % k
                k += 1
        return out

    @property
    def where(self):
        return '%s:%s' % (self.file, self.line)

    def events(self):
        """(block id, index, event) for all events."""
        for bid in sorted(self.blocks, reverse=True):
            if bid in self.dead:
                continue
            b = self.blocks[bid]
            for i, e in enumerate(b['ev']):
                yield bid, i, e

    def calls(self, *names):
        for bid, i, e in self.events():
            if e.get('k') in ('call', 'ctor') and (not names or cname(e) in names):
                yield bid, i, e

    def find_events(self, pred):
        return [(bid, i, e) for bid, i, e in self.events() if pred(e)]

    # --- graph algorithms on blocks

    def reachable_blocks(self, start=None):
        start = self.entry if start is None else start
        seen = {start}
        dq = deque([start])
        while dq:
            b = dq.popleft()
            for s in self.blocks[b]['succ']:
                if s not in seen and s in self.blocks:
                    seen.add(s)
                    dq.append(s)
        return seen

    def natural_loops(self):
        """{header block: set of blocks of its natural loop} (back edges n -> h with h dominating n)."""
        doms = self.dominators()
        loops = {}
        for n, blk in self.blocks.items():
            for h in blk['succ']:
                if h in doms.get(n, set()):
                    body = loops.setdefault(h, {h})
                    st = [n]
                    while st:
                        x = st.pop()
                        if x in body:
                            continue
                        body.add(x)
                        st.extend(p for p in self.preds.get(x, []) if p in self.blocks)
        return loops

    def live_blocks(self):
        """Blocks reachable from the entry or from an exception handler / try dispatch block."""
        roots = [self.entry]
        for bid, b in self.blocks.items():
            if (b.get('label') or {}).get('k') == 'catch' or (b.get('term') or {}).get('c') == 'CXXTryStmt':
                roots.append(bid)
        seen = set()
        dq = deque(roots)
        while dq:
            b = dq.popleft()
            if b in seen or b not in self.blocks:
                continue
            seen.add(b)
            dq.extend(self.blocks[b]['succ'])
        return seen

    def dominators(self):
        if self._dom is None:
            self._dom = _dominators(self.blocks.keys(), self.entry, lambda b: self.blocks[b]['succ'],
                                    lambda b: self.preds[b])
            # exception handlers are not reachable through CFG edges: each handler is its own root
            for bid, b in self.blocks.items():
                if (b.get('label') or {}).get('k') == 'catch' and bid not in self._dom:
                    sub = _dominators(self.blocks.keys(), bid, lambda x: self.blocks[x]['succ'], lambda x: self.preds[x])
                    for k, v in sub.items():
                        if k not in self._dom:
                            self._dom[k] = v
        return self._dom

    def postdominators(self):
        if self._pdom is None:
            self._pdom = _dominators(self.blocks.keys(), self.exit, lambda b: self.preds[b],
                                     lambda b: self.blocks[b]['succ'])
        return self._pdom

    def pos_dominates(self, a, b):
        """Does event position a=(blk,idx) dominate position b?"""
        if a[0] == b[0]:
            return a[1] <= b[1]
        return a[0] in self.dominators().get(b[0], set())

    def path_avoiding(self, start, is_target, is_avoid, include_start=False):
        """Search forward from position start=(block, idx) (events after idx) for an event
        satisfying is_target without passing an event satisfying is_avoid.  Target may also be
        the string 'EXIT' handled by is_target(None) at function exit.  Returns a witness path
        (list of (block, line)) or None."""
        bid, idx = start
        first = idx if include_start else idx + 1
        # state: (block, start index)
        seen = set()
        dq = deque([(bid, first, ())])
        while dq:
            b, i0, trail = dq.popleft()
            blk = self.blocks[b]
            blocked = False
            for i in range(i0, len(blk['ev'])):
                e = blk['ev'][i]
                if is_avoid(e):
                    blocked = True
                    break
                if is_target(e):
                    return list(trail) + [(b, e.get('ln'))]
            if blocked:
                continue
            if b == self.exit and is_target(None):
                return list(trail) + [(b, 'exit')]
            ln = blk.get('term', {}).get('ln') if blk.get('term') else None
            for s in blk['succ']:
                if s in self.blocks and s not in seen:
                    seen.add(s)
                    dq.append((s, 0, trail + ((b, ln),)))
        return None

    def block_line(self, bid):
        b = self.blocks[bid]
        for e in b['ev']:
            if e.get('ln'):
                return e['ln']
            if e.get('k') == 'acc' and e.get('ln'):
                return e['ln']
        if b.get('term'):
            return b['term'].get('ln')
        return None


def _dominators(nodes, root, succ, pred):
    nodes = list(nodes)
    # restrict to nodes reachable from root
    seen = {root}
    dq = deque([root])
    while dq:
        b = dq.popleft()
        for s in succ(b):
            if s not in seen:
                seen.add(s)
                dq.append(s)
    dom = {n: set(seen) for n in seen}
    dom[root] = {root}
    changed = True
    order = sorted(seen, reverse=True)
    while changed:
        changed = False
        for n in order:
            if n == root:
                continue
            ps = [p for p in pred(n) if p in seen]
            if not ps:
                new = {n}
            else:
                new = set.intersection(*(dom[p] for p in ps)) | {n}
            if new != dom[n]:
                dom[n] = new
                changed = True
    return dom


# ----------------------------------------------------------------------------- fact base

class FactBase:
    def __init__(self, repo='/repo'):
        self.repo = repo
        self.funcs = {}
        self.by_name = defaultdict(list)
        self.records = {}
        self.enums = {}
        self.globals = {}
        self.units = []
        self.info = {}

    def load(self, unit_files):
        for unit, path in sorted(unit_files.items()):
            with open(path) as fh:
                d = json.load(fh)
            self.units.append(unit)
            for f in d.get('functions', []):
                k = f['key']
                old = self.funcs.get(k)
                if old is not None:
                    # prefer a version that has a CFG
                    if old.has_cfg or not f.get('blocks'):
                        continue
                fn = Func(f, unit)
                self.funcs[k] = fn
            for r in d.get('records', []):
                self.records.setdefault(r['name'], r)
            for e in d.get('enums', []):
                self.enums.setdefault(e['name'] + '@' + str(e.get('line')), e)
            for g in d.get('globals', []):
                old = self.globals.get(g['name'])
                if old is None or (g.get('init') is not None and old.get('init') is None):
                    self.globals[g['name']] = g
        for fn in self.funcs.values():
            if fn.d.get('lambda') and fn.d.get('lambdaParent'):
                par = self.funcs.get(fn.d['lambdaParent'])
                pn = par.sname if par is not None else strip_targs(fn.d['lambdaParent'].split('(')[0])
                fn.sname = pn + '::<lambda>'
        self.by_name = defaultdict(list)
        for fn in self.funcs.values():
            self.by_name[fn.sname].append(fn)
        self.fold_constant_stubs()
        return self

    # --- constant-stub folding (DESIGN 1.3): a branch whose condition is a call to an inline
    # function returning the same literal on every path is decided; the infeasible edge is
    # removed (e.g. the non-cluster stubs Cluster::isMasterNode() == true, isEnabled() == false)

    def stub_value(self, t):
        if not isinstance(t, dict) or t.get('k') != 'call' or not t.get('f'):
            return None
        if t.get('args'):
            return None
        callee = self.funcs.get(t['f'])
        if callee is None or not callee.has_cfg or callee.d.get('virtual'):
            return None
        vals = set()
        n_ev = 0
        for bid, i, e in callee.events():
            if e.get('k') == 'ret':
                v = e.get('e')
                if not isinstance(v, dict) or 'cv' not in v or v.get('k') != 'int':
                    return None
                vals.add(v['cv'])
            elif e.get('k') in ('call', 'asg', 'incdec', 'ctor'):
                return None
            n_ev += 1
        if len(vals) == 1:
            return vals.pop()
        return None

    def fold_constant_stubs(self):
        self.folded = []
        for fn in self.funcs.values():
            changed = False
            before = None
            for b in fn.blocks.values():
                term = b.get('term')
                if not term or len(b['succ']) != 2 or term.get('c') in ('SwitchStmt', 'CXXTryStmt', 'CXXForRangeStmt'):
                    continue
                c = eff_cond(term)
                e, pol = strip_not(c)
                v = self.stub_value(e)
                if v is None:
                    continue
                truth = bool(v) == pol
                keep = b['succ'][0] if truth else b['succ'][1]
                self.folded.append((fn.key, term.get('ln'), cname(e), v))
                if before is None:
                    before = fn.live_blocks()
                b['succ'] = [keep]
                changed = True
            if changed:
                fn.preds = defaultdict(list)
                for b in fn.blocks.values():
                    for s2 in b['succ']:
                        fn.preds[s2].append(b['id'])
                fn._dom = None
                fn._pdom = None
                fn.dead = fn.dead | (before - fn.live_blocks())

    def kname(self, key):
        f = self.funcs.get(key)
        if f is not None:
            return f.sname
        # external / undefined function: cut the parameter list
        depth = 0
        for i in range(len(key) - 1, -1, -1):
            c = key[i]
            if c == ')':
                depth += 1
            elif c == '(':
                depth -= 1
                if depth == 0:
                    head = key[:i]
                    if head.endswith('operator'):
                        continue
                    return strip_targs(head)
        return strip_targs(key)

    # --- lookup

    def find(self, name, with_cfg=True, instantiations=True):
        """Functions whose template-stripped qualified name equals `name`.  Dependent patterns
        are skipped when instantiations exist."""
        out = [f for f in self.by_name.get(name, []) if (f.has_cfg or not with_cfg)]
        return sorted(out, key=lambda f: f.key)

    def find1(self, name):
        fs = self.find(name)
        if len(fs) != 1:
            return None
        return fs[0]

    def lambdas_in(self, func):
        pre = func.key + '::(lambda@'
        return sorted((f for f in self.funcs.values() if f.key.startswith(pre) and f.d.get('lambda')
                       and f.d.get('lambdaParent') == func.key), key=lambda f: f.key)

    def record(self, name):
        return self.records.get(name)

    def field(self, qname):
        cls, _, f = qname.rpartition('::')
        r = self.records.get(cls)
        if not r:
            return None
        for fl in r['fields']:
            if fl['n'] == f:
                return fl
        return None

    def enum_const(self, qname):
        for e in self.enums.values():
            for c in e['consts']:
                if c['q'] == qname:
                    return c['v']
        return None

    def const(self, qname):
        v = self.global_const(qname)
        if v is None:
            v = self.enum_const(qname)
        return v

    def global_const(self, qname):
        g = self.globals.get(qname)
        if g is None:
            return None
        return g.get('cv')
