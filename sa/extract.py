"""Compilation database + fact extraction (txsa) with a content-addressed cache.

Nothing here executes repository code: CMake is asked to *configure* the project into a
scratch directory (outside /repo and /verif) only to learn the unit list and flags; the
scratch directory is removed immediately.  If CMake is unavailable the unit list is
globbed from the source tree with the fixed flag set (recorded in the evidence).
"""
import glob
import hashlib
import json
import os
import shutil
import subprocess
import sys
import tempfile
from concurrent.futures import ThreadPoolExecutor

VERIF = os.path.dirname(os.path.dirname(os.path.abspath(__file__)))
BUILD = os.path.join(VERIF, 'build')
TXSA = os.path.join(BUILD, 'txsa')
CACHE = os.path.join(BUILD, 'cache')

SRC_DIRS = ['lib/texellib', 'lib/texelutillib', 'app/texel', 'app/texelutil', 'test/texellib',
            'test/texelutil']
EXCLUDE_PARTS = ['/tb/gtb/', '/gtest/', '/app/uciadapter/', '/app/syncengine/', '/app/bookgui/',
                 '/app/torchutil/', '/test/torchutil/']

INC_LIB = ['lib/texellib/.', 'lib/texellib/book', 'lib/texellib/debug', 'lib/texellib/hw',
           'lib/texellib/nn', 'lib/texellib/tb', 'lib/texellib/util',
           'lib/texellib/tb/gtb/sysport', 'lib/texellib/tb/gtb/compression',
           'lib/texellib/tb/gtb/compression/lzma']
INC_UTIL = ['lib/texelutillib/.', 'lib/texelutillib/pg']
INC_TEST = ['test/gtest/include', 'test/gtest', 'test/texellib', 'test/texelutil']


class AnalysisBroken(Exception):
    pass


def ensure_tool():
    if not os.path.exists(TXSA) or os.path.getmtime(TXSA) < os.path.getmtime(
            os.path.join(VERIF, 'tool', 'txsa.cpp')):
        r = subprocess.run([os.path.join(VERIF, 'tool', 'build.sh')], capture_output=True, text=True)
        if r.returncode != 0 or not os.path.exists(TXSA):
            raise AnalysisBroken('cannot build txsa: ' + r.stderr[-2000:])


def _sha(path):
    try:
        with open(path, 'rb') as fh:
            return hashlib.sha256(fh.read()).digest()
    except OSError:
        return b''


def header_hash(repo):
    """SHA-256 over every non-unit file that can influence the analysis of any unit: all
    headers / includable files, the CMake files and the extractor binary."""
    h = hashlib.sha256()
    files = []
    for top in ('lib', 'app', 'test', 'cmake'):
        for root, dirs, fs in os.walk(os.path.join(repo, top)):
            dirs.sort()
            for f in sorted(fs):
                if f.endswith(('.hpp', '.h', '.txt', '.cmake', '.inc', '.hh', '.ipp')):
                    files.append(os.path.join(root, f))
    files.append(os.path.join(repo, 'CMakeLists.txt'))
    for f in files:
        h.update(os.path.relpath(f, repo).encode())
        h.update(b'\0')
        h.update(_sha(f))
    h.update(_sha(TXSA))
    return h.hexdigest()


def unit_key(repo, unit, flags, hh, vname, extra):
    h = hashlib.sha256()
    h.update(hh.encode())
    h.update(os.path.relpath(unit, repo).encode())
    h.update(_sha(unit))
    h.update(' '.join(flags).replace(repo, '$R').encode())
    h.update(vname.encode())
    h.update(' '.join(extra).encode())
    return h.hexdigest()[:32]


def _compdb_cmake(repo):
    scratch = tempfile.mkdtemp(prefix='txsa_cdb_')
    try:
        r = subprocess.run(['cmake', '-G', 'Ninja', '-S', repo, '-B', scratch],
                           capture_output=True, text=True)
        if r.returncode != 0:
            return None
        r = subprocess.run(['ninja', '-C', scratch, '-t', 'compdb'], capture_output=True, text=True)
        if r.returncode != 0:
            return None
        db = json.loads(r.stdout)
    except (OSError, ValueError):
        return None
    finally:
        shutil.rmtree(scratch, ignore_errors=True)
    out = {}
    for e in db:
        f = e['file']
        if not f.endswith('.cpp') or f in out:
            continue
        if not f.startswith(repo + '/'):
            continue
        if any(p in f for p in EXCLUDE_PARTS):
            continue
        words = e['command'].split()
        flags = []
        skip = False
        for i, w in enumerate(words):
            if skip:
                skip = False
                continue
            if w in ('-o', '-MT', '-MF'):
                skip = True
                continue
            if w.startswith(('-I', '-D', '-std=', '-isystem')):
                flags.append(w)
        out[f] = flags
    return out


def _compdb_glob(repo):
    out = {}
    for d in SRC_DIRS:
        for f in sorted(glob.glob(os.path.join(repo, d, '**', '*.cpp'), recursive=True)):
            if any(p in f for p in EXCLUDE_PARTS):
                continue
            inc = list(INC_LIB)
            if '/texelutillib/' in f or '/texelutil/' in f:
                inc = INC_UTIL + inc
            if '/test/' in f:
                inc = INC_TEST + inc
            flags = ['-I' + os.path.join(repo, i) for i in inc] + ['-std=c++11']
            if '/lib/texellib/' in f:
                flags.append('-DHAS_RT')
            out[f] = flags
    return out


def _compdb_key(repo):
    h = hashlib.sha256()
    h.update(repo.encode())
    names = []
    for top in ('lib', 'app', 'test', 'cmake', '.'):
        base = os.path.join(repo, top)
        if top == '.':
            names.append(os.path.join(repo, 'CMakeLists.txt'))
            continue
        for root, dirs, fs in os.walk(base):
            dirs.sort()
            for f in sorted(fs):
                p = os.path.join(root, f)
                if f == 'CMakeLists.txt' or f.endswith('.cmake'):
                    names.append(p)
                elif f.endswith(('.cpp', '.c')):
                    h.update(p.encode())     # the unit list matters, not the unit contents
    for n in names:
        h.update(n.encode())
        h.update(_sha(n))
    return h.hexdigest()[:24]


def compdb(repo):
    os.makedirs(CACHE, exist_ok=True)
    ck = os.path.join(CACHE, 'compdb_%s.json' % _compdb_key(repo))
    if os.path.exists(ck):
        try:
            with open(ck) as fh:
                d = json.load(fh)
            return d['db'], d['how'] + ' (cached)'
        except (OSError, ValueError, KeyError):
            pass
    db = _compdb_cmake(repo)
    how = 'cmake'
    if db:
        try:
            with open(ck + '.tmp%d' % os.getpid(), 'w') as fh:
                json.dump({'db': db, 'how': how}, fh)
            os.replace(ck + '.tmp%d' % os.getpid(), ck)
        except OSError:
            pass
    if not db:
        db = _compdb_glob(repo)
        how = 'glob-fallback'
    if not db:
        raise AnalysisBroken('no translation units found under ' + repo)
    return db, how


def _run_unit(args):
    repo, unit, flags, out, extra = args
    cmd = [TXSA, '--root', repo, '-o', out, unit, '--'] + ['clang++'] + flags + \
          ['-UNDEBUG', '-w', '-fsyntax-only', '-resource-dir', _resource_dir()] + extra
    r = subprocess.run(cmd, capture_output=True, text=True)
    ok = r.returncode == 0 and os.path.exists(out)
    return unit, ok, r.stderr[-3000:]


_RES = None


def _gc(limit_mb=1500):
    """Keep the cache below limit_mb by deleting the least recently used files."""
    try:
        ents = []
        total = 0
        for root, dirs, fs in os.walk(CACHE):
            for f in fs:
                p = os.path.join(root, f)
                st = os.stat(p)
                ents.append((st.st_mtime, st.st_size, p))
                total += st.st_size
        if total <= limit_mb * 1024 * 1024:
            return
        ents.sort()
        for mt, sz, p in ents:
            os.unlink(p)
            total -= sz
            if total <= limit_mb * 1024 * 1024 * 0.7:
                break
    except OSError:
        pass


def _resource_dir():
    global _RES
    if _RES is None:
        try:
            _RES = subprocess.run(['clang++', '-print-resource-dir'], capture_output=True,
                                  text=True).stdout.strip()
        except OSError:
            _RES = '/usr/lib/llvm-14/lib/clang/14.0.6'
    return _RES


def extract(repo, want=None, variant=None, jobs=16):
    """Run txsa on the units selected by `want` (predicate on the repo-relative path; None =
    engine + utilities + apps, no tests).  Returns (dict unit -> json path, info)."""
    ensure_tool()
    repo = os.path.abspath(repo)
    db, how = compdb(repo)
    hh = header_hash(repo)
    vname = variant[0] if variant else 'default'
    extra = list(variant[1]) if variant else []
    cdir = os.path.join(CACHE, 'units')
    os.makedirs(cdir, exist_ok=True)
    units = []
    for f in sorted(db):
        relp = os.path.relpath(f, repo)
        if want is None:
            if relp.startswith('test/'):
                continue
        elif not want(relp):
            continue
        units.append(f)
    todo = []
    res = {}
    allkeys = hashlib.sha256()
    for u in units:
        k = unit_key(repo, u, db[u], hh, vname, extra)
        allkeys.update(k.encode())
        out = os.path.join(cdir, k + '.json')
        res[u] = out
        if not os.path.exists(out):
            todo.append((repo, u, db[u], out + '.tmp%d' % os.getpid(), extra))
        else:
            try:
                os.utime(out)
            except OSError:
                pass
    th = allkeys.hexdigest()[:24]
    failed = []
    if todo:
        with ThreadPoolExecutor(max_workers=jobs) as ex:
            for unit, ok, err in ex.map(_run_unit, todo):
                out = res[unit]
                if ok:
                    os.replace(out + '.tmp%d' % os.getpid(), out)
                else:
                    failed.append((unit, err))
    if failed:
        msg = '; '.join('%s: %s' % (os.path.relpath(u, repo), e.strip().splitlines()[-1] if e.strip() else '?')
                        for u, e in failed[:5])
        raise AnalysisBroken('extractor failed on %d unit(s): %s' % (len(failed), msg))
    _gc()
    info = {'compdb': how, 'tree_hash': th, 'units': [os.path.relpath(u, repo) for u in units],
            'extracted_now': len(todo), 'variant': vname}
    return res, info


if __name__ == '__main__':
    r, info = extract(sys.argv[1] if len(sys.argv) > 1 else '/repo')
    print(json.dumps(info, indent=1))
