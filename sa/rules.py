"""Reusable rule kinds (K1, K2, K4, K5 ...) over the fact base.  Each helper records
obligations on a Report and returns what it matched so callers can apply floors."""
from .core import cname, walk, ap, show, strip_targs, strip_not, eff_cond, implied_atoms
from .flow import Flow


def in_engine(f):
    """Functions that belong to the engine proper (library + UCI front end)."""
    return f.file and (f.file.startswith('lib/texellib/') or f.file.startswith('app/texel/'))


def in_prog(f):
    return f.file and not f.file.startswith('test/')


def calls_in(func, *names):
    return [(b, i, e) for b, i, e in func.events() if e.get('k') in ('call', 'ctor') and cname(e) in names]


def is_named_call(*names):
    def p(e):
        return e is not None and e.get('k') in ('call', 'ctor') and cname(e) in names
    return p


def never(e):
    return False


def at_exit(e):
    return e is None


def site(func, e):
    ln = e.get('ln') if isinstance(e, dict) else None
    return '%s:%s' % (func.file, ln if ln else func.line)


# ----------------------------------------------------------------------------- K5

def who_may_call(rep, fb, cg, clause, callee, allowed, scope=in_engine, what=None):
    """Every function (in scope) that calls `callee` is in `allowed` (template-stripped names)."""
    sites = [(f, b, i, e) for (f, b, i, e) in cg.call_sites(callee) if scope(f)]
    for f, b, i, e in sites:
        name = f.sname
        rep.ob(clause, 'K5 who-may-call', '%s called from %s' % (callee, name), name in allowed,
               site(f, e), '' if name in allowed else
               '%s may only be called from {%s}%s' % (callee, ', '.join(sorted(allowed)), (' - ' + what) if what else ''),
               f.sname)
    return sites


# ----------------------------------------------------------------------------- K2

def must_pass_between(rep, func, clause, inst, start, target, via, detail=''):
    """No path from `start` (event position; None = function entry) to an event satisfying
    `target` (or the function exit when target is at_exit) avoids every `via` event."""
    if start is None:
        start_pos = (func.entry, -1)
    else:
        start_pos = start
    w = func.path_avoiding(start_pos, target, via)
    ok = w is None
    d = ''
    if not ok:
        d = 'path avoiding the required event: ' + ' -> '.join('B%s@%s' % (b, ln) for b, ln in w[-8:])
        if detail:
            d = detail + '; ' + d
    rep.ob(clause, 'K2 must-pass-through', inst, ok, '%s:%s' % (func.file, func.line), d, func.sname)
    return ok


def at_most_once(rep, func, clause, inst, pred):
    """No path leads from an event satisfying pred to another (or the same) such event."""
    ok = True
    d = ''
    for b, i, e in func.find_events(pred):
        w = func.path_avoiding((b, i), pred, never)
        if w is not None:
            ok = False
            d = 'event at line %s can be followed by another one: %s' % (e.get('ln'), ' -> '.join('B%s@%s' % x for x in w[-6:]))
            break
    rep.ob(clause, 'K2 at-most-once', inst, ok, '%s:%s' % (func.file, func.line), d, func.sname)
    return ok


def dominated_by(rep, func, clause, inst, target_pred, dom_pred, detail=''):
    """Every event satisfying target_pred is dominated by some event satisfying dom_pred
    (equivalently: no path from entry reaches the target avoiding all dom events)."""
    targets = func.find_events(target_pred)
    ok_all = True
    for b, i, e in targets:
        w = func.path_avoiding((func.entry, -1), lambda x, _e=e: x is _e, lambda x: x is not None and dom_pred(x))
        ok = w is None
        ok_all = ok_all and ok
        d = ''
        if not ok:
            d = (detail + '; ' if detail else '') + 'reached without the required predecessor via ' + \
                ' -> '.join('B%s@%s' % x for x in w[-8:])
        rep.ob(clause, 'K2 must-precede', '%s [line-independent #%d]' % (inst, targets.index((b, i, e))), ok,
               site(func, e), d, func.sname)
    return targets, ok_all


# ----------------------------------------------------------------------------- branch lookup

def branch_blocks(func, cond_pred):
    """Blocks whose effective terminator condition (after peeling `!`) satisfies cond_pred.
    Returns [(block id, polarity, true-successor, false-successor)] where polarity False means
    the matched expression was negated (so successors are already swapped back)."""
    out = []
    for bid, b in func.blocks.items():
        term = b.get('term')
        if not term or len(b['succ']) != 2 or term.get('c') in ('SwitchStmt', 'CXXTryStmt', 'CXXForRangeStmt'):
            continue
        c = eff_cond(term)
        hit = None
        for truth in (True, False):
            for atom, tv in implied_atoms(c, truth):
                e, pol = strip_not(atom)
                if e is not None and cond_pred(e) and hit is None:
                    hit = (truth, tv == pol)
        if hit is None:
            continue
        s_true, s_false = b['succ'][0], b['succ'][1]
        side_succ = s_true if hit[0] else s_false
        other = s_false if hit[0] else s_true
        t, f = (side_succ, other) if hit[1] else (other, side_succ)
        out.append((bid, hit[1] == hit[0], t, f))
    return out


def str_eq_cond(varname, literal):
    """Predicate for conditions like `cmd == "literal"` (std::operator== on strings); varname None = any variable."""
    def p(e):
        if not isinstance(e, dict) or e.get('k') != 'call':
            return False
        if cname(e).split('::')[-1] != 'operator==':
            return False
        ops = ([e['recv']] if e.get('recv') is not None else []) + list(e.get('args', []))
        has_var = any(isinstance(o, dict) and o.get('k') == 'var' and (varname is None or o.get('n') == varname) for o in ops)
        has_lit = any(isinstance(o, dict) and any(n.get('k') == 'str' and n.get('v') == literal for n in walk(o)) for o in ops)
        return has_var and has_lit
    return p


def outputs_literal(sub):
    """Event predicate: an operator<< / write call with a string literal containing `sub`."""
    def p(e):
        if e is None or e.get('k') != 'call':
            return False
        if cname(e).split('::')[-1] not in ('operator<<',):
            return False
        for a in e.get('args', []):
            if isinstance(a, dict) and a.get('k') == 'str' and sub in (a.get('v') or ''):
                return True
        return False
    return p


def lambdas_in_tree(fb, t):
    """Functions of the lambda expressions written inside tree t."""
    from .core import walk
    return [fb.funcs[n['f']] for n in walk(t) if n.get('k') == 'lambda' and n.get('f') in fb.funcs]


def this_fields_read(func):
    """Access paths `this.x` mentioned by the events and conditions of a function (a predicate lambda)."""
    from .core import walk, ap
    out = set()
    trees = [e for _, _, e in func.events()]
    for bid, blk in func.blocks.items():
        c = (blk.get('term') or {}).get('cond')
        if c is not None and bid not in func.dead:
            trees.append(c)
    for t in trees:
        for n in walk(t):
            if n.get('k') == 'mem':
                p = ap(n)
                if p and p.startswith('this.'):
                    out.add(p)
    return out
