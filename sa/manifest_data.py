"""Claims registered in MANIFEST.json (tools/genmanifest.py renders them)."""

TB = ('Trusted base: clang 14 front end (parser, Sema, constant evaluator, clang::CFG), tool/txsa.cpp, the Python engines in sa/ '
      'and the frozen rule tables in sa/props/. The check decides the structural clauses named in the claim for ALL paths / call '
      'sites / command orders / schedules of the current /repo source; it does not execute repository code and does not decide '
      'the value-level remainder of the property (listed in the evidence under "NOT decided").')

CLAIMED = {
    'C01': {
        'text': 'Clause-limited static decision (level "other"): (1) generator mask algebra - in both colour instantiations of the four '
                'generators every mask handed to a move-emitting helper is interpreted bit by bit (bit-level abstract interpretation of '
                'the straight-line bitboard dataflow reaching the call; all 64 target squares x every assignment of the board atoms) and '
                'shown to imply the rule of chess for that piece kind (own pawn on the origin, empty squares for pushes, home rank for '
                'double pushes, enemy piece or en-passant square for captures, no file wrap; attack set minus own pieces for the others), '
                'and to contain every move of the class the generator promises (all / evasions / captures+promotions / '
                'captures+promotions+direct and discovered checks); (2) castling is emitted only under the matching right bit, the exact '
                'empty-square mask, own rook on the corner and un-attacked king and transit squares; (3) every attack-set/piece-set '
                'intersection pairs the attack function with the sliders/leapers that move that way, of the right colour, and sqAttacked '
                'tests every attacker kind; promotion emission splits exactly on the last rank; (4) the legality filter skips make-move only '
                'under guards that make the shortcut sound (not king, not en passant, off every king ray / not a checking knight; king lifted '
                'from the occupancy); (5) in givesCheck every unbounded ray scan runs in a non-zero direction towards the enemy king, '
                '(6) every Square(file, rank) built by the table initialiser has both coordinates inside 0..7 and the shift formulas of the king / knight / pawn attack tables are exactly those attack sets for all 64 squares. '
                'direction classes pair with slider kinds, and the en-passant rank scan starts outside the pawn pair. Right level: these '
                'are exactly the places where a generator can be wrong for one geometry only - the rule checks every square and every '
                'board-atom assignment at once, which no sample of positions does. Added: coverage of the promotion re-scan of givesCheck as a direction x piece table evaluated from the guards. Added: (2) no condition other than the castling rules (or a givesCheck filter on the move itself) restricts a generated castling move. (7) nextPieceSafe reads the board for exactly the 64 (file, rank) pairs on it (100 pairs evaluated).',
        'design_ref': 'DESIGN.md section 2, C01',
        'note': TB + ' Takes the attack / direction / between tables (BitBoard::staticInitialize) and Position::makeMove as given; does not decide '
                     'agreement of the verdicts with playing the move for every position (value-level) nor absence of duplicates.',
        'technique': 'custom static analysis: bit-level abstract interpretation of bitboard dataflow (truth-table columns per square), guard-set dominance, sibling agreement, finite constant evaluation per template instantiation',
    },
    'C02': {
        'text': 'Clause-limited static decision (level "other"): (1) the material signature arithmetic is free of signed overflow over the '
                'whole promotion-consistent material polytope (constant evaluation of the weights + type of every arithmetic node) - the '
                'overflow the property names; (2) every PositionBase field is written only by known mutators, clearPiece == setPiece(EMPTY) '
                'on removed-piece effects, white/black arms are colour mirrors, and the from-scratch builders reset every accumulator '
                'before accumulating and write every field; (3) incremental and from-scratch hashing use the same key tables and index '
                'shapes; (4) UndoInfo save-before-write and restore-on-every-path, move counters symmetric; (5) serialize/deSerialize '
                'layouts inverse and every undo / packed field wide enough for the attribute it holds; (7) make/unmake pairing on every path at all 31 probe sites; '
                '(8) en-passant mask tables and guard; (9) every fresh en-passant store is normalised as readFEN does. Three genuine violations on the pinned '
                'tree are listed in known_findings.json (compact form: 8-bit clock, 16-bit move number; makeMove keeps an illegal en-passant square). Right level: "after any history the '
                'incremental value equals the recomputed one" holds iff every mutator updates every derived attribute consistently - a '
                'finite set of structural obligations that cover every history, where a random walk samples. (10) one-argument setters of Position store their argument unchanged. (11) makeSEEMove / unMakeSEEMove remove and restore the same en-passant victim, evaluated for every mover piece and every outcome of the opaque comparisons. (12) the normaliser TextIO::fixupEPSquare keeps an en-passant square exactly for a legal move of the mover\'s pawn to it (all 12 pieces x 2 destinations), scans legal moves only and clears the square otherwise. (13) each take-back reads the mover\'s colour: the parity of side-to-move flips in the make function, flips before the read in the take-back and negations of the value read is even (makeMove/unMakeMove and makeMoveB/unMakeMoveB). (14) wherever a castling right is withdrawn because the board does not support it (readFEN; a reader of the compact form), the test looks at the king\'s home square and the rook corner of that right. (15) the square setters clear the old piece\'s bit from a set before they set the new piece\'s bit in it.',
        'design_ref': 'DESIGN.md section 2, C02',
        'note': TB + ' Does not decide value-level equalities (hash equality of rule-equal positions beyond the en-passant normal form).',
        'technique': 'custom static analysis: write-set/effect analysis, colour-mirror and sibling agreement on CFG regions, dominance-based save/restore and pairing, constant evaluation over the material polytope',
    },
    'C03': {
        'text': 'Clause-limited static decision (level "other"): (1) provenance: every definition of the move iterativeDeepening returns is an '
                'element of the root list, getRootMoves only copies (a subset of) its input and always includes one move, the null move '
                'is returned exactly for an empty list; (2) the root list handed to the search thread is generated, legality-filtered and '
                'restricted to the searchmoves of this go; (3) a move read from a transposition-table entry (10 sites) is untrusted and, '
                'by a path- and flag-sensitive typestate, reaches makeMove / isLegal / givesCheck / SEE / move printing / a PV / the '
                'ponder-move result only after it was found in a generated move list; (5) the tablebase PV extension truncates the PV at '
                '(6) the MultiPV count that indexes / offsets the root list or is handed on with it is, at every use, min(.., rootMoves.size()) and the list is not resized after the clamp. '
                'the number of moves it replayed. Right level: legality of the answer in every configuration follows from where the '
                'answer can come from - a provenance/typestate fact that holds for all positions, limits and options at once. Added clause (7): the printed text of a move is its UCI form (printer interpreted per promotion code). (8) MoveList::filter decides membership in the searchmoves list by the full move identity. (9) every entry of a multi-PV report is printed at most once. (10) = C04.1: every checkmate score of negaScout / quiesce is \'mated in 0\' of the one linear family that notifyPV, the hash table and the 50-move margin decode. (11) = C04.9 the ABDADA control value BUSY is never read as a score. (12) in every TBProbe function that plays moves on the caller\'s position, each makeMove is taken back on every path to the exit.',
        'design_ref': 'DESIGN.md section 2, C03',
        'note': TB + ' Assumes the legal move generator is correct (C01). Does not decide score ranges or MultiPV distinctness.',
        'technique': 'custom static analysis: reaching-definition provenance, must-precede dominance, flag-sensitive untrusted-value typestate, index agreement',
    },
    'C04': {
        'text': 'Two clauses, statically decided (level "other"): (1) mate-distance encoding agreement. By exhaustive constant evaluation of the '
                'source expressions over mates in 0..60 moves x plies 0..40 x clocks, the scores produced by TBGenerator::probeDTM and the '
                'checkmate scores of negaScout/quiesce form one linear family, and every decoder recovers the distance exactly: '
                'rule50Margin (2n-1 plies for the winner, 2n for the loser), TBProbe::extendPV, the UCI mate conversion in notifyPV, the '
                'TT ply shift (store at p1, read at p2), the win/loss classification and the 16-bit range. This is a genuine necessary '
                'condition of "mate N means mate in N": any disagreement between an encoder and a decoder shifts every announced '
                'distance. Second clause (K3 typestate): a score found by searching after a null move never leaves negaScout (return, hash store, search-tree info) unless it was shown not to be a win score or replaced by a non-win bound. Right level for the first clause: a finite arithmetic agreement; that a reported mate exists at all is game-tree '
                'semantics and is not claimed. Added clauses (4) bound-type discipline of adopted entry scores and isCutOff, (5) ply-shift codec and decode / re-store ply agreement (shared with C08). (6) every hash store of negaScout happens only in an unrestricted search. (7) every forward-pruning skip in negaScout\'s move loop requires a non-losing running maximum (!isLoseScore(best)), so a node never reports \'mated\' with unsearched quiet defences. (8) a move deferred by the ABDADA first pass (marked BUSY - reduction) is not skipped by the second pass, for every reduction 0..15. (9) a recursive call that can be reached with the exclusive-probe request still set is followed directly by the BUSY test on its result; every other recursive call is made with the request cleared. (10) = C12.1 an installed on-demand table has its region reserved on every exit of updateTB / clear / reSize. (11) = C01.6 the tables that decide whether a double push records an en-passant square are exact for all 8 files. (12) around the null move, the value restored with setEpSquare / setHalfMoveClock was saved before that setter cleared it.',
        'design_ref': 'DESIGN.md section 2, C04',
        'note': TB + ' Decides only the encoding agreement, not the existence of the announced mates nor the soundness of pruning near mate scores.',
        'technique': 'custom static analysis: exhaustive constant evaluation of extracted expression trees over a finite domain (encoder/decoder composition)',
    },
    'C05': {
        'text': 'Clause-limited static decision (level "other"): (1) null typestate of the lazily created engine object and of the '
                'shared Search pointer for every command order (class-invariant induction over all methods); (2) no exception type '
                'can escape the protocol thread, the engine main loop, helper threads or pool workers (whole-program exception flow '
                'against handler chains); (3) exactly one bestmove per go: single printer, single call chain, must-pass/at-most-once in '
                'doSearch, withheld until the ponder/infinite flags were tested false, searches handed over only after the previous '
                'one was waited for; (4) no listener callback reachable after bestmove; (5) isready->waitReady->one readyok, every exit '
                'of the protocol loop passes quit(), quit/EOF handling; (6) Parameters::set unreachable from the protocol thread; '
                '(7)-(11) go-frame completeness, no blocking wait during a search, token look-ahead discipline, non-negative limits for '
                'non-positive clocks, re-armed option wake-up; (12) every limit computed from the go reaches the search on every go path, '
                'including ponder + ponderhit (found and fixed defect D11); (13) lock discipline of the session output stream: every '
                'insertion holds one common mutex, which is never re-acquired or held across a wait (found and fixed defect D10). '
                'Right level: these are exactly the failure shapes the property names (crash before initialisation, two/zero '
                'bestmoves, output after bestmove), and they are visible in the shape of the code for all histories at once. C05.5 now decides that every way out of the protocol loop stops a running search (state flow); (14) every strength-limiting parameter forces a single search thread. (15) wait loops poll with a handler that counts the acknowledgements (shared with C10.10). (16) = C10.11: the two computations of `infinite` agree. (17) = C10.12 isready never blocks on an engine thread that is holding its answer. (18) = C03.6 the MultiPV count that indexes the root list is clamped to that list. (19) = C12.1 a Hash change or Clear Hash never leaves a tablebase handle that points outside the table.',
        'design_ref': 'DESIGN.md section 2, C05',
        'note': TB + ' Assumes: bad_alloc from ordinary allocation and the embedded-network integrity error are out of scope (named exemptions).',
        'technique': 'custom static analysis: null typestate dataflow + exception-flow + must-pass-through/who-may-call over clang AST/CFG/call graph',
    },
    'C06': {
        'text': 'Clause-limited static decision (level "other"): (1) limit arithmetic of computeTimeLimit: the reaching definitions of the soft '
                'and hard limit are clamp(x, 1, time - margin); interval abstract interpretation with input-box subdivision proves '
                'time - min(BufferTime, time*9/10) >= 1 over 1..10^7 x the declared BufferTime range, the hard/soft factor interval '
                '(from the Param<> template bounds) is >= 1, the allocation formula stays inside int, movetime gives soft = hard; hence '
                '1 <= soft <= hard <= budget for the whole stated domain; (2) ordering: limits are computed from this go\'s position, '
                'stop installs the zero limit before waiting, ponderhit installs limits before releasing, nothing modifies limits after '
                'the hand-over; (3) polling structure: the stop test dominates every recursive descent, every made node decrements the '
                'poll counter, poll interval <= 1000 nodes, shouldStop compares elapsed time with the limit selected by searchNeedMoreTime. '
                'Also: the limit shouldStop compares the elapsed time with is on every path bounded by the hard limit (hard, soft, or min(.., hard)). '
                'Right level: the inequality chain is an arithmetic fact over a stated finite domain (exactly what interval analysis '
                'decides); the latency clause is timing and is not claimed. Added clause (4): the option queue is drained before the go path reads option values. (5) the node accumulators the NPS throttle sleeps on are reset at every search start (shared with C14.2). (6) every position-decoding sweep of the on-demand tablebase generation gives up both for limit 0 (stop) and for a positive limit that has passed (ponderhit) - found and fixed defect D19. (7) the time origin of a search is the reception time of its go: unbroken chain clock reading -> SearchParams -> startThread -> Search::timeLimit -> tStart. (8) = C14.5 the option values the limits are computed from are the ones set last. (9) a soft limit written inside Search is the minimum of its computed value and the hard limit.',
        'design_ref': 'DESIGN.md section 2, C06',
        'note': TB + ' Does not decide wall-clock latency ("within one polling interval").',
        'technique': 'custom static analysis: reaching-definition provenance, interval abstract interpretation with subdivision over the stated input domain, dominance-based ordering, poll-structure pairing',
    },
    'C07': {
        'text': 'Clause-limited static decision (level "other"): (1) every writer of the board array notifies the connected network evaluator '
                'for exactly the squares it writes, forces a full refresh, or is a temporary variant confined to paired make/unmake helpers; '
                'make/unmake push/pop the evaluator state with notifications disabled while pieces move back; (2) every append to the '
                'incremental queues is bounded by the array extent and overflow forces a refresh; the refresh buffer holds all non-king men; '
                '(3) cache-key completeness of evalPos: the contempt - the one non-position input - is mixed into the key exactly when it can '
                'change the score; half-move clocks sharing a key share an evaluation bucket; material-hash key arithmetic unsigned; (4) the '
                'endgame material cases are closed under colour mirror and every mirrored helper-call pair is a sigma-image (colour-swapped, '
                '(5) group structure of the first-layer accumulator: in every build variant addSubWeights only loads, stores and applies wrapping 16-bit add / subtract in matching numbers (no clamp, no saturating intrinsic), and the full refresh uses the same routine. '
                'squares rotated, side inverted, score negated). Right level: purity and colour symmetry fail through a missed notification, '
                'an incomplete key or an asymmetric case - all visible in the code for every history and position; numerical equality of '
                'network outputs is value-level and not claimed. Added clause (7): the classification pass cached under the material signature branches only on functions of the material. (8) odd arithmetic: no right shift of a possibly negative score in the evaluation. (9) accumulator reuse test at least as fine as getIndex. (3, strengthened) no lossy operator (abs, division, shift, mask, narrowing conversion) stands between the contempt and the key term. (10) NNEvaluator::popState pops a level or invalidates the remaining one (forceFullEval) on every path. (11) computeMaterialScore changes sign when the piece counts of the two colours are exchanged (interpreted for 25 count tables, the correction function uninterpreted).',
        'design_ref': 'DESIGN.md section 2, C07',
        'note': TB + ' Does not decide numerical equality of incremental vs fresh network outputs nor SIMD variant equality.',
        'technique': 'custom static analysis: who-may-write + must-notify dataflow, bounded-write guards, cache-key (def-use) completeness, constant agreement, sigma-normalised sibling comparison of mirrored switch cases',
    },
    'C08': {
        'text': 'Clause-limited static decision (level "other"): (1) raw slot words are touched only by the xor codec, the slot '
                'constructors and the tablebase byte accessors; table[] is indexed only through getIndex(key)+i (i below the bucket '
                'constant), whole-table loops or the guarded sample loop; (2) both slot words are std::atomic<U64>, store/load form an '
                'xor codec and probe hands a record out only after the decoded key matched; (3) all seven bit-fields: getter/setter '
                'agree, pairwise disjoint, value ranges (TType, depth, mate scores, compressed move, generation mask) fit; (4) '
                'setScore/getScore shift mate scores by ply with the same predicates and opposite signs; (5) bucket constants agree; '
                '(6) index bound: floor-halving loop lemma for setUsedSize + exact constant evaluation of getIndex at the extreme key '
                'for every (topBits, shift) of the domain gives idx+3 < topBits*2^shift <= usedSize (all sizes >= 512 entries, all keys). '
                'Right level: "never a blend", "inside the table for every size and key" quantify over schedules/sizes/keys; the type, '
                'codec and arithmetic obligations cover them all at once where a stress test samples. Added clauses: region agreement of byteSize(), (8) key comparisons of the replaced entry precede the overwrite of its key. (9) reSize keeps the class invariant at every point that may throw. (3, revised) every value the generation counter takes fits its field, or setBits confines an over-wide value to the field (evaluated; replaces a comparison of the wrap mask with the field width). (10) updateTB installs a generator only in a table larger than the reservation plus its margin (admission test evaluated with unsigned wrap for 1 .. 64 MB).',
        'design_ref': 'DESIGN.md section 2, C08',
        'note': TB + ' Does not decide torn-read freedom beyond "atomics + xor validation are in place" (memory-model argument).',
        'technique': 'custom static analysis: who-may-access + index provenance + sibling/inverse agreement + constant evaluation over finite parameter domains with a loop-idiom lemma',
    },
    'C09': {
        'text': 'Clause-limited static decision (level "other"): one frozen discipline table over every field of the shared classes '
                '(Notifier, Communicator, WorkerThread, EngineMainThread, EngineControl, ThreadPool, the Search time-limit block, TT slots, '
                'book-builder scheduler); each row is mechanically checked - mutex rows by must-held lock-set analysis at every access, atomic '
                'rows by the declared field type, confinement rows by thread-role reachability in a role-specific call graph (handler-object '
                'and receiver-class sensitive, premises checked), publication rows by dominance (start parameters before `search = true` under '
                'the mutex, stopThread before protocol state, workers initialised before use, table geometry/generation only before hand-over, '
                'contempt hash by thread 0 only) - plus completeness (a new field without a row fails) and a frozen set of static-storage '
                'The options hand-over is decided by the completion-flag typestate (optionsSetFinished set only under the mutex with the pending queue and every swapped-out batch known empty). '
                'variables written after start-up. Right level: race freedom quantifies over all interleavings; a discipline check is '
                'interleaving-independent and covers code paths a TSan run never executes. It decides the discipline, not the memory-model '
                'theorem: rows justified by message-protocol ordering are listed as assumptions. Added clause (6): in Communicator::poll every unlocked walk of children is followed by a lock acquisition (the release that orders it before removeChild). (7) option-reading calls on the go paths come after waitOptionsSet (shared with C06.4). (8) the start-up seeding of the lazily filled maxSubDTM map covers every pawn split up to colour mirroring (loop evaluated), so search threads only look it up. (9) every Notifier::wait outside a re-checking loop waits without a time limit (the hand-over edges the table relies on). (10) ~WorkerThread destroys its sub-workers only after its own thread, which polls their communicators unlocked, has been joined - found and fixed defect D20. (11) a ThreadPool task touches an output stream of the enclosing function only to choose its own log under the single-worker test, or under a mutex. (12) = C10.5 the stop round after every search that ran (the premise of the engine thread\'s confinement rows).',
        'design_ref': 'DESIGN.md section 2, C09 and Appendix A',
        'note': TB + ' Does not decide race freedom in the C++ memory-model sense for the whole engine; HB-protocol rows are assumptions (listed in the evidence).',
        'technique': 'custom static analysis: lock-set dataflow (K6), field-type obligations (K7), thread-role call-graph reachability (K8), dominance-based publication checks (K2), frozen who-may-write table for static storage (K5)',
    },
    'C10': {
        'text': 'Clause-limited static decision (level "other"), schedule-independent: (1) every condition-variable wait of the program is in '
                'a predicate loop (or is a timed poll that tests first), its predicate fields are written only under the same mutex, and every '
                'write that can release a waiter is followed by a notify (queue pools: the recognised empty->non-empty idiom, checked to test '
                'all predicate queues); (2) all nine command enqueue sites push under the communicator mutex and wake the receiver on every '
                'path; stop/quit arm their acknowledge counters first; (3) both stale-command purges erase the same types; (4) helper results '
                'are accepted/sent only for the current job id, once; (5) hand-shake loop shapes: worker wait->poll->ack, engine stop->own '
                'ack->poll until acknowledged, quit->poll until acknowledged, flag-sensitive "a search that ran is stopped"; (6) a wake-up '
                'consumed by the engine thread\'s inner wait loop is re-armed or pending options are handled before it sleeps again; (7) the completion-flag typestate of optionsSetFinished (shared with C09.4). Right '
                'level: these are the necessary structural conditions of "no lost wake-up / no stale result" for every interleaving; the '
                'composed liveness property itself is model-checking territory and is not claimed. Added clause (9): the upward acknowledgement is sent only under a test of everything has<X>Ack() depends on. (10) agreement between acknowledgement wait loops and the handlers they poll with. (11) startSearch and ponderHit compute `infinite` from the same conjuncts. (12) a blocking wait of the protocol thread on the engine thread (waitStop / waitOptionsSet) is reached only with both hold flags cleared or when no search object exists: no circular wait with the engine thread\'s `while (*ponder || *infinite)`. (13) createWorkers returns only after every helper it constructed - new slot or replaced slot - has signalled initialized. (14) = C09.9 the waits the hand-shakes are built on do not time out silently. (15) Communicator::poll removes the command it has read before it releases the queue mutex.',
        'design_ref': 'DESIGN.md section 2, C10',
        'note': TB + ' Does not decide absence of deadlock / lost wake-up over all interleavings of the composed protocol.',
        'technique': 'custom static analysis: lock-set dataflow, condition-variable discipline, must-pass-through / loop-shape rules on the CFG, sibling agreement of purge predicates',
    },
    'C11': {
        'text': 'Clause-limited static decision (level "other"): (1) every push on the repetition-history stack is popped on every '
                'non-exceptional path (incl. the ABDADA retry path) and, in the main search, holds the hash of the position before the '
                'move; (2) in negaScout both draw tests dominate the TT probe, the tablebase probe, the evaluation and all recursive '
                'search, a claimable repetition returns exactly 0, and in the 50-move branch `return 0` is unreachable when the side to '
                'move is in check without a legal move; (3) the game history handed to the search is built hash-before-move and is '
                'dropped only on reversible-move information; the first-new index is the history size; (4) every GameState has an arm '
                '(5) the en-passant mask tables are built from squares whose file stays on the board and makeMove records an en-passant square only under the mask test. '
                'in the state and PGN-result switches. Right level: "for every game history" - the stack discipline and test ordering '
                'are history-independent necessary conditions; the index arithmetic of the repetition scan is value-level and not claimed. Added clauses (7) repetition scan index set / key / claim rule by finite evaluation and (8) en-passant normal form of every replayed history move (found and fixed defects D13, D14). (9) drawRuleEquals compares placement, side, castling rights and en-passant square completely. (10) = C02.12 the en-passant normaliser the history relies on. (11) Game::getHistory takes back the moves n-1 .. 0, each with its own undo record, and stops early only at a half-move clock of 0 (game lengths 0..12 evaluated). (12) every two-type piece set of Game::insufficientMaterial joins the white and the black piece of one kind.',
        'design_ref': 'DESIGN.md section 2, C11',
        'note': TB + ' Does not decide the index arithmetic of canClaimDrawRep nor console claim semantics.',
        'technique': 'custom static analysis: push/pop pairing on the CFG, dominance (must-precede), flag-sensitive dataflow for the mate-before-draw ordering, guard-set checks, switch exhaustiveness',
    },
    'C12': {
        'text': 'Clause-limited static decision (level "other"): (1) the on-demand generator object and the reserved-region flag of the '
                'transposition table form an inductive class invariant - no method can return with a constructed-but-not-generated '
                'generator installed (the "aborted generation stays in use" failure the property names) or with a complete table whose '
                'bytes ordinary stores may overwrite; (2) TBGenerator::generate can only return true after a full pass that modified '
                'nothing and after the whole-range draw sweep, and every time/stop test leads to return false; (3) exhaustive constant '
                'evaluation over the 8-bit state domain shows the three answer predicates disjoint and false on every unfinished state, '
                'and get(set(n)) == n; (4) region size/alignment/placement constants agree with the men guard. Right level: the abort '
                'clause is a typestate property of one class, decidable for every abort point at once; distances themselves are value-level. Added clause (7): adjacent-duplicate filters of the generator and sortedness of the neighbour lists. (8) un-capture call order agrees with the special cases of TBIndex::setSquare. (7, extended) every neighbour-list loop of generate() skips adjacent duplicates, or the list is cut at std::unique where it is sorted. (9) TBPosition::setPosition succeeds only after a sweep over every piece type that fails on a man that found no slot. (10) the first sweep of the generation stores a value for every index it visits (memory inside the hash table holds stale bytes). (11) TBIndex::canonize does not re-order the pieces after the index was compared with its mirror alternative. (12) updateTB decides \'not enough time to generate\' only after \'the root is already in the installed table\'.',
        'design_ref': 'DESIGN.md section 2, C12',
        'note': TB + ' Does not decide the exactness of distance-to-mate values.',
        'technique': 'custom static analysis: typestate dataflow with sibling-method summaries, must-pass-through on the CFG, exhaustive constant evaluation over an 8-bit domain, constant agreement',
    },
    'C13': {
        'text': 'Clause-limited static decision (level "other"): (1) the three distance-to-mate blocks of TBProbe::tbProbe store an exact mate '
                'score only under (score == 0 || rule50Margin(score, ply, clock) >= 0) and otherwise a draw bound of the right direction, '
                'they store identical records, and rule50Margin measures the true distance for every encodable mate (exhaustive constant '
                'evaluation, shared with C04.1) - so a mate that cannot be completed before the 50-move limit is never stored as a mate; '
                '(2) aggressive probing is enabled only on the updateTB() == true path and probes respect minProbeDepth; (3) the PV '
                'extension appends tablebase moves only inside the 50-move limit and only moves that keep the tablebase score. Right '
                'level: the "not announced beyond the limit" clause is a gate-agreement fact for all positions and clocks; exact distances '
                'and move choice are value-level (C12) and not claimed. Added clauses (5) generator typestate (shared with C12.1) and (6) a freshly generated table is consulted before the clock can abort the search (found and fixed defect D16). (7) placement order of the probe index (shared with C12.8). (8) = C12.7 duplicate filters present in every neighbour-list loop. (9) = C12.9 a probe answers only for positions of the table\'s material class. (10) = C12.11 one position, one table slot. (11) = C12.12 an installed table is consulted whatever the next time budget is.',
        'design_ref': 'DESIGN.md section 2, C13',
        'note': TB + ' Does not decide exactness of reported distances or move choice.',
        'technique': 'custom static analysis: guard-set / sibling agreement of the probe blocks, constant evaluation of the margin function, dominance',
    },
    'C14': {
        'text': 'Clause-limited static decision (level "other"): reset/frame completeness. (1) every TranspositionTable field that any '
                'operation may write is definitely re-written by clear() on every path with the value a fresh table has, or has a checked '
                'per-search initialiser chain; the slot array is zeroed on every path; (2) the Clear Hash listener must-calls '
                'TranspositionTable::clear, History::init and setClearHistory; History::init / KillerTable::clear cover every member of '
                'every cell (loop bounds = array extents); iterativeDeepening clears killers before searching; helpers honour '
                'clearHistory. Right level: "whatever preceded it" quantifies over histories, and a missing reset is visible in the '
                'write sets for all histories at once (this rule found the generation-counter defect that needs 15+16k searches to show). Added clause (4): clear() tiles [0, tableSize) for every Hash size (finite evaluation of clear() itself). The History::init clause also requires the zeroing to be unconditional. (5) the queue of option changes waiting for an idle engine keeps the latest value per option (overwriting store of the value parameter under the name parameter; no emplace / insert on the queue). (6) = C07.7 the material-class flags cached in the material hash are computed from the material alone.',
        'design_ref': 'DESIGN.md section 2, C14',
        'note': TB + ' Does not decide equality of node counts as such, nor state outside these classes (static-storage writers are listed for review).',
        'technique': 'custom static analysis: effect (write-set) analysis with must-write on all CFG paths, reset-value agreement, must-call chains',
    },
    'C17': {
        'text': 'Clause-limited static decision (level "other"): (1) reader and writer tables agree - FEN piece letters, FEN castling letters, '
                'piece letters of SAN, promotion letters of both UCI move writers against uciStringToMove - by constant evaluation of the '
                'switch tables over all pieces; (2) every getSquare call site passes a 2-character substring under a dominating length test; '
                '(3) every engine-side writer of the half-move clock passes a value known to be >= 0 and the readers index the key table '
                'inside its extent (the negative-clock FEN defect was found by this rule); (4) the parser entry points can only raise '
                'ChessError-family exceptions and the UCI handler lets nothing escape; (5) pawn-direction square offsets are colour-decided '
                '(6) PGN scanner look-ahead typestate: every character read is appended, matched as a delimiter, skipped as white space or handed back before the next read / the return. '
                'and mirrored. Right level: "never a crash or memory error for arbitrary bytes" needs the bounds and exception obligations '
                'for every input; agreement of tables is the structural core of every round trip. The UCI promotion-suffix clause now interprets both printers per promotion code. (8) the END token leaves every token-reading loop of the PGN parser. (9) the castling text of the short / long form is printed for exactly the king\'s two-square moves from home (all 64 x 64 x 12 from/to/piece). (10) readFEN bounds the men per side by 16, which the unchecked 256-entry MoveList relies on - found and fixed defect D18. (11) the disambiguation scan of moveToString visits every index of the legal-move list (sizes 0..8 evaluated). (3, extended) an external half-move clock is bounded above as well as below before it is stored - found and fixed defect D21. (12) every token read with a running index in the UCI command handler is preceded by a fresh test that the index is below the token count.',
        'design_ref': 'DESIGN.md section 2, C17',
        'note': TB + ' Does not decide uniqueness of short forms, value-level round trips, or robustness of every byte string.',
        'technique': 'custom static analysis: constant evaluation of switch tables (inverse agreement), guard-derived length bounds, range provenance of external integers, exception-flow, colour-coherence of direction offsets',
    },
    'C18': {
        'text': 'Clause-limited static decision (level "other"): (1) Book::getBookMove: the result is cleared first, every candidate is '
                'validated against the generated legal-move list with a per-candidate flag, a failed test ends the probe with no move, the '
                'only non-empty result is taken from the validated entries after the validation loop, non-positive weight yields no move; '
                '(2) polyglot promotion codes, bit layout and all four castling conversions are mutually inverse between getPGMove and '
                'getMove; the built-in book promotion tables are inverse (constant evaluation over all codes); (3) a failed read zero-fills '
                'exactly the bytes read before decoding, the binary search and the scan only touch indices inside the file, only entries '
                'stored under the position key are offered. Right level: "for any file" quantifies over inputs; legality of the answer '
                'follows from the validate-before-return structure for every file content. (4) the weight accumulator holds the largest total a file can produce and the random pick is defined for it (found and fixed defect D12). Added clause (5): file positions (entry count, indices, seek offset) are 64-bit quantities (found and fixed defect D15). (6) the weighted pick chooses entry k for exactly weight(k) draws. (1, extended) the legality filter of getBookMove is executed unconditionally. (7) the scan of the entries stored under a key ends only on a key mismatch or the end of the file: with equal keys no early exit is reachable, whatever weight or move the entry holds. (8) the castling terms of the polyglot key follow the published order (768 + 0..3: white short, white long, black short, black long). (1, revised) an entry that is not a legal move ends the probe with no move, or is removed from the candidates without the walk skipping its neighbour.',
        'design_ref': 'DESIGN.md section 2, C18',
        'note': TB + ' Assumes the legal move generator is correct (C01). Does not decide that a corrupt file never yields a legal-but-wrong move.',
        'technique': 'custom static analysis: validated-candidate typestate with per-iteration flag reset, dominance, inverse switch tables, constant evaluation, index-bound structure',
    },
    'C19': {
        'text': 'Clause-limited static decision (level "other"): (1) link pairing - every addChild(m, c) on a parent is paired on all paths with '
                'c->addParent(m, parent) with the same move, and only the two link functions modify the link containers; (2) save/load '
                'agreement - serialize and deSerialize pass the same field list in the same order with the full buffer size, and the file '
                'readers/writers transfer exactly one record per node through them; (3) change detection - every old-value snapshot in '
                'computeNegaMax / computePathError is compared with the field it was taken from, every recomputed field is snapshotted, and '
                'updateScores tests every "changed" result; (4) the ordering of the parent-link set compares every identifying field; (5) dependency '
                'completeness of the path-error recompute set - the fields computePathError reads of the node itself / of its parents decide '
                'which nodes updateScores must schedule when a recompute call reports a change (found and fixed defect D9). Right level: these are the structural necessary conditions of "links mutually '
                'consistent", "save/reload reproduces the book" and "changes propagate"; the fixed-point equations themselves are '
                'value-level over a DAG and are not claimed. Added: (2) the reader of the append-only backup log lets a later record replace the earlier one; (6) depth propagation completeness. (7) the parents of the node updateScores is called on are always recomputed. (8) every change of a pending mark is followed by updateScores (directly or through a function that always recomputes) on every path. (9) every write of a node\'s search result (score or best non-book move) is followed by updateScores on every path. (10) every child contributes to the negamax maximum (no iteration of the children loop skips the update). (11) the error of the move into a node negates the child\'s value with negateScore, like the negamax equation.',
        'design_ref': 'DESIGN.md section 2, C19',
        'note': TB + ' Does not decide that scores are at the fixed point of the negamax / path-error / cost equations.',
        'technique': 'custom static analysis: call pairing on the CFG, who-may-write, sibling agreement of serialiser argument lists, snapshot/compare agreement',
    },
}

_PENDING = 'rules for this property are not implemented yet in this revision of /verif (planned clauses: DESIGN.md section 2); not claimed until they are'

NOT_APPLICABLE = {
    'C15': 'reverse move generation: every clause quantifies over chess positions and the rules of chess; one enumerator + rejection filter with no sibling, pairing or cross-site constant a static rule could check without being a brittle proxy (DESIGN.md section 5)',
    'C16': 'proof-game verdicts: soundness of pruning heuristics / admissible bounds is a statement about reachable chess positions; the only structural candidate (set of illegal-verdict throw sites) would fire on any sound new rule (DESIGN.md section 5)',
    'C20': 'rank-constraint solver: satisfiability exactness is value-level over integer assignments - the target of proof or exhaustive small-scope comparison, both other technique families; candidate guard rules are redundant-guard false alarms in waiting (DESIGN.md section 5)',
}
for _p in ('C01', 'C02', 'C03', 'C04', 'C06', 'C07', 'C08', 'C09', 'C10', 'C11', 'C12', 'C13', 'C14', 'C17', 'C18', 'C19'):
    if _p not in CLAIMED:
        NOT_APPLICABLE[_p] = _PENDING

NOTES = ('Technique family: static analysis only. Every verdict is computed from /repo\'s current source on every run (content-addressed '
         'fact cache under /verif/build/cache is keyed by the SHA-256 of every source/header/CMake file and of the extractor). Exit 0 = all '
         'obligations discharged; exit 1 = VIOLATION lines; exit 2 = analysis broken (anchor vanished, extractor failed, instance floor not met). '
         'Twenty-two genuine defects found by the rules on the pinned tree were repaired with unguarded fix: commits in /repo and are listed as '
         '"fixed:" in known_findings.json; three genuine violations of C02 that are not small-and-safe to repair are listed there as "known" '
         '(the C02 check prints a KNOWN-FINDING line for each and exits 0; any other violation of the same clauses is still reported). No hooks are needed (guard TEXEL_VERIF is unused).')
