"""Obligation bookkeeping, known-findings matching, evidence files."""
import json
import os
import sys
import time

VERIF = os.path.dirname(os.path.dirname(os.path.abspath(__file__)))
import re as _re
_LAMBDA_AT = _re.compile(r'\(lambda at [^)]*\)')


class Report:
    def __init__(self, pid, tier, repo, seed=0):
        self.pid = pid
        self.tier = tier
        self.repo = repo
        self.seed = seed
        self.t0 = time.time()
        self.obs = []          # dicts
        self.brokens = []      # (clause, message)
        self.notes = []
        self.counts = {}       # floor name -> (count, minimum)
        self.extra = {}
        self.assumptions = []
        self.explanation = ''
        self.undecided = ''
        self.prefix = ''      # build-configuration tag of the thorough tier

    # -- recording

    def ob(self, clause, rule, instance, ok, site='', detail='', func=''):
        """One obligation.  `instance` identifies it stably (qualified names, no line numbers)."""
        instance = _LAMBDA_AT.sub('(lambda)', instance)          # no paths / line numbers in the stable identity
        func = _LAMBDA_AT.sub('(lambda)', func or '')
        self.obs.append({'clause': clause, 'rule': rule, 'instance': self.prefix + instance, 'site': site,
                         'function': func, 'verdict': 'discharged' if ok else 'FAILED',
                         'detail': detail})
        return ok

    def broken(self, clause, msg):
        self.brokens.append((clause, self.prefix + msg))

    def note(self, msg):
        self.notes.append(msg)

    def floor(self, clause, what, count, minimum):
        """Vacuity guard: the rule must have matched at least `minimum` instances."""
        self.counts['%s%s %s' % (self.prefix, clause, what)] = (count, minimum)
        if count < minimum:
            self.broken(clause, 'rule matched %d instance(s) of "%s", confirmed floor is %d '
                                '(anchor moved or extractor lost it)' % (count, what, minimum))

    def need(self, clause, obj, what):
        """Anchor existence: returns obj; records analysis-broken when it is missing."""
        if obj is None or obj == [] or obj == {}:
            self.broken(clause, 'anchor not found: ' + what)
            return None
        return obj

    # -- finishing

    def finish(self, known, checker_cmd, info):
        failed = [o for o in self.obs if o['verdict'] == 'FAILED']
        kn = [k for k in known.get('known', []) if k.get('property') == self.pid]
        unknown = []
        printed = set()
        for o in failed:
            hit = None
            # the same finding seen under another build configuration of the thorough tier carries a '[variant] ' prefix
            inst = _re.sub(r'^\[[\w.+-]+\] ', '', o['instance'])
            for k in kn:
                if k.get('clause') == o['clause'] and k.get('instance') == inst:
                    hit = k
                    break
            if hit:
                o['verdict'] = 'KNOWN-FINDING'
                if id(hit) not in printed:
                    printed.add(id(hit))
                    print('KNOWN-FINDING: property=%s %s' % (self.pid, hit.get('what', o['instance'])))
            else:
                unknown.append(o)
        out = sys.stdout
        n_ob = len(self.obs)
        n_ok = len([o for o in self.obs if o['verdict'] == 'discharged'])
        print('%s [%s] obligations=%d discharged=%d failed=%d analysis-broken=%d' %
              (self.pid, self.tier, n_ob, n_ok, len(unknown), len(self.brokens)))
        by_clause = {}
        for o in self.obs:
            c = by_clause.setdefault(o['clause'], [0, 0])
            c[0] += 1
            c[1] += 1 if o['verdict'] == 'discharged' else 0
        for c in sorted(by_clause):
            print('  %-8s %3d/%-3d obligations discharged' % (c, by_clause[c][1], by_clause[c][0]))
        for name, (cnt, mn) in sorted(self.counts.items()):
            print('  instances %-58s %3d (floor %d)' % (name, cnt, mn))
        for n in self.notes:
            print('  note: ' + n)
        for c, m in self.brokens:
            print('ANALYSIS-BROKEN property=%s clause=%s: %s' % (self.pid, c, m))
        rdir = os.path.join(VERIF, 'evidence', 'replay')
        replays = []
        if unknown:
            os.makedirs(rdir, exist_ok=True)
        for i, o in enumerate(unknown):
            path = os.path.join(rdir, '%s_%d.json' % (self.pid, i))
            with open(path, 'w') as fh:
                json.dump({'property': self.pid, 'obligation': o, 'repo': self.repo,
                           'replay': './check %s --replay %s' % (self.pid, path)}, fh, indent=1)
            print('violation: %s %s  rule=%s  instance=%s' % (o['site'], o['function'], o['rule'], o['instance']))
            if o['detail']:
                print('           ' + o['detail'])
            print('VIOLATION property=%s replay=%s' % (self.pid, path))
            replays.append(path)
        samples = []
        seen_clause = {}
        for o in self.obs:
            n = seen_clause.get(o['clause'], 0)
            if n < 6 or o['verdict'] != 'discharged':
                samples.append(o)
            seen_clause[o['clause']] = n + 1
        ev = {
            'property_id': self.pid,
            'tier': self.tier,
            'seed': self.seed,
            'level': 'other',
            'coverage': {
                'explanation': self.explanation + (' NOT decided: ' + self.undecided if self.undecided else ''),
                'obligations': n_ob,
                'discharged': n_ok,
                'checker_cmd': checker_cmd,
                'trusted_base': ['clang 14 front end (parser, Sema, constant evaluator, clang::CFG)',
                                 'tool/txsa.cpp (fact extractor)', 'sa/ rule engines and the frozen rule tables in sa/props/%s.py' % self.pid],
                'samples': samples,
                'obligations_by_clause': {c: {'obligations': v[0], 'discharged': v[1]} for c, v in sorted(by_clause.items())},
                'instance_counts_vs_floors': {k: {'matched': v[0], 'floor': v[1]} for k, v in sorted(self.counts.items())},
                'analysis_broken': ['%s: %s' % b for b in self.brokens],
                'known_findings_printed': [o['instance'] for o in self.obs if o['verdict'] == 'KNOWN-FINDING'],
                'notes': self.notes,
                'analysed': info,
                'exhaustive': False,
            },
            'assumptions': self.assumptions,
            'wall_s': round(time.time() - self.t0, 2),
            'violations': len(unknown),
        }
        ev['coverage'].update(self.extra)
        edir = os.path.join(VERIF, 'evidence')
        os.makedirs(edir, exist_ok=True)
        # evidence is only written for analyses of the real tree
        if os.path.abspath(self.repo) == '/repo':
            with open(os.path.join(edir, self.pid + '.json'), 'w') as fh:
                json.dump(ev, fh, indent=1)
        if unknown:
            return 1
        if self.brokens:
            return 2
        return 0
