"""K12: interval abstract interpretation of typed source expression trees, with input-box
subdivision to defeat the dependency problem (DESIGN 1.5, K12).

An environment maps variable names (locals, parameters, globals, `obj.field` renderings) to
closed intervals (lo, hi).  Integer division and casts to int truncate towards zero.
"""
import math

from .core import cname, ap, show


class Undecided(Exception):
    pass


def _name(t):
    k = t.get('k')
    if k == 'var':
        return t.get('n')
    if k == 'mem':
        return show(t)
    return None


def _is_int_type(ty):
    return ty in ('int', 'long', 'unsigned int', 'unsigned long', 'short', 'char', 'long long', 'unsigned long long', 'bool')


def ieval(t, env):
    """Interval (lo, hi) of expression tree t under env; raises Undecided on unsupported nodes."""
    if not isinstance(t, dict):
        raise Undecided('no tree')
    k = t.get('k')
    if 'cv' in t and k in ('int',):
        return (t['cv'], t['cv'])
    if k == 'flt':
        return (t['v'], t['v'])
    if k in ('var', 'mem'):
        n = _name(t)
        if n in env:
            return env[n]
        if 'cv' in t:
            return (t['cv'], t['cv'])
        raise Undecided('unbound ' + str(n))
    if k == 'cast':
        lo, hi = ieval(t['e'], env)
        if _is_int_type(t.get('t')):
            return (math.trunc(lo) if lo == lo else lo, math.trunc(hi))
        return (lo, hi)
    if k == 'un':
        lo, hi = ieval(t['e'], env)
        if t.get('op') == '-':
            return (-hi, -lo)
        if t.get('op') == '+':
            return (lo, hi)
        raise Undecided('unary ' + str(t.get('op')))
    if k == 'bin':
        op = t.get('op')
        a = ieval(t['l'], env)
        b = ieval(t['r'], env)
        ty = t.get('t')
        if op == '+':
            return (a[0] + b[0], a[1] + b[1])
        if op == '-':
            return (a[0] - b[1], a[1] - b[0])
        if op == '*':
            c = [a[0] * b[0], a[0] * b[1], a[1] * b[0], a[1] * b[1]]
            return (min(c), max(c))
        if op == '/':
            if b[0] <= 0 <= b[1]:
                raise Undecided('division by an interval containing 0')
            c = [a[0] / b[0], a[0] / b[1], a[1] / b[0], a[1] / b[1]]
            lo, hi = min(c), max(c)
            if _is_int_type(ty):
                return (math.trunc(lo), math.trunc(hi))
            return (lo, hi)
        raise Undecided('binary ' + str(op))
    if k == 'cond':
        a = ieval(t['a'], env)
        b = ieval(t['b'], env)
        return (min(a[0], b[0]), max(a[1], b[1]))
    if k == 'call':
        n = cname(t)
        args = t.get('args', [])
        if n == 'std::min' and len(args) == 2:
            a, b = ieval(args[0], env), ieval(args[1], env)
            return (min(a[0], b[0]), min(a[1], b[1]))
        if n == 'std::max' and len(args) == 2:
            a, b = ieval(args[0], env), ieval(args[1], env)
            return (max(a[0], b[0]), max(a[1], b[1]))
        if n == 'clamp' and len(args) == 3:
            # clamp(v, lo, hi) = min(max(v, lo), hi)   (lemma checked against the function body by the caller)
            v, lo, hi = ieval(args[0], env), ieval(args[1], env), ieval(args[2], env)
            m = (max(v[0], lo[0]), max(v[1], lo[1]))
            return (min(m[0], hi[0]), min(m[1], hi[1]))
        if n.split('::')[-1].startswith('operator ') and t.get('recv') is not None:
            # conversion operator of a parameter object: the object's declared range
            r = t['recv']
            nm = _name(r) if isinstance(r, dict) else None
            if nm in env:
                return env[nm]
        if n == 'std::abs' and len(args) == 1:
            a = ieval(args[0], env)
            if a[0] >= 0:
                return a
            if a[1] <= 0:
                return (-a[1], -a[0])
            return (0, max(-a[0], a[1]))
        if 'cv' in t:
            return (t['cv'], t['cv'])
        raise Undecided('call ' + n)
    if 'cv' in t:
        return (t['cv'], t['cv'])
    raise Undecided('node ' + str(k))


def prove_lower(t, env, var, bound, max_leaves=200000):
    """Prove expr(t) >= bound for every integer value of `var` in env[var] (other variables
    range over their whole intervals) by adaptive bisection of var's interval.
    Returns (True, leaves) or (False, counterexample box)."""
    lo, hi = env[var]
    stack = [(lo, hi)]
    leaves = 0
    while stack:
        a, b = stack.pop()
        e2 = dict(env)
        e2[var] = (a, b)
        r = ieval(t, e2)
        leaves += 1
        if leaves > max_leaves:
            raise Undecided('subdivision budget exhausted')
        if r[0] >= bound:
            continue
        if a == b:
            return False, (a, r)
        m = (a + b) // 2
        stack.append((a, m))
        stack.append((m + 1, b))
    return True, leaves
