"""Lock-set analysis (RAII lock_guard / unique_lock, explicit lock()/unlock()) per function.

For every event of a function: the set of mutex access paths held on *every* path reaching
it (must-held).  A condition-variable wait releases and re-acquires its lock, so the lock is
held again when wait() returns: waits do not change the set.
"""
from .core import cname, ap
from .flow import Flow

LOCK_TYPES = ('std::lock_guard', 'std::unique_lock', 'std::scoped_lock')


def _is_lock_type(t):
    return bool(t) and t.replace('const ', '').startswith(LOCK_TYPES)


def _accessor_path(t):
    """A mutex obtained from a nullary accessor (`Logger::getLogMutex()`, a function-local static behind it):
    every call of the same accessor names the same mutex."""
    while isinstance(t, dict) and t.get('k') == 'cast':
        t = t.get('e')
    if isinstance(t, dict) and t.get('k') == 'call' and not t.get('args') and t.get('recv') is None and 'mutex' in (t.get('t') or ''):
        return cname(t) + '()'
    return None


class LockSets:
    def __init__(self, func, entry_held=()):
        self.f = func
        self.at = {}          # id(event) -> frozenset(mutex paths) must-held *before* the event
        base = frozenset(entry_held)

        # configuration: tuple of (key, mutex path, active) sorted
        def active(cfg):
            return frozenset(m for _, m, a in cfg if a) | base

        def transfer(e, c, pos):
            cur = active(c)
            k = id(e)
            self.at[k] = (self.at[k] & cur) if k in self.at else cur
            d = {key: (m, a) for key, m, a in c}
            kind = e.get('k')
            if kind == 'decl':
                for v in e.get('vars', []):
                    if _is_lock_type(v.get('ct') or v.get('t')):
                        init = v.get('init')
                        if isinstance(init, dict) and init.get('k') == 'ctor':
                            args = [a for a in init.get('args', []) if not (isinstance(a, dict) and a.get('defarg'))]
                            if args:
                                m = ap(args[0]) or _accessor_path(args[0])
                                deferred = len(args) > 1 and 'defer_lock' in str(args[1])
                                if m is not None:
                                    d[str(v['id'])] = (m, not deferred)
            elif kind == 'dtor':
                d.pop(str(e.get('id')), None)
            elif kind == 'call':
                r = e.get('recv')
                if isinstance(r, dict) and r.get('k') == 'var' and _is_lock_type(r.get('t')):
                    last = cname(e).split('::')[-1]
                    key = str(r.get('id'))
                    if key in d and last == 'unlock':
                        d[key] = (d[key][0], False)
                    elif key in d and last == 'lock':
                        d[key] = (d[key][0], True)
                elif isinstance(r, dict) and cname(e) in ('std::mutex::lock', 'std::mutex::unlock'):
                    m = ap(r)
                    if m:
                        if cname(e).endswith('::lock'):
                            d['raw:' + m] = (m, True)
                        else:
                            d.pop('raw:' + m, None)
            return [tuple(sorted((key, m, a) for key, (m, a) in d.items()))]

        Flow(func, transfer, None, max_configs=64).run({()})

    def held(self, e):
        return self.at.get(id(e), frozenset())


_cache = {}


def locksets(func, entry_held=()):
    key = (func.key, tuple(sorted(entry_held)))
    ls = _cache.get(key)
    if ls is None or ls.f is not func:
        ls = LockSets(func, entry_held)
        _cache[key] = ls
    return ls
