"""K14: which exception types can leave a function (whole-program, handler-chain aware)."""
import re
from collections import defaultdict

from .core import cname, walk, strip_targs

# std APIs in use whose failure depends on external data -> exception types
STD_THROWERS = {
    'std::stoi': ['std::invalid_argument', 'std::out_of_range'],
    'std::stol': ['std::invalid_argument', 'std::out_of_range'],
    'std::stoll': ['std::invalid_argument', 'std::out_of_range'],
    'std::stoul': ['std::invalid_argument', 'std::out_of_range'],
    'std::stoull': ['std::invalid_argument', 'std::out_of_range'],
    'std::stod': ['std::invalid_argument', 'std::out_of_range'],
    'std::stof': ['std::invalid_argument', 'std::out_of_range'],
    'std::basic_regex::basic_regex': ['std::regex_error'],
    'std::regex_match': ['std::regex_error'],
    'std::regex_search': ['std::regex_error'],
    'std::regex_replace': ['std::regex_error'],
    'std::rethrow_exception': ['<any>'],
    'std::vector::at': ['std::out_of_range'],
    'std::map::at': ['std::out_of_range'],
    'std::unordered_map::at': ['std::out_of_range'],
    'std::array::at': ['std::out_of_range'],
    'std::basic_string::at': ['std::out_of_range'],
    'std::deque::at': ['std::out_of_range'],
}

STD_BASES = {
    'std::invalid_argument': 'std::logic_error',
    'std::out_of_range': 'std::logic_error',
    'std::length_error': 'std::logic_error',
    'std::logic_error': 'std::exception',
    'std::regex_error': 'std::runtime_error',
    'std::ios_base::failure': 'std::system_error',
    'std::system_error': 'std::runtime_error',
    'std::runtime_error': 'std::exception',
    'std::bad_alloc': 'std::exception',
    'std::bad_cast': 'std::exception',
}

# exemptions: never wider than named symbols, each with its reason
EXEMPT_THROW_FUNCS = {
    'NetData::load': 'build-integrity error of the embedded network (not input dependent)',
    'Evaluate::EvalHashTables::initNetData': 'build-integrity error of the embedded network (not input dependent)',
    'Evaluate::EvalHashTables::initNetData::<lambda>': 'build-integrity error of the embedded network (not input dependent)',
    'AlignedAllocator::allocate': 'std::bad_alloc on allocation failure: out-of-memory is outside the property; '
                                  'the handled TT case (EngineMainThread::setupTT) is checked separately',
}


def norm_type(t):
    t = t.replace('const ', '').replace(' const', '').replace('&', '').replace('class ', '').replace('struct ', '').strip()
    return strip_targs(t)


def handlers_at(func, line):
    """List of handler chains (innermost first) enclosing a source line of func."""
    chains = []
    for t in func.d.get('tries', []) or []:
        if line is not None and t['l0'] <= line <= t['l1']:
            chains.append(((t['l1'] - t['l0']), t['handlers']))
    chains.sort(key=lambda x: x[0])
    return [c for _, c in chains]


class ExceptionFlow:
    def __init__(self, fb, cg):
        self.fb = fb
        self.cg = cg
        self.bases = {}
        for r in fb.records.values():
            bs = [norm_type(b) for b in r.get('bases', [])]
            if bs:
                self.bases[r['name']] = bs
        self.esc = {}           # func key -> {type: origin chain}
        self.exempted = []
        self.std_sites = set()      # (function, library callee) pairs matched against the thrower table
        self._solve()

    def is_a(self, ty, base):
        if base == '...':
            return True
        if ty == '<any>':
            return False
        seen = set()
        stack = [ty]
        while stack:
            t = stack.pop()
            if t == base:
                return True
            if t in seen:
                continue
            seen.add(t)
            if t in STD_BASES:
                stack.append(STD_BASES[t])
            for b in self.bases.get(t, []):
                stack.append(b)
            # nested class spelled without qualifier
            short = t.split('::')[-1]
            if short != t and short == base.split('::')[-1] and (t.endswith(base) or base.endswith(short)):
                return True
        return False

    def caught(self, func, line, ty):
        for chain in handlers_at(func, line):
            for h in chain:
                ht = norm_type(h['t']) if h['t'] != '...' else '...'
                if self.is_a(ty, ht):
                    if h.get('rethrows'):
                        break      # passes on to the next enclosing try
                    return True
        return False

    def _local(self, f):
        """[(type, line, origin-text, callee-key or None)] raw exception sources in f."""
        out = []
        for bid, i, e in f.events():
            k = e.get('k')
            if k == 'throw' and not e.get('rethrow'):
                ty = norm_type(e.get('t', '?'))
                out.append((ty, e.get('ln'), '%s:%s throw %s' % (f.file, e.get('ln'), ty), None, e))
            elif k in ('call', 'ctor'):
                n = cname(e).replace('std::__cxx11::', 'std::')     # libstdc++'s inline ABI namespace
                if n in STD_THROWERS:
                    self.std_sites.add((f.sname, n))
                    for ty in STD_THROWERS[n]:
                        out.append((ty, e.get('ln'), '%s:%s %s' % (f.file, e.get('ln'), n), None, e))
        return out

    def _solve(self):
        fb, cg = self.fb, self.cg
        funcs = [f for f in fb.funcs.values() if f.has_cfg]
        local = {}
        for f in funcs:
            loc = self._local(f)
            if f.sname in EXEMPT_THROW_FUNCS and loc:
                self.exempted.append('%s: %s' % (f.sname, EXEMPT_THROW_FUNCS[f.sname]))
                loc = [x for x in loc if x[4].get('k') != 'throw']
            local[f.key] = loc
        esc = {f.key: {} for f in funcs}
        # call sites per function: (callee keys incl. overriders + callables passed, line, event)
        csites = {}
        for f in funcs:
            lst = []
            for bid, i, e in f.events():
                if e.get('k') not in ('call', 'ctor'):
                    continue
                tgt = set()
                if e.get('f'):
                    tgt.add(e['f'])
                if cname(e) in ('ThreadPool::getResult', 'ThreadPool::getAllResults') and e.get('recv') is not None \
                        and e['recv'].get('k') == 'var' and e['recv'].get('vk') == 'local':
                    # results (and stored exceptions) of a local pool: exactly the tasks this function queued
                    tgt = set(cg.pool_tasks.get(f.key, [])) | {'<poolget>'}
                lst.append((tgt, e.get('ln'), e))
            csites[f.key] = lst
        # extra targets recorded by the call graph at an event (callables passed along, virtual
        # targets after handler-object sensitivity)
        extra = cg.extra_at
        changed = True
        rounds = 0
        while changed and rounds < 50:
            changed = False
            rounds += 1
            for f in funcs:
                cur = esc[f.key]
                new = {}
                for ty, ln, origin, _, e in local[f.key]:
                    if not self.caught(f, ln, ty):
                        new.setdefault(ty, [origin])
                for tgt, ln, e in csites[f.key]:
                    tg = set(tgt) | extra.get((f.key, id(e)), set())
                    for t in tg:
                        ce = esc.get(t)
                        if not ce:
                            continue
                        if self._call_exempt(f, e, t):
                            continue
                        for ty, origin in ce.items():
                            if ty in new:
                                continue
                            if not self.caught(f, ln, ty):
                                new[ty] = ['%s:%s %s' % (f.file, ln, f.sname)] + origin
                if set(new) != set(cur):
                    esc[f.key] = new
                    changed = True
        self.esc = esc

    def _call_exempt(self, f, e, callee_key):
        """TextIO::readFEN called with the constant start position cannot fail."""
        if self.fb.kname(callee_key) == 'TextIO::readFEN':
            a = e.get('args') or []
            if a and isinstance(a[0], dict):
                for n in walk(a[0]):
                    if n.get('k') == 'var' and (n.get('q') or '').endswith('TextIO::startPosFEN'):
                        return True
        return False

    def escaping(self, func):
        return dict(self.esc.get(func.key, {}))

    def describe(self):
        return {'std_throwers_modelled': sorted(STD_THROWERS), 'exemptions': sorted(set(self.exempted)),
                'not_modelled': ['std::bad_alloc from ordinary allocation', 'std::out_of_range from substr (site-wise K4 where needed)']}
