"""Exhaustive constant evaluation of small pure functions over a finite integer domain.

This is the "constant propagation through trivially pure helpers" of DESIGN 1.2 taken to
its finite-domain conclusion: a loop-free accessor such as PositionValue::getMateInN is a
function of an 8-bit field; its expression trees are folded for every value of that field.
Nothing of the repository is executed - the folding works on the extracted trees and gives
up (returns Unknown) on anything outside the supported fragment.
"""
from .core import cname, ap

class Unknown(Exception):
    pass


INT_TYPES = {
    'char': (8, True), 'signed char': (8, True), 'unsigned char': (8, False), 'short': (16, True),
    'unsigned short': (16, False), 'int': (32, True), 'unsigned int': (32, False), 'long': (64, True),
    'unsigned long': (64, False), 'long long': (64, True), 'unsigned long long': (64, False), 'bool': (1, False),
}


def wrap(v, ty):
    if ty not in INT_TYPES:
        return v
    bits, signed = INT_TYPES[ty]
    if ty == 'bool':
        return 1 if v else 0
    v &= (1 << bits) - 1
    if signed and v >= (1 << (bits - 1)):
        v -= (1 << bits)
    return v


class Closure:
    def __init__(self, fkey, caps, this_env):
        self.fkey = fkey
        self.caps = caps
        self.this_env = this_env


class Evaluator:
    """Evaluates expression trees with an environment {access path or var id -> int}."""

    def __init__(self, fb, max_depth=8, enum_types=None, stubs=None, ctor_hook=None):
        self.fb = fb
        self.max_depth = max_depth
        self.enum_types = enum_types or {}
        self.stubs = stubs or {}          # qualified callee name -> f(evaluator, call tree, env, depth) -> value
        self.ctor_hook = ctor_hook        # f(class name, [argument values]) -> value, or None
        self.lenient_return = False

    def eval(self, t, env, depth=0):
        if not isinstance(t, dict):
            raise Unknown('no tree')
        if 'cv' in t and t.get('k') in ('int', 'sizeof'):
            return t['cv']
        k = t.get('k')
        if k == 'int':
            raise Unknown('literal without value')
        if k == 'var':
            key = ('v', t.get('id')) if 'id' in t else ('g', t.get('q'))
            if key in env:
                return env[key]
            if 'cv' in t:
                return t['cv']
            raise Unknown('unbound variable ' + str(t.get('n')))
        if k == 'mem':
            p = ap(t)
            if p in env:
                return env[p]
            if 'cv' in t:
                return t['cv']
            raise Unknown('unbound field ' + str(p))
        if k == 'cast':
            v = self.eval(t.get('e'), env, depth)
            ty = t.get('t')
            if ty in self.enum_types:
                ty = self.enum_types[ty]
            return wrap(v, ty) if ty in INT_TYPES else v
        if k == 'un':
            v = self.eval(t.get('e'), env, depth)
            op = t.get('op')
            if op == '-':
                return wrap(-v, t.get('t'))
            if op == '!':
                return 0 if v else 1
            if op == '~':
                return wrap(~v, t.get('t'))
            if op == '+':
                return v
            raise Unknown('unary ' + str(op))
        if k == 'bin':
            op = t.get('op')
            if op == '&&':
                return 1 if (self.eval(t['l'], env, depth) and self.eval(t['r'], env, depth)) else 0
            if op == '||':
                return 1 if (self.eval(t['l'], env, depth) or self.eval(t['r'], env, depth)) else 0
            a = self.eval(t['l'], env, depth)
            b = self.eval(t['r'], env, depth)
            return self.binop(op, a, b, t.get('t'))
        if k == 'cond':
            c = self.eval(t['c'], env, depth)
            return self.eval(t['a'] if c else t['b'], env, depth)
        if k == 'call':
            if 'cv' in t:
                return t['cv']
            return self.call(t, env, depth)
        if k == 'ctor':
            # single-member wrapper classes (Square): value of the only argument
            if len(t.get('args', [])) == 1:
                return self.eval(t['args'][0], env, depth)
            if self.ctor_hook is not None:
                r = self.ctor_hook(t.get('cls'), [self.eval(a, env, depth) for a in t.get('args', []) if not (isinstance(a, dict) and a.get('defarg'))])
                if r is not None:
                    return r
            raise Unknown('ctor')
        if k == 'str':
            return t.get('v', '')
        if k == 'idx':
            base = self.eval(t.get('b'), env, depth)
            i = self.eval(t.get('i'), env, depth)
            if isinstance(base, str):
                # a string literal table: in-bounds characters, the terminating NUL at the end
                if 0 <= i < len(base):
                    return ord(base[i])
                if i == len(base):
                    return 0
                raise Unknown('string index out of range')
            if isinstance(base, (list, tuple)) and 0 <= i < len(base):
                return base[i]
            raise Unknown('index into ' + str(type(base).__name__))
        if k == 'lambda':
            # a closure: the captured values as they are now (by-reference captures are read at creation too: the
            # evaluator only invokes closures synchronously, right after they were built)
            caps = {}
            for c in t.get('caps', []):
                if c.get('this'):
                    continue
                key = ('v', c.get('id'))
                if key in env:
                    caps[c.get('n')] = env[key]
            return Closure(t.get('f'), caps, {k2: v2 for k2, v2 in env.items() if isinstance(k2, str) and k2.startswith('this.')})
        if 'cv' in t:
            return t['cv']
        raise Unknown('node ' + str(k))

    def invoke(self, closure, args, depth=0):
        """Run the body of a closure built by eval() on concrete argument values."""
        func = self.fb.funcs.get(closure.fkey)
        if func is None or not func.has_cfg:
            raise Unknown('closure body')
        env = dict(closure.this_env)
        for p_, a_ in zip(func.d.get('params', []), args):
            env[('v', p_['id'])] = a_
        from .core import walk
        for _, _, e in func.events():
            for n in walk(e):
                if n.get('k') == 'var' and n.get('n') in closure.caps and 'id' in n:
                    env.setdefault(('v', n['id']), closure.caps[n['n']])
        for bid, blk in func.blocks.items():
            c = (blk.get('term') or {}).get('cond')
            for n in (walk(c) if c is not None else []):
                if n.get('k') == 'var' and n.get('n') in closure.caps and 'id' in n:
                    env.setdefault(('v', n['id']), closure.caps[n['n']])
        return self.run(func, env, depth + 1)

    def binop(self, op, a, b, ty):
        if op == '+': r = a + b
        elif op == '-': r = a - b
        elif op == '*': r = a * b
        elif op == '/':
            if b == 0: raise Unknown('div0')
            r = abs(a) // abs(b) * (1 if (a >= 0) == (b >= 0) else -1)
        elif op == '%':
            if b == 0: raise Unknown('div0')
            r = abs(a) % abs(b) * (1 if a >= 0 else -1)
        elif op == '<<': r = a << b
        elif op == '>>': r = a >> b
        elif op == '&': r = a & b
        elif op == '|': r = a | b
        elif op == '^': r = a ^ b
        elif op == '<': return 1 if a < b else 0
        elif op == '>': return 1 if a > b else 0
        elif op == '<=': return 1 if a <= b else 0
        elif op == '>=': return 1 if a >= b else 0
        elif op == '==': return 1 if a == b else 0
        elif op == '!=': return 1 if a != b else 0
        else:
            raise Unknown('binop ' + str(op))
        return wrap(r, ty) if ty in INT_TYPES else r

    def call(self, t, env, depth):
        if depth >= self.max_depth:
            raise Unknown('depth')
        n = cname(t)
        last = n.split('::')[-1]
        if n in self.stubs:
            return self.stubs[n](self, t, env, depth)
        if t.get('op') in ('==', '!=') and len(([t['recv']] if t.get('recv') is not None else []) + t.get('args', [])) == 2:
            xs = ([t['recv']] if t.get('recv') is not None else []) + t.get('args', [])
            a, b = self.eval(xs[0], env, depth), self.eval(xs[1], env, depth)
            return int((a == b) == (t['op'] == '=='))
        if n in ('std::min', 'std::max'):
            a = self.eval(t['args'][0], env, depth)
            b = self.eval(t['args'][1], env, depth)
            return min(a, b) if n == 'std::min' else max(a, b)
        if n in ('std::abs', 'abs'):
            return abs(self.eval(t['args'][0], env, depth))
        callee = self.fb.funcs.get(t.get('f'))
        if callee is None or not callee.has_cfg:
            raise Unknown('callee ' + n)
        cenv = {}
        for p, a in zip(callee.d.get('params', []), t.get('args', [])):
            if '&' in (p.get('t') or '') and 'const' not in (p.get('t') or ''):
                raise Unknown('reference parameter in nested call')
            cenv[('v', p['id'])] = self.eval(a, env, depth)
        recv = t.get('recv')
        if recv is not None:
            rp = ap(recv)
            if rp is not None:
                for key, v in env.items():
                    if isinstance(key, str) and key.startswith(rp + '.'):
                        cenv['this.' + key[len(rp) + 1:]] = v
            # a value of a single-member wrapper class (Square) is modelled as the value of its only member
            rec = self.fb.record(callee.d.get('cls') or '') if callee.d.get('cls') else None
            if rec is not None and len(rec.get('fields', [])) == 1 and not rec.get('bases') and ('this.' + rec['fields'][0]['n']) not in cenv:
                try:
                    rv = self.eval(recv, env, depth)
                except Unknown:
                    rv = None
                if isinstance(rv, int):
                    cenv['this.' + rec['fields'][0]['n']] = rv
        res = self.run(callee, cenv, depth + 1)
        if res.get('ret') is None:
            raise Unknown('void call in expression')
        return res['ret']

    def run(self, func, env, depth=0, ref_params=()):
        """Interpret a loop-free function on a concrete environment.  Returns {'ret': value,
        'env': final environment}.  ref_params: parameter names treated as out-parameters."""
        env = dict(env)
        b = func.entry
        steps = 0
        while True:
            steps += 1
            if steps > 500:
                raise Unknown('loop')
            blk = func.blocks[b]
            for e in blk['ev']:
                k = e.get('k')
                if k == 'ret':
                    try:
                        v = self.eval(e['e'], env, depth) if e.get('e') is not None else None
                    except Unknown:
                        if not self.lenient_return:
                            raise
                        v = None        # the caller is interested in the effects seen by its stubs, not in the value
                    rt = func.d.get('ret')
                    if v is not None and rt == 'bool':
                        v = 1 if v else 0
                    return {'ret': v, 'env': env}
                if k == 'decl':
                    for v in e.get('vars', []):
                        if v.get('init') is not None:
                            try:
                                env[('v', v['id'])] = wrap(self.eval(v['init'], env, depth), v.get('ct'))
                            except Unknown:
                                env.pop(('v', v['id']), None)
                elif k == 'asg':
                    tgt = self.lhs_key(e.get('l'))
                    if tgt is None:
                        raise Unknown('assignment target')
                    if e.get('op') == '=':
                        val = self.eval(e['r'], env, depth)
                    else:
                        cur = self.eval(e['l'], env, depth)
                        val = self.binop(e['op'][:-1], cur, self.eval(e['r'], env, depth), e.get('ct') or e.get('t'))
                    ty = e.get('t')
                    if ty in self.enum_types:
                        ty = self.enum_types[ty]
                    env[tgt] = wrap(val, ty) if ty in INT_TYPES else val
                elif k == 'incdec':
                    tgt = self.lhs_key(e.get('e'))
                    if tgt is None:
                        raise Unknown('incdec target')
                    cur = self.eval(e['e'], env, depth)
                    env[tgt] = wrap(cur + (1 if e['op'] == '++' else -1), e.get('t'))
                elif k == 'minit':
                    f = e.get('f', '').split('::')[-1]
                    if e.get('init') is not None:
                        try:
                            env['this.' + f] = self.eval(e['init'], env, depth)
                        except Unknown:
                            pass
                elif k in ('acc', 'dtor', 'lambda'):
                    continue
                elif k == 'call' and cname(e).split('::')[-1] == 'operator=' and isinstance(e.get('recv'), dict) and e['recv'].get('k') == 'var' and len(e.get('args', [])) == 1:
                    # assignment to a local of a value class (Square s; s = G1;)
                    tgt = self.lhs_key(e['recv'])
                    try:
                        env[tgt] = self.eval(e['args'][0], env, depth)
                    except Unknown:
                        env.pop(tgt, None)
                    continue
                elif k == 'call' and cname(e) in self.stubs:
                    # a stubbed callee at statement level is run for its effect (value ignored)
                    self.stubs[cname(e)](self, e, env, depth)
                    continue
                elif k == 'call':
                    # calls are evaluated where their value is used; a call on `this` to a non-const
                    # sibling method is executed for its effect on the fields of `this`
                    r = e.get('recv')
                    callee = self.fb.funcs.get(e.get('f'))
                    if isinstance(r, dict) and r.get('k') == 'this' and callee is not None and callee.has_cfg and not e.get('cmeth') and depth < self.max_depth:
                        cenv = {k2: v2 for k2, v2 in env.items() if isinstance(k2, str) and k2.startswith('this.')}
                        try:
                            for p_, a_ in zip(callee.d.get('params', []), e.get('args', [])):
                                cenv[('v', p_['id'])] = wrap(self.eval(a_, env, depth), (p_.get('t') or '').replace('const ', ''))
                        except Unknown:
                            continue
                        res = self.run(callee, cenv, depth + 1)
                        for k2, v2 in res['env'].items():
                            if isinstance(k2, str) and k2.startswith('this.'):
                                env[k2] = v2
                    continue
                elif k == 'ctor':
                    continue
            succ = blk['succ']
            if not succ:
                return {'ret': None, 'env': env}
            if len(succ) == 1:
                b = succ[0]
                continue
            term = blk.get('term') or {}
            from .core import eff_cond
            if term.get('c') == 'SwitchStmt' and term.get('cond') is not None:
                val = self.eval(term['cond'], env, depth)
                nxt = dflt = other = None
                for s_ in succ:
                    lb = func.blocks[s_].get('label') or {}
                    if lb.get('k') == 'case' and lb.get('v') == val:
                        nxt = s_
                    elif lb.get('k') == 'default':
                        dflt = s_
                    elif lb.get('k') != 'case':
                        other = s_
                b = nxt if nxt is not None else dflt if dflt is not None else other
                if b is None:
                    raise Unknown('switch without a matching arm')
                continue
            c = eff_cond(term)
            if c is None or term.get('c') in ('SwitchStmt', 'CXXTryStmt'):
                raise Unknown('branch')
            v = self.eval(c, env, depth)
            b = succ[0] if v else succ[1]

    def lhs_key(self, t):
        if not isinstance(t, dict):
            return None
        if t.get('k') == 'var':
            return ('v', t.get('id')) if 'id' in t else ('g', t.get('q'))
        if t.get('k') == 'mem':
            return ap(t)
        return None


def run_switch(ev, f, env, want_tree=False):
    """Evaluate a function whose body is a switch over a parameter returning constants."""
    # find the switch block and follow the matching case
    b = f.entry
    steps = 0
    env = dict(env)
    while True:
        steps += 1
        if steps > 200:
            raise Unknown('loop')
        blk = f.blocks[b]
        for e in blk['ev']:
            if e.get('k') == 'ret':
                if want_tree:
                    return e.get('e')
                return ev.eval(e['e'], env)
            if e.get('k') == 'decl':
                for v in e.get('vars', []):
                    if v.get('init') is not None:
                        try:
                            env[('v', v['id'])] = ev.eval(v['init'], env)
                        except Unknown:
                            pass
            if e.get('k') == 'asg' and isinstance(e.get('l'), dict) and e['l'].get('k') == 'var':
                env[('v', e['l']['id'])] = ev.eval(e['r'], env)
        succ = blk['succ']
        term = blk.get('term') or {}
        if not succ:
            raise Unknown('no return')
        if term.get('c') == 'SwitchStmt':
            val = ev.eval(term.get('cond'), env)
            nxt = None
            dflt = None
            for s in succ:
                lb = f.blocks[s].get('label') or {}
                if lb.get('k') == 'case' and lb.get('v') == val:
                    nxt = s
                if lb.get('k') == 'default':
                    dflt = s
            if nxt is None:
                # labels that fall through are chained blocks: search all case-labelled blocks
                for bid, bb in f.blocks.items():
                    lb = bb.get('label') or {}
                    if lb.get('k') == 'case' and lb.get('v') == val:
                        nxt = bid
            b = nxt if nxt is not None else (dflt if dflt is not None else succ[-1])
            continue
        if len(succ) == 1:
            b = succ[0]
            continue
        from .core import eff_cond
        c = eff_cond(term)
        v = ev.eval(c, env)
        b = succ[0] if v else succ[1]


