"""C06 - time limits are honoured.  Clauses decided:
 .1 K15/K12 limit arithmetic of EngineControl::computeTimeLimit: 1 <= soft <= hard <= time - margin
        over the stated input domain; no int overflow in the allocation formula; movetime path
 .2 K2  ordering: limits are computed from the position of THIS go (setupPosition before
        computeTimeLimit); stop installs the zero limit before waiting; ponderhit installs the
        limits before releasing the search; the one-legal-move clamp precedes the hand-over
 .3 K1/K2 polling structure: the stop test dominates every recursive descent; every node
        decrements the poll counter; shouldStop compares the elapsed time with the selected limit
"""
import re

from ..core import cname, ap, walk, show, strip_not, eff_cond
from ..effects import Effects
from ..interval import ieval, prove_lower, Undecided
from .. import regions as G
from .. import rules as R

EXPLANATION = (
    'Static rules over the resolved program. Decided: (1) on the clock path of computeTimeLimit the definitions of the soft and hard '
    'limit that reach the exit are clamp(x, 1, time - margin) with margin = min(BufferTime, time*9/10); interval abstract '
    'interpretation of the typed source expression (with input-box subdivision) shows time - margin >= 1 for every time in 1..10^7 and '
    'every BufferTime in its declared range; the hard limit is the soft limit scaled by a factor whose interval (from the Param<> '
    'template bounds) is >= 1, and both go through the same monotone clamp, hence 1 <= soft <= hard <= time - margin; the allocation '
    'formula stays inside int over the stated ranges; on the movetime path soft = hard = movetime; (2) setupPosition precedes '
    'computeTimeLimit in both go paths (the limits depend on the side to move of this position), stopThread installs timeLimit(0,0) '
    'before it waits, ponderHit installs the computed limits before it clears the ponder flag, startThread applies the one-legal-move '
    'clamp before handing the limits to the search; (3) in negaScout the poll block (counter <= 0 -> shouldStop -> throw) dominates every '
    'recursive descent, every make-move in negaScout / quiesce / the root loop is followed by a decrement of the poll counter, the poll '
    'interval is at most 1000 nodes, and shouldStop returns true exactly on elapsed >= the limit selected by searchNeedMoreTime.'
    ' The limit shouldStop compares the elapsed time with is, on every path, bounded by the hard limit (hard, soft, or min(.., hard)).'
    ' Added later; (4) on every go path the option queue is drained (stopThread -> waitStop -> waitOptionsSet) before the protocol thread reads option values in computeTimeLimit / startThread.'
    ' Added later; (5) Communicator::sendInitSearch must-writes the node / tbhit accumulators and every search passes it. (6) every position-decoding sweep of the on-demand tablebase generation gives up both for limit 0 (stop) and for a positive limit that has passed (ponderhit) - found and fixed defect D19. (7) the time origin of a search is the reception time of its go: unbroken chain clock reading -> SearchParams -> startThread -> Search::timeLimit -> tStart. (8) = C14.5 the option values the limits are computed from are the ones set last. (9) a soft limit written inside Search is the minimum of its computed value and the hard limit.')
UNDECIDED = ('wall-clock latency and the virtual-clock bound "within one polling interval" (timing is not a static quantity); the '
             'behaviour of the search between two polls.')
ASSUMPTIONS = ['input domain of the property: wtime/btime 1..10^7 ms, inc 0..10^5, movestogo 0..100, BufferTime and the time-usage parameters inside their declared Param<> ranges',
               'clamp(v, lo, hi) = min(max(v, lo), hi) (checked against the body of clamp)']

DOMAIN = {'time': (1, 10 ** 7), 'inc': (0, 10 ** 5), 'oTime': (0, 10 ** 7), 'oInc': (0, 10 ** 5)}


def param_bounds(fb, name):
    g = fb.globals.get(name)
    if not g:
        return None
    m = re.match(r'Param<(-?\d+), (-?\d+), (-?\d+)', g.get('ct') or g.get('t') or '')
    if not m:
        return None
    return int(m.group(2)), int(m.group(3))


def run(fb, rep, tier):
    c1_arith(fb, rep)
    c2_order(fb, rep)
    c3_polling(fb, rep)
    c4_options_before_limits(fb, rep)
    # .5 the node count the NPS throttle sleeps on (own nodes + what the helpers reported) starts at zero in every search:
    # a stale helper count makes the throttle sleep for (stale nodes / MaxNPS) seconds in one piece, past every limit
    # and deaf to stop (shared with C14.2)
    from . import C14
    C14.accumulators_reset(fb, rep, 'C06.5')
    c6_generation_polls_limit(fb, rep)
    c7_time_origin(fb, rep)
    # .8 the limits are computed from the option values the user set last (BufferTime, ...): the queue of option changes
    # waiting for an idle engine keeps the latest value per option (shared with C14.5)
    from . import C14 as _C14
    _C14.c5_option_queue_last_wins(fb, rep, 'C06.8')
    c9_soft_limit_stays_below_hard(fb, rep)


def _strip(t):
    while isinstance(t, dict) and t.get('k') == 'cast':
        t = t.get('e')
    return t


def _single_defs(f):
    defs = {}
    for b, i, e in f.events():
        if e.get('k') == 'decl':
            for v in e.get('vars', []):
                defs.setdefault(v['id'], []).append(v.get('init'))
        elif e.get('k') == 'asg' and isinstance(e.get('l'), dict) and e['l'].get('k') == 'var' and 'id' in e['l']:
            defs.setdefault(e['l']['id'], []).append(None)
    return {k: v[0] for k, v in defs.items() if len(v) == 1 and v[0] is not None}


def _inline(t, sd, keep, depth=0):
    """Replace single-definition locals (other than `keep`) by their initialisers."""
    if isinstance(t, list):
        return [_inline(x, sd, keep, depth) for x in t]
    if not isinstance(t, dict):
        return t
    if t.get('k') == 'var' and 'cv' not in t and t.get('id') in sd and t.get('id') not in keep and depth < 8:
        return _inline(sd[t['id']], sd, keep, depth + 1)
    return {k: (_inline(v, sd, keep, depth) if isinstance(v, (dict, list)) else v) for k, v in t.items()}


def _roles(ct):
    """Locals of computeTimeLimit by what they are, not by what they are called."""
    decls = {}
    for b, i, e in ct.events():
        if e.get('k') == 'decl':
            for v in e.get('vars', []):
                decls[v['id']] = (b, i, v)

    def members(t):
        return [n.get('f', '').split('::')[-1] for n in walk(t) if n.get('k') == 'mem']
    roles = {}
    for vid, (b, i, v) in decls.items():
        init = _strip(v.get('init'))
        if not isinstance(init, dict):
            continue
        if init.get('k') == 'cond':
            a, b_ = members(init['a']), members(init['b'])
            if a == ['wTime'] and b_ == ['bTime']:
                roles['time'] = v
            elif a == ['bTime'] and b_ == ['wTime']:
                roles['oTime'] = v
            elif a == ['wInc'] and b_ == ['bInc']:
                roles['inc'] = v
            elif a == ['bInc'] and b_ == ['wInc']:
                roles['oInc'] = v
        if members(init) == ['movesToGo']:
            roles['moves'] = v
    for vid, (b, i, v) in decls.items():
        init = _strip(v.get('init'))
        if isinstance(init, dict) and init.get('k') == 'call' and cname(init) == 'std::min' and 'time' in roles and \
                any(n.get('k') == 'var' and n.get('id') == roles['time']['id'] for n in walk(init)) and v is not roles.get('time') and 'margin' not in roles and \
                not any(n.get('k') == 'var' and n.get('id') == (roles.get('moves') or {}).get('id') for n in walk(init)):
            roles['margin'] = v
    for vid, (b, i, v) in decls.items():
        init = v.get('init')
        if isinstance(init, dict) and all(r_ in roles for r_ in ('time', 'inc', 'moves', 'margin')) and v['id'] not in {x['id'] for x in roles.values()} and \
                {roles[r_]['id'] for r_ in ('time', 'inc', 'moves', 'margin')} <= {n.get('id') for n in walk(init) if n.get('k') == 'var'} and (v.get('t') or '').replace('const ', '') == 'int':
            roles.setdefault('timeLimit', v)
    return roles


def c1_arith(fb, rep):
    clause = 'C06.1'
    ct = fb.find1('EngineControl::computeTimeLimit')
    if rep.need(clause, ct, 'EngineControl::computeTimeLimit') is None:
        return
    roles = _roles(ct)
    for r_ in ('time', 'inc', 'moves', 'margin', 'timeLimit'):
        if rep.need(clause, roles.get(r_), 'the local of computeTimeLimit that holds the %s' % {
                'time': "mover's remaining time (white ? wTime : bTime)", 'inc': "mover's increment", 'moves': 'moves to go',
                'margin': 'safety margin min(BufferTime, f(time))', 'timeLimit': 'per-move allocation'}[r_]) is None:
            return
    nm = {r_: v['n'] for r_, v in roles.items()}
    rid = {r_: v['id'] for r_, v in roles.items()}
    env = {nm[r_]: DOMAIN[r_] for r_ in ('time', 'inc', 'oTime', 'oInc') if r_ in nm}
    for p in ('bufferTime', 'maxTimeUsage', 'timeMaxRemainingMoves', 'timePonderHitRate', 'minTimeUsage'):
        bd = param_bounds(fb, p)
        if rep.need(clause, bd, 'Param<> bounds of ' + p) is None:
            return
        env[p] = bd
    rep.extra['parameter_ranges'] = {k: list(v) for k, v in env.items()}
    rep.extra['roles_in_computeTimeLimit'] = nm
    # clamp lemma: body of clamp is min(max(val, lo), hi) over its three parameters in order
    cl = [f for f in fb.find('clamp') if f.has_cfg]
    ok = False
    for f in cl:
        ps = [p_['id'] for p_ in f.d.get('params', [])]
        for b, i, e in f.events():
            if e.get('k') == 'ret' and len(ps) == 3:
                r = _strip(e.get('e'))
                if isinstance(r, dict) and r.get('k') == 'call' and cname(r) == 'std::min':
                    a0 = _strip(r['args'][0])
                    if isinstance(a0, dict) and a0.get('k') == 'call' and cname(a0) == 'std::max' and \
                            [(_strip(x) or {}).get('id') for x in a0['args']] == ps[:2] and (_strip(r['args'][1]) or {}).get('id') == ps[2]:
                        ok = True
    rep.ob(clause, 'K12 lemma', 'clamp(val, min, max) is min(max(val, min), max)', ok, cl[0].where if cl else '', '', 'clamp')
    margin = roles['margin'].get('init')
    m0 = _strip(margin)
    okm = isinstance(m0, dict) and m0.get('k') == 'call' and cname(m0) == 'std::min' and any('bufferTime' in show(a) for a in m0['args'])
    rep.ob(clause, 'K15 provenance', 'margin = min(BufferTime, f(time))', okm, ct.where, show(margin), ct.sname)
    # final definitions of the two limits on the clock path
    finals = {}
    for b, i, e in ct.events():
        if e.get('k') == 'asg' and e.get('op') == '=' and ap(e.get('l')) in ('this.minTimeLimit', 'this.maxTimeLimit'):
            r = _strip(e.get('r'))
            if isinstance(r, dict) and r.get('k') == 'call' and cname(r) == 'clamp':
                r = dict(r, args=[_inline(a_, _single_defs(ct), {rid['time'], rid['margin']}) for a_ in r['args']])
                finals[ap(e['l'])[5:]] = (b, i, e, r)

    def is_budget(t):
        """`time - margin`, possibly protected as max(1, time - margin)."""
        t = _strip(t)
        if isinstance(t, dict) and t.get('k') == 'call' and cname(t) == 'std::max' and len(t.get('args', [])) == 2:
            return any(is_budget(a) for a in t['args'])
        return isinstance(t, dict) and t.get('k') == 'bin' and t.get('op') == '-' and (_strip(t['l']) or {}).get('id') == rid['time'] and (_strip(t['r']) or {}).get('id') == rid['margin']
    for fld in ('minTimeLimit', 'maxTimeLimit'):
        if rep.need(clause, finals.get(fld), 'clamp(...) definition of ' + fld) is None:
            return
        b, i, e, r = finals[fld]
        a = r['args']
        shape = ap(_strip(a[0])) == 'this.' + fld and (_strip(a[1]) or {}).get('cv') == 1 and is_budget(a[2])
        rep.ob(clause, 'K15 provenance', 'clock path: %s is finally clamp(%s, 1, time - margin)' % (fld, fld), shape, R.site(ct, e), show(r), ct.sname)
        later = ct.path_avoiding((b, i), lambda ev, _f=fld: ev is not None and ev.get('k') == 'asg' and ap(ev.get('l')) == 'this.' + _f, R.never)
        rep.ob(clause, 'K15 provenance', 'clock path: no later write to %s follows the clamp' % fld, later is None, R.site(ct, e), '', ct.sname)
    bound_tree = next((n_ for n_ in walk(finals['minTimeLimit'][3]['args'][2]) if n_.get('k') == 'bin' and is_budget(n_)), _strip(finals['minTimeLimit'][3]['args'][2]))
    # the margin that reaches the clamps is, on every path, the one computed from the mover's own clock
    from .. import bbalg as B_
    for fld in ('minTimeLimit', 'maxTimeLimit'):
        b_, i_, e_, r_ = finals[fld]
        try:
            stores = B_.sym_stores(ct, (b_, i_), {rid['margin']})
            vals = {show(st.get(rid['margin']), 400) if rid['margin'] in st else '?' for st, _ in stores}
        except B_.Unsupported as ex:
            vals = {'? (%s)' % ex}
        rep.ob(clause, 'K15 provenance', 'clock path: the safety margin in the final clamp of %s is the one computed from the mover\'s clock on every path' % fld,
               vals == {show(margin, 400)}, R.site(ct, e_), 'margin values reaching the clamp: %s' % sorted(vals), ct.sname)

    def subst(t):
        if isinstance(t, dict) and t.get('k') == 'var' and t.get('id') == rid['margin']:
            return margin
        if isinstance(t, dict):
            return {k: (subst(v) if isinstance(v, dict) else ([subst(x) for x in v] if isinstance(v, list) else v)) for k, v in t.items()}
        return t
    tree = subst(bound_tree)
    try:
        okb, info = prove_lower(tree, env, nm['time'], 1)
        rep.ob(clause, 'K12 range', 'time - min(BufferTime, time*9/10) >= 1 for every time in 1..10^7 and BufferTime in %s' % (list(env['bufferTime']),), okb,
               ct.where, ('%d interval boxes' % info) if okb else 'fails for time=%s (value interval %s)' % (info[0], info[1]), ct.sname)
        rep.extra['interval_boxes_time_minus_margin'] = info if okb else None
    except Undecided as ex:
        rep.broken(clause, 'interval engine left its fragment: %s' % ex)
    # hard = soft * factor, factor >= 1
    hard = None
    for b, i, e in ct.events():
        if e.get('k') == 'asg' and e.get('op') == '=' and ap(e.get('l')) == 'this.maxTimeLimit':
            r = _strip(e.get('r'))
            if isinstance(r, dict) and r.get('k') == 'bin' and r.get('op') == '*':
                hard = (b, i, e, r)
    if rep.need(clause, hard, 'maxTimeLimit = minTimeLimit * factor') is not None:
        b, i, e, r = hard
        lhs = _strip(r.get('l'))
        base_ok = ap(lhs) == 'this.minTimeLimit'
        try:
            envf = dict(env)
            envf[nm['moves']] = (1, max(env['timeMaxRemainingMoves'][1], 999))
            flo, fhi = ieval(_strip(r.get('r')), envf)
            rep.ob(clause, 'K12 range', 'hard limit = soft limit x factor with factor >= 1 over the declared parameter ranges', base_ok and flo >= 1.0, R.site(ct, e),
                   'factor %s in [%s, %s]' % (show(r.get('r')), flo, fhi), ct.sname)
        except Undecided as ex:
            rep.broken(clause, 'interval engine (factor): %s' % ex)
        okord = ct.pos_dominates((b, i), (finals['minTimeLimit'][0], finals['minTimeLimit'][1])) and ct.pos_dominates((b, i), (finals['maxTimeLimit'][0], finals['maxTimeLimit'][1]))
        pre = ct.path_avoiding((b, i), lambda ev: ev is not None and ev.get('k') == 'asg' and ap(ev.get('l')) == 'this.minTimeLimit' and ev is not finals['minTimeLimit'][2], R.never)
        rep.ob(clause, 'K15 provenance', 'the scaling uses the final pre-clamp soft limit and precedes both clamps', okord and pre is None, R.site(ct, e), '', ct.sname)
    # allocation formula stays inside int
    tl = roles['timeLimit']
    try:
        envo = dict(env)
        envo[nm['moves']] = (1, 999)
        envo[nm['margin']] = (0, env['bufferTime'][1])
        mx = 0
        for n in walk(tl.get('init')):
            if n.get('k') == 'bin' and n.get('t') == 'int':
                lo, hi = ieval(n, envo)
                mx = max(mx, abs(lo), abs(hi))
        rep.ob(clause, 'K12 range', 'time + inc*(moves-1) - margin stays inside int over the stated ranges', 0 < mx < 2 ** 31, ct.where, 'largest intermediate magnitude %d' % mx, ct.sname)
    except Undecided as ex:
        rep.broken(clause, 'interval engine (allocation formula): %s' % ex)
    # moves is at least 1 when it divides
    mv = [e for _, _, e in ct.events() if e.get('k') == 'asg' and isinstance(e.get('l'), dict) and e['l'].get('id') == rid['moves']]
    zero_fix = any((e.get('r') or {}).get('cv') == 999 for e in mv)
    rep.ob(clause, 'K12 range', 'movestogo 0 is replaced before it is used as a divisor', zero_fix, ct.where, '', ct.sname)
    # movetime path
    okmt = False
    for b, i, e in ct.events():
        if e.get('k') == 'asg' and ap(e.get('l')) == 'this.minTimeLimit':
            r = e.get('r')
            if isinstance(r, dict) and r.get('k') == 'asg' and ap(r.get('l')) == 'this.maxTimeLimit' and 'moveTime' in show(r.get('r')):
                okmt = True
    rep.ob(clause, 'K15 provenance', 'movetime path: soft = hard = movetime', okmt, ct.where, '', ct.sname)
    # the single-legal-move clamp keeps 1 <= soft, hard
    st = fb.find1('EngineControl::startThread')
    if rep.need(clause, st, 'EngineControl::startThread'):
        cl2 = [e for _, _, e in st.events() if e.get('k') == 'asg' and isinstance(e.get('l'), dict) and e['l'].get('k') == 'var' and
               isinstance(_strip(e.get('r')), dict) and cname(_strip(e.get('r'))) == 'clamp']

        def scaled_self(e):
            a0 = _strip(_strip(e['r'])['args'][0])
            return isinstance(a0, dict) and a0.get('k') == 'bin' and a0.get('op') == '/' and (_strip(a0['l']) or {}).get('id') == e['l'].get('id') and (_strip(a0['r']) or {}).get('cv') == 100
        shapes = sorted(show(_strip(e.get('r'))) for e in cl2)
        ok = len(cl2) == 2 and all((_strip(_strip(e['r'])['args'][1]) or {}).get('cv') == 1 for e in cl2) and \
            len({show(_strip(e['r'])['args'][2]) for e in cl2}) == 1 and all(scaled_self(e) for e in cl2) and len({e['l'].get('id') for e in cl2}) == 2
        rep.ob(clause, 'K12 range', 'single-legal-move clamp scales both limits the same way into [1, const]', ok, st.where, str(shapes), st.sname)


def c2_order(fb, rep):
    clause = 'C06.2'
    eff = Effects(fb, 'EngineControl')
    ct = fb.find1('EngineControl::computeTimeLimit')
    sp = fb.find1('EngineControl::setupPosition')
    if rep.need(clause, ct, 'EngineControl::computeTimeLimit') and rep.need(clause, sp, 'EngineControl::setupPosition'):
        reads = set()
        for b, i, e in ct.events():
            if e.get('k') == 'acc' and isinstance(e.get('e'), dict) and e['e'].get('k') == 'mem' and (ap(e['e']) or '').startswith('this.') and e.get('a') in ('r', 'cmcall', 'arg'):
                reads.add(ap(e['e'])[5:].split('.')[0])
        dep = sorted(reads & {f for f in eff.may_write(sp) if not f.endswith('[]')})
        rep.ob(clause, 'K16 dependency', 'computeTimeLimit depends on state that setupPosition establishes', bool(dep), ct.where, 'fields: %s' % dep, ct.sname)
        for name in ('EngineControl::startSearch', 'EngineControl::startPonder'):
            f = fb.find1(name)
            if rep.need(clause, f, name):
                R.dominated_by(rep, f, clause, '%s: setupPosition() precedes computeTimeLimit() (limits belong to this position\'s side to move)' % name.split('::')[-1],
                               R.is_named_call('EngineControl::computeTimeLimit'), R.is_named_call('EngineControl::setupPosition'))
                R.dominated_by(rep, f, clause, '%s: computeTimeLimit() precedes startThread()' % name.split('::')[-1],
                               R.is_named_call('EngineControl::startThread'), R.is_named_call('EngineControl::computeTimeLimit'))
    stp = fb.find1('EngineControl::stopThread')
    if rep.need(clause, stp, 'EngineControl::stopThread'):
        # when a search object exists, timeLimit(0,0) precedes waitStop
        seen = []
        from ..flow import Flow

        def tr(e, c, pos):
            if e.get('k') == 'call' and cname(e) == 'Search::timeLimit':
                a = e.get('args', [])
                z = len(a) >= 2 and (a[0] or {}).get('cv') == 0 and (a[1] or {}).get('cv') == 0
                return ['zeroed' if z else c]
            if e.get('k') == 'call' and cname(e) == 'EngineMainThread::waitStop':
                seen.append(c)
            return [c]

        def rf(cond, truth, c):
            ce, pol = strip_not(cond)
            if isinstance(ce, dict) and ce.get('k') == 'call' and cname(ce).split('::')[-1] == 'operator bool' and ap(ce.get('recv')) == 'this.sc':
                if (truth == pol) is False:
                    return ['nosearch']
            return [c]
        Flow(stp, tr, rf).run({'open'})
        rep.ob(clause, 'K2 must-precede', 'stopThread: a running search gets timeLimit(0,0) before stopThread waits for it', bool(seen) and set(seen) <= {'zeroed', 'nosearch'},
               stp.where, 'states at waitStop: %s' % sorted(set(seen)), stp.sname)
    ph = fb.find1('EngineControl::ponderHit')
    if rep.need(clause, ph, 'EngineControl::ponderHit'):
        def clears_ponder(e):
            return e is not None and e.get('k') == 'call' and ap(e.get('recv')) == 'this.ponder' and cname(e).split('::')[-1] in ('operator=', 'store')
        for b, i, e in ph.find_events(clears_ponder):
            # under sc: timeLimit precedes
            seen = []
            from ..flow import Flow

            def tr(ev, c, pos):
                if ev.get('k') == 'call' and cname(ev) == 'Search::timeLimit':
                    return ['installed']
                if ev is e:
                    seen.append(c)
                return [c]

            def rf(cond, truth, c):
                ce, pol = strip_not(cond)
                if isinstance(ce, dict) and ce.get('k') == 'call' and cname(ce).split('::')[-1] == 'operator bool' and ap(ce.get('recv')) == 'this.sc':
                    if (truth == pol) is False:
                        return ['nosearch']
                return [c]
            Flow(ph, tr, rf).run({'open'})
            rep.ob(clause, 'K2 must-precede', 'ponderHit installs the time limits before it releases the ponder flag', bool(seen) and set(seen) <= {'installed', 'nosearch'},
                   R.site(ph, e), 'states: %s' % sorted(set(seen)), ph.sname)
        # the limits installed are the computed ones
        tl = [e for _, _, e in ph.events() if e.get('k') == 'call' and cname(e) == 'Search::timeLimit']
        ok = bool(tl) and all([ap(_strip(a)) for a in e.get('args', [])[:3]] == ['this.minTimeLimit', 'this.maxTimeLimit', 'this.earlyStopPercentage'] for e in tl)
        rep.ob(clause, 'K15 provenance', 'ponderHit installs the limits computed for this go', ok, ph.where, '', ph.sname)
    st = fb.find1('EngineControl::startThread')
    if rep.need(clause, st, 'EngineControl::startThread'):
        tl = [(b, i, e) for b, i, e in st.events() if e.get('k') == 'call' and cname(e) == 'Search::timeLimit']
        rep.floor(clause, 'timeLimit hand-over in startThread', len(tl), 1)
        for b, i, e in tl:
            w = st.path_avoiding((b, i), lambda ev: ev is not None and ev.get('k') == 'asg' and isinstance(ev.get('l'), dict) and ev['l'].get('n') in ('minTimeLimit', 'maxTimeLimit', 'maxDepth'), R.never)
            rep.ob(clause, 'K2 must-precede', 'startThread: limits are not modified after they were handed to the search', w is None, R.site(st, e), '', st.sname)
            R.must_pass_between(rep, st, clause, 'startThread: limits are handed to the search before the search is started', None,
                                R.is_named_call('EngineMainThread::startSearch'), lambda ev, _e=e: ev is _e)


def c3_polling(fb, rep):
    clause = 'C06.3'
    fs = [f for f in fb.find('Search::negaScout') if len(f.d.get('params', [])) == 6 and len(f.blocks) > 50]
    rep.floor(clause, 'negaScout instantiations', len(fs), 2)
    for f in fs:
        tag = f.name
        polls = [(b, i, e) for b, i, e in f.events() if e.get('k') == 'call' and cname(e).endswith('StopHandler::shouldStop')]
        if not polls:
            rep.broken(clause, 'no stop poll in ' + tag)
            continue
        pb, pi, pe = polls[0]
        g = G.guards_of(f, set(f.blocks), pb)
        # evaluated, not matched: the poll is unreachable while the counter is positive and reachable when it is 0 or below
        ctr = lambda v: (lambda t: ('v', v) if t.get('k') == 'mem' and ap(t) == 'this.nodesToGo' else None)
        polled = G.excluded_under(f, pb, ctr(1)) and not G.excluded_under(f, pb, ctr(0)) and not G.excluded_under(f, pb, ctr(-1))
        rep.ob(clause, 'K4 guard', '%s: the stop handler is polled when the node counter is exhausted' % tag, polled,
               R.site(f, pe), 'guards %s' % g, f.sname)
        # counter re-armed before polling
        rearm = [(b, i) for b, i, e in f.events() if e.get('k') == 'asg' and ap(e.get('l')) == 'this.nodesToGo' and ap(_strip(e.get('r'))) == 'this.nodesBetweenTimeCheck']
        rep.ob(clause, 'K2 must-precede', '%s: the counter is re-armed from nodesBetweenTimeCheck in the poll block' % tag, bool(rearm) and rearm[0][0] == pb, R.site(f, pe), '', f.sname)
        # a positive answer throws StopSearch
        brs = R.branch_blocks(f, lambda e: e.get('k') == 'call' and cname(e).endswith('StopHandler::shouldStop'))
        okt = False
        for bid, pol, t, fl in brs:
            okt = any(e.get('k') == 'throw' and 'StopSearch' in (e.get('t') or '') for e in f.blocks[t]['ev'])
        rep.ob(clause, 'K2 must-pass-through', '%s: shouldStop() == true throws StopSearch' % tag, okt, R.site(f, pe), '', f.sname)
        # the test block dominates every recursive descent: counter test precedes negaScout/quiesce calls
        test_blocks = [bid for bid, blk in f.blocks.items() if blk.get('term') and 'nodesToGo' in show(blk['term'].get('cond') or {})]
        for callee in ('Search::negaScout', 'Search::quiesce'):
            for b, i, e in f.events():
                if e.get('k') == 'call' and cname(e) == callee:
                    ok = any(tb in f.dominators().get(b, set()) for tb in test_blocks)
                    if not ok:
                        rep.ob(clause, 'K2 must-precede', '%s: the poll test dominates the descent at line-independent site' % tag, False, R.site(f, e), '', f.sname)
        rep.ob(clause, 'K2 must-precede', '%s: the poll test dominates every recursive descent' % tag, bool(test_blocks), R.site(f, pe), '', f.sname)
    # every make-move is followed by a counter decrement before the recursion
    n = 0
    for name in ('Search::negaScout', 'Search::quiesce', 'Search::iterativeDeepening', 'Search::quiescePos'):
        for f in fb.find(name):
            if len(f.blocks) < 8:
                continue
            for b, i, e in f.events():
                if e.get('k') == 'call' and cname(e) == 'Position::makeMove' and ap(e.get('recv')) == 'this.pos':
                    n += 1

                    def dec(ev):
                        return ev is not None and ev.get('k') == 'incdec' and ev.get('op') == '--' and ap(ev.get('e')) == 'this.nodesToGo'

                    def descend(ev):
                        return ev is None or (ev.get('k') == 'call' and cname(ev) in ('Search::negaScout', 'Search::quiesce', 'Search::negaScoutRoot', 'Position::unMakeMove'))
                    w = f.path_avoiding((b, i), descend, dec)
                    rep.ob(clause, 'K1 pairing', '%s: a node made at site #%d counts towards the poll interval' % (f.name if '<' in f.name else f.sname, n), w is None,
                           R.site(f, e), '', f.sname)
    rep.floor(clause, 'make-move sites of the search', n, 6)
    # poll interval bounded
    ss = fb.find1('Search::setStrength')
    if rep.need(clause, ss, 'Search::setStrength'):
        vals = [(_strip(e.get('r')) or {}) for _, _, e in ss.events() if e.get('k') == 'asg' and ap(e.get('l')) == 'this.nodesBetweenTimeCheck']
        consts = [v.get('cv') for v in vals if 'cv' in v]
        clamps = [v for v in vals if v.get('k') == 'call' and cname(v) == 'clamp']
        ok = consts == [1000] and all((_strip(c['args'][1]) or {}).get('cv') == 1 and ap(_strip(c['args'][2])) == 'this.nodesBetweenTimeCheck' for c in clamps) and len(clamps) == 1
        rep.ob(clause, 'K12 range', 'the poll interval is between 1 and 1000 nodes', ok, ss.where, 'constants %s, clamps %d' % (consts, len(clamps)), ss.sname)
    sh = fb.find1('Search::shouldStop')
    if rep.need(clause, sh, 'Search::shouldStop'):
        _limit_bounded(fb, rep, clause, sh)


def _limit_bounded(fb, rep, clause, sh):
    """K12: whatever shouldStop compares the elapsed time with is, on every path, bounded by the hard
    limit: the hard limit itself, the soft limit (soft <= hard by C06.1), a selection between bounded
    values, or std::min(anything, bounded).  A scaled soft limit without the cap can exceed the budget."""
    from .. import bbalg as B
    sites = []
    for bid, blk in sh.blocks.items():
        if bid in sh.dead:
            continue
        t = blk.get('term') or {}
        c = t.get('cond')
        if c is None:
            continue
        for n in walk(c):
            if n.get('k') == 'bin' and n.get('op') in ('>=', '>'):
                l = _strip(n.get('l'))
                if isinstance(l, dict) and l.get('k') == 'bin' and l.get('op') == '-' and any(ap(x) == 'this.tStart' for x in walk(l.get('r'))):
                    sites.append((bid, n))
    seen = set()
    uniq = []
    for bid, n in sites:
        k = show(n, 300)
        if k not in seen:
            seen.add(k)
            uniq.append((bid, n))
    rep.floor(clause, 'elapsed-time comparisons in shouldStop', len(uniq), 1)

    def bounded(t, depth=0):
        t = _strip(t)
        if not isinstance(t, dict) or depth > 20:
            return False
        if t.get('k') == 'ctor' and len(t.get('args', [])) == 1:
            return bounded(t['args'][0], depth + 1)
        p = ap(t)
        if p in ('this.maxTimeMillis', 'this.minTimeMillis'):
            return True
        if t.get('k') == 'call':
            n = cname(t)
            if n in ('RelaxedShared::operator long', 'RelaxedShared::get') or (n.startswith('RelaxedShared') and t.get('recv') is not None and not t.get('args')):
                return bounded(t.get('recv'), depth + 1)
            if n == 'std::min' and len(t.get('args', [])) == 2:
                return bounded(t['args'][0], depth + 1) or bounded(t['args'][1], depth + 1)
            if n == 'std::max' and len(t.get('args', [])) == 2:
                return bounded(t['args'][0], depth + 1) and bounded(t['args'][1], depth + 1)
        if t.get('k') == 'cond':
            return bounded(t['a'], depth + 1) and bounded(t['b'], depth + 1)
        return False
    for bid, n in uniq:
        lim = n.get('r')
        ids = B.var_ids(lim)
        track = B.relevant_ids(sh, ids)
        try:
            stores = B.sym_stores(sh, (bid, 0), track)
        except B.Unsupported as ex:
            rep.broken(clause, 'shouldStop: %s' % ex)
            continue
        bad = []
        for store, _ in stores:
            t = B.subst(lim, store)
            if not bounded(t):
                bad.append(show(t, 300))
        rep.ob(clause, 'K12 bound', 'shouldStop: the limit the elapsed time is compared with never exceeds the hard limit', not bad, '%s:%s' % (sh.file, sh.blocks[bid]['term'].get('ln')),
               'unbounded on some path: %s' % bad[0] if bad else '%d path class(es): hard limit, soft limit, or min(..., hard)' % len(stores), sh.sname)
        # selection: with searchNeedMoreTime set the limit is the hard limit itself, otherwise a soft-derived value
        oksel = bool(stores)
        fresh = True
        for store, _ in stores:
            t = _strip(B.subst(lim, store))
            while isinstance(t, dict) and t.get('k') == 'ctor' and len(t.get('args', [])) == 1:
                t = _strip(t['args'][0])
            if not (isinstance(t, dict) and t.get('k') == 'cond' and any(ap(x) == 'this.searchNeedMoreTime' for x in walk(t.get('c')))):
                oksel = False
                continue
            a_paths = {ap(x) for x in walk(t['a']) if x.get('k') == 'mem'}
            b_paths = {ap(x) for x in walk(t['b']) if x.get('k') == 'mem'}
            if 'this.maxTimeMillis' not in a_paths or 'this.minTimeMillis' in a_paths or 'this.minTimeMillis' not in b_paths:
                oksel = False
            if not ({'this.maxTimeMillis', 'this.minTimeMillis'} <= (a_paths | b_paths)):
                fresh = False
        rep.ob(clause, 'K15 provenance', 'shouldStop selects the hard limit when more time is needed, else the soft limit', oksel, sh.where, '', sh.sname)
        rep.ob(clause, 'K15 provenance', 'shouldStop reads the shared (RelaxedShared) limits afresh on every poll', fresh and bool(stores), sh.where, '', sh.sname)
        # `return true` is reached through (limit >= 0 && elapsed >= limit)
        limv = _strip(lim)
        okc = False
        for b2, blk in sh.blocks.items():
            t = blk.get('term') or {}
            c = t.get('cond')
            if c is None or t.get('c') != 'IfStmt' or not blk['succ']:
                continue
            tgt = blk['succ'][0]
            rets = [e for e in sh.blocks[tgt]['ev'] if e.get('k') == 'ret' and (e.get('e') or {}).get('cv') == 1]
            if not rets:
                continue
            has_cmp = any(x is n or show(x, 300) == show(n, 300) for x in walk(c))
            has_nonneg = any(x.get('k') == 'bin' and x.get('op') == '>=' and show(_strip(x.get('l'))) == show(limv) and (_strip(x.get('r')) or {}).get('cv') == 0 for x in walk(c))
            if has_cmp and has_nonneg:
                okc = True
        rep.ob(clause, 'K4 guard', 'shouldStop answers true when a limit is set and elapsed >= the selected limit', okc, sh.where, '', sh.sname)


def nonpositive_clock(fb, rep, clause):
    """K12 (used by C05): a `go` with a clock must never degenerate into an unlimited search.  A remaining time
    <= 0 for the side to move (the flag has fallen; graphical interfaces do send such values) must still give
    non-negative limits - the search treats a negative limit as "no limit" and would never answer by itself."""
    ct = fb.find1('EngineControl::computeTimeLimit')
    if rep.need(clause, ct, 'EngineControl::computeTimeLimit') is None:
        return
    roles = _roles(ct)
    if rep.need(clause, roles.get('time'), "the local holding the mover's remaining time") is None or rep.need(clause, roles.get('margin'), 'the safety margin local') is None:
        return
    env = {}
    for p in ('bufferTime', 'maxTimeUsage', 'timeMaxRemainingMoves', 'timePonderHitRate', 'minTimeUsage'):
        bd = param_bounds(fb, p)
        if bd:
            env[p] = bd
    margin = roles['margin'].get('init')
    mid = roles['margin']['id']

    def subst(t):
        if isinstance(t, dict) and t.get('k') == 'var' and t.get('id') == mid:
            return margin
        if isinstance(t, dict):
            return {k: (subst(v) if isinstance(v, dict) else ([subst(x) for x in v] if isinstance(v, list) else v)) for k, v in t.items()}
        return t
    n = 0
    for b, i, e in ct.events():
        if e.get('k') == 'asg' and e.get('op') == '=' and ap(e.get('l')) in ('this.minTimeLimit', 'this.maxTimeLimit'):
            r = _strip(e.get('r'))
            if not (isinstance(r, dict) and r.get('k') == 'call' and cname(r) == 'clamp'):
                continue
            later = ct.path_avoiding((b, i), lambda ev, _l=ap(e['l']): ev is not None and ev.get('k') == 'asg' and ap(ev.get('l')) == _l, R.never)
            if later is not None:
                continue
            n += 1
            fld = ap(e['l'])[5:]
            r = dict(r, args=[_inline(a_, _single_defs(ct), {roles['time']['id'], mid}) for a_ in r['args']])
            tree2 = {'k': 'call', 'n': 'clamp', 'f': r.get('f'), 'args': [{'k': 'var', 'n': '#any'}, r['args'][1], subst(_strip(r['args'][2]))]}
            env2 = dict(env)
            env2[roles['time']['n']] = (-10 ** 7, 0)
            env2['#any'] = (-2 ** 31, 2 ** 31 - 1)
            try:
                lo, hi = ieval(tree2, env2)
                rep.ob(clause, 'K12 range', 'computeTimeLimit, clock path: %s is not negative when the remaining time is zero or negative (a negative limit means "search without limit")' % fld,
                       lo >= 0, R.site(ct, e), 'interval of the clamped value for a remaining time in -10^7..0: [%s, %s]' % (lo, hi), ct.sname)
            except Undecided as ex:
                rep.broken(clause, 'interval engine (non-positive clock): %s' % ex)
    rep.floor(clause, 'final clock-path limit definitions', n, 2)


# ----------------------------------------------------------------------------- .4

def c4_options_before_limits(fb, rep, clause='C06.4'):
    """K2: option values are changed by the engine thread (Parameters::set is confined to it, C05.6) from a queue the
    protocol thread fills.  The protocol thread reads options itself when it handles `go` (BufferTime and the other
    time-management parameters in computeTimeLimit, strength / MultiPV / book options in startThread).  So on every go
    path the queue must have been drained - waitOptionsSet(), after the running search was stopped - before the first
    such read; otherwise `setoption name BufferTime ...` followed at once by `go` budgets with the old buffer."""
    st = fb.find1('EngineControl::stopThread')
    if rep.need(clause, st, 'EngineControl::stopThread') is None:
        return
    w = st.path_avoiding((st.entry, -1), R.at_exit, R.is_named_call('EngineMainThread::waitOptionsSet'))
    rep.ob(clause, 'K2 must-pass-through', 'stopThread waits until every queued option was applied, on every path', w is None, st.where,
           '' if w is None else 'path without waitOptionsSet: ' + ' -> '.join('B%s@%s' % x for x in w[-4:]), st.sname)
    R.dominated_by(rep, st, clause, 'stopThread: the running search is stopped before waiting for the option queue (else the wait blocks the protocol thread during a search)',
                   R.is_named_call('EngineMainThread::waitOptionsSet'), R.is_named_call('EngineMainThread::waitStop'))

    def reads_options(fn, depth=0, seen=None):
        seen = seen if seen is not None else set()
        if fn is None or not fn.has_cfg or fn.key in seen or depth > 3:
            return False
        seen.add(fn.key)
        for _, _, e in fn.events():
            for n in walk(e):
                if n.get('k') == 'var' and str(n.get('q', '')).startswith('UciParams::'):
                    return True
                if n.get('k') == 'call' and n.get('repo') and cname(n).startswith('EngineControl::') and reads_options(fb.find1(cname(n)), depth + 1, seen):
                    return True
        for bid, blk in fn.blocks.items():
            c = (blk.get('term') or {}).get('cond')
            for n in (walk(c) if c is not None else []):
                if n.get('k') == 'var' and str(n.get('q', '')).startswith('UciParams::'):
                    return True
        return False
    n = 0
    for nm in ('EngineControl::startSearch', 'EngineControl::startPonder'):
        f = fb.find1(nm)
        if rep.need(clause, f, nm) is None:
            continue
        for b, i, e in f.events():
            if e.get('k') == 'call' and e.get('repo') and cname(e).startswith('EngineControl::') and cname(e) != 'EngineControl::stopThread' and reads_options(fb.find1(cname(e))):
                n += 1
                w = f.path_avoiding((f.entry, -1), lambda x, _e=e: x is _e, R.is_named_call('EngineControl::stopThread'))
                rep.ob(clause, 'K2 must-precede', '%s: %s reads option values only after the option queue was drained (stopThread)' % (nm.split('::')[-1], cname(e).split('::')[-1]),
                       w is None, R.site(f, e), '', f.sname)
    rep.floor(clause, 'option-reading calls on the go paths', n, 4)


# ----------------------------------------------------------------------------- .6

def c6_generation_polls_limit(fb, rep):
    """K4/K12 the on-demand tablebase generation runs inside the search's time budget and can take seconds; the search cannot
    poll while it runs, so every phase of TBGenerator::generate (each outermost loop that sweeps the position index space)
    must itself give up when the shared hard limit says so - in both ways the limit can say it: 0 (`stop`) and a positive
    limit that has already passed (a `ponderhit` that arrives during the generation sets one).  The guards of the
    `return false` statements of each phase are evaluated three-valued with the limit set to 0 / to 1 ms, the time at entry
    0 and every later clock reading unbounded; a phase passes if some `return false` has no guard that evaluates to false."""
    clause = 'C06.6'
    cands = [f for f in fb.funcs.values() if f.has_cfg and f.sname == 'TBGenerator::generate' and len(f.blocks) > 30]
    if rep.need(clause, cands, 'TBGenerator::generate') is None:
        return
    n_phase = 0
    for f in sorted(cands, key=lambda x: x.name):
        params = f.d.get('params', [])
        lim = next((p_['id'] for p_ in params if 'RelaxedShared' in (p_.get('t') or '')), None)
        if rep.need(clause, lim, 'the shared limit parameter of ' + f.name) is None:
            continue
        loops = f.natural_loops()
        in_loop = set().union(*loops.values()) if loops else set()
        decl = {}
        for b, i, e in f.events():
            if e.get('k') == 'decl':
                for v in e.get('vars', []):
                    decl[v['id']] = (b, v)
        assigned = set()
        for b, i, e in f.events():
            for n in walk(e):
                if isinstance(n, dict) and n.get('k') in ('asg', 'incdec'):
                    tg = _strip(n.get('l') if n.get('k') == 'asg' else n.get('e'))
                    if isinstance(tg, dict) and tg.get('k') == 'var':
                        assigned.add(tg.get('id'))
        npos = {vid for vid, (b, v) in decl.items() if any(isinstance(n, dict) and n.get('k') == 'call' and cname(n).split('::')[-1] == 'nPositions' for n in walk(v.get('init')))}

        def ev(t, L, depth=0):
            """number, bool or None (unknown)"""
            t = _strip(t)
            if not isinstance(t, dict) or depth > 12:
                return None
            if 'cv' in t:
                return t['cv']
            k = t.get('k')
            if k == 'flt':
                return t.get('v')
            if k == 'paren':
                return ev(t.get('e'), L, depth + 1)
            if k == 'call':
                r = _strip(t.get('recv'))
                if isinstance(r, dict) and r.get('k') == 'var' and r.get('id') == lim and not t.get('args'):
                    return L                        # RelaxedShared::operator T / get()
                if cname(t).split('::')[-1] == 'currentTime':
                    return float('inf')
                return None
            if k == 'var':
                if t.get('id') == lim:
                    return L
                d = decl.get(t.get('id'))
                if d is not None and t['id'] not in assigned and d[1].get('init') is not None:
                    init = _strip(d[1]['init'])
                    if isinstance(init, dict) and init.get('k') == 'call' and cname(init).split('::')[-1] == 'currentTime':
                        return 0.0 if d[0] not in in_loop else float('inf')     # entry time / any later reading
                    return ev(init, L, depth + 1)
                return None
            if k == 'un' and t.get('op') == '!':
                v = ev(t.get('e'), L, depth + 1)
                return None if v is None else (not v)
            if k == 'bin':
                op = t.get('op')
                a, b = ev(t.get('l'), L, depth + 1), ev(t.get('r'), L, depth + 1)
                if op == '&&':
                    if (a is not None and not bool(a)) or (b is not None and not bool(b)):
                        return False
                    return None if a is None or b is None else True
                if op == '||':
                    if (a is not None and bool(a)) or (b is not None and bool(b)):
                        return True
                    return None if a is None or b is None else False
                if a is None or b is None:
                    return None
                try:
                    if op in ('+', '-', '*'):
                        r = {'+': a + b, '-': a - b, '*': a * b}[op]
                        return None if r != r else r
                    if op in ('<', '<=', '>', '>=', '==', '!='):
                        return {'<': a < b, '<=': a <= b, '>': a > b, '>=': a >= b, '==': a == b, '!=': a != b}[op]
                except Exception:
                    return None
            return None

        phases = []
        for h, body in sorted(loops.items()):
            if any(h in loops[o] and o != h for o in loops):
                continue
            sweeps = [h2 for h2 in loops if h2 in body and any(isinstance(n, dict) and n.get('k') == 'var' and n.get('id') in npos
                                                                for n in walk((f.blocks[h2].get('term') or {}).get('cond')))]
            # ... and decodes positions while doing so (the closing linear pass that only rewrites table values is one cheap
            # sweep, shorter than a pass of the phases it follows)
            decodes = any(e.get('k') == 'call' and cname(e) == 'TBPosition::setIndex' for b in body for e in f.blocks[b]['ev'])
            if sweeps and decodes:
                phases.append((h, body))
        k = 0
        for h, body in sorted(phases, key=lambda x: (f.blocks[x[0]].get('term') or {}).get('ln') or 0):
            k += 1
            n_phase += 1
            # the returns of the phase: blocks left from the loop body that return (they are not part of the natural loop,
            # since they never reach the back edge)
            rets, seen_r = [], set()
            for b in sorted(body):
                for s_ in f.blocks[b]['succ']:
                    x, steps = s_, 0
                    while x in f.blocks and x not in body and steps < 4 and x not in seen_r:
                        seen_r.add(x)
                        re_ = [e for e in f.blocks[x]['ev'] if e.get('k') == 'ret']
                        if re_:
                            if (_strip(re_[0].get('e')) or {}).get('cv') == 0:
                                rets.append((x, re_[0], G.guard_trees(f, set(f.blocks), x)))
                            break
                        if len(f.blocks[x]['succ']) != 1:
                            break
                        x, steps = f.blocks[x]['succ'][0], steps + 1
            for name, L in (('0 (stop)', 0), ('a positive limit that has passed (ponderhit)', 1)):
                live = []
                for b, e, gs in rets:
                    vals = [ev(c, L) for c, _ in gs]
                    if not any(v is not None and bool(v) != side for v, (_, side) in zip(vals, gs)):
                        live.append(e.get('ln'))
                rep.ob(clause, 'K4 guard', '%s: phase %d of the generation gives up when the shared limit is %s' % (f.name.replace('TBGenerator', 'TBGen'), k, name), bool(live),
                       '%s:%s' % (f.file, (f.blocks[h].get('term') or {}).get('ln')), '%d `return false` in the phase, taken under this limit: lines %s' % (len(rets), live), f.sname)
    rep.floor(clause, 'phases of TBGenerator::generate', n_phase, 6)


# ----------------------------------------------------------------------------- .7

def c7_time_origin(fb, rep):
    """K13 provenance of the time origin.  All limits are measured from Search::tStart.  The budget of a `go` runs from the
    moment the command is received, not from the moment the engine thread gets round to searching (the previous search may
    still be stopping, a hash resize may be pending).  So the chain reception time -> SearchParams -> startThread ->
    Search::timeLimit -> tStart must be unbroken: (1) timeLimit stores one of its parameters in tStart; (2) startThread passes
    one of its own parameters in that position, explicitly; (3) every caller of startThread passes a field of its
    SearchParams argument there; (4) that field is initialised by the SearchParams constructor from its argument, which
    the command handler takes from a clock reading made before the command is dispatched."""
    clause = 'C06.7'
    tl = fb.find1('Search::timeLimit')
    st = fb.find1('EngineControl::startThread')
    if rep.need(clause, tl, 'Search::timeLimit') is None or rep.need(clause, st, 'EngineControl::startThread') is None:
        return
    tl_params = [p_['id'] for p_ in tl.d.get('params', [])]
    k = None
    for b, i, e in tl.events():
        if e.get('k') == 'asg' and e.get('op') == '=' and ap(e.get('l')) == 'this.tStart':
            r = _strip(e.get('r'))
            if isinstance(r, dict) and r.get('k') == 'var' and r.get('id') in tl_params:
                k = tl_params.index(r['id'])
    rep.ob(clause, 'K13 provenance', 'Search::timeLimit stores one of its parameters as the time origin tStart', k is not None, tl.where, 'parameter #%s' % (k + 1 if k is not None else '?'), tl.sname)
    if k is None:
        return
    st_params = [p_['id'] for p_ in st.d.get('params', [])]
    calls = [(b, i, e) for b, i, e in st.events() if e.get('k') == 'call' and cname(e) == 'Search::timeLimit']
    rep.floor(clause, 'Search::timeLimit calls in startThread', len(calls), 1)
    j = None
    for b, i, e in calls:
        a = e['args'][k] if len(e.get('args', [])) > k else None
        a0 = _strip(a)
        explicit = isinstance(a, dict) and not a.get('defarg') and isinstance(a0, dict) and a0.get('k') == 'var' and a0.get('id') in st_params
        rep.ob(clause, 'K13 provenance', 'startThread hands its own start-time parameter to Search::timeLimit (not the default "now")', explicit, R.site(st, e),
               'argument #%d: %s' % (k + 1, show(a, 60) if a is not None else 'defaulted'), st.sname)
        if explicit:
            j = st_params.index(a0['id'])
    if j is None:
        return
    fld = None
    n_callers = 0
    for f in sorted((f for f in fb.funcs.values() if f.has_cfg and f.d.get('cls') == 'EngineControl'), key=lambda x: x.name):
        for b, i, e in f.events():
            if e.get('k') == 'call' and cname(e) == 'EngineControl::startThread' and len(e.get('args', [])) > j:
                n_callers += 1
                a = _strip(e['args'][j])
                ok = isinstance(a, dict) and a.get('k') == 'mem' and isinstance(_strip(a.get('b')), dict) and _strip(a['b']).get('vk') == 'param' and 'SearchParams' in (_strip(a['b']).get('t') or '')
                rep.ob(clause, 'K13 provenance', '%s passes the reception time carried by its SearchParams to startThread' % f.sname.split('::')[-1], ok, R.site(f, e), show(e['args'][j], 60), f.sname)
                if ok:
                    fld = a.get('f')
    rep.floor(clause, 'callers of startThread', n_callers, 2)
    if fld is None:
        return
    ctor = next((g for g in fb.funcs.values() if g.has_cfg and g.sname == 'SearchParams::SearchParams' and len(g.d.get('params', [])) == 1), None)
    if rep.need(clause, ctor, 'SearchParams::SearchParams(S64)') is None:
        return
    cp = ctor.d['params'][0]['id']
    from_arg = any(e.get('k') == 'minit' and e.get('f') == fld and (_strip(e.get('init')) or {}).get('id') == cp for _, _, e in ctor.events())
    rep.ob(clause, 'K13 provenance', 'the SearchParams constructor stores its argument in that field', from_arg, ctor.where, fld, ctor.sname)
    hc = fb.find1('UCIProtocol::handleCommand')
    if rep.need(clause, hc, 'UCIProtocol::handleCommand') is None:
        return
    clock_locals = {v['id']: (b, i) for b, i, e in hc.events() if e.get('k') == 'decl' for v in e.get('vars', [])
                    if isinstance(_strip(v.get('init')), dict) and _strip(v['init']).get('k') == 'call' and cname(_strip(v['init'])) == 'currentTimeMillis'}
    n_sp = 0
    for b, i, e in hc.events():
        if e.get('k') == 'decl':
            for v in e.get('vars', []):
                init = v.get('init')
                if isinstance(init, dict) and init.get('k') == 'ctor' and init.get('cls') == 'SearchParams' and init.get('args'):
                    n_sp += 1
                    a = _strip(init['args'][0])
                    ok = isinstance(a, dict) and a.get('k') == 'var' and a.get('id') in clock_locals and hc.pos_dominates(clock_locals[a['id']], (b, i))
                    rep.ob(clause, 'K13 provenance', 'handleCommand builds the SearchParams of a go from a clock reading taken when the command arrived', ok, R.site(hc, e), show(init, 60), hc.sname)
    rep.floor(clause, 'SearchParams objects built in handleCommand', n_sp, 1)


# ----------------------------------------------------------------------------- .9

def c9_soft_limit_stays_below_hard(fb, rep):
    """K12 soft <= hard also where the search moves its own soft limit.  EngineControl's arithmetic keeps 1 <= soft <= hard
    (C06.1); the search extends its soft limit once, by the time an on-demand tablebase took to generate (D16).  Every
    write of the soft limit inside Search other than the setter must be the minimum of something and a reading of the hard
    limit: for `go movetime` the stop test compares with the soft limit only, so a soft limit above the hard one is the
    time the move actually takes."""
    clause = 'C06.9'
    n = 0
    for f in sorted(fb.funcs.values(), key=lambda x: x.key):
        if not f.has_cfg or not R.in_prog(f) or f.d.get('cls') != 'Search' or f.sname in ('Search::timeLimit', 'Search::Search'):
            continue
        hard_copies = {v['id'] for _, _, e in f.events() if e.get('k') == 'decl' for v in e.get('vars', [])
                       if v.get('init') is not None and any(isinstance(x, dict) and x.get('k') == 'mem' and ap(x) == 'this.maxTimeMillis' for x in walk(v['init']))}
        for b, i, e in f.events():
            tgt = e.get('l') if e.get('k') == 'asg' else (e.get('recv') if e.get('k') == 'call' and e.get('op') == '=' else None)
            if tgt is None or ap(tgt) != 'this.minTimeMillis':
                continue
            val = e.get('r') if e.get('k') == 'asg' else (e.get('args') or [None])[0]
            v0 = _strip(val)
            if isinstance(v0, dict) and 'cv' in v0 and v0['cv'] < 0:
                continue            # "no limit" (initialisation)
            n += 1
            capped = isinstance(v0, dict) and v0.get('k') == 'call' and cname(v0) == 'std::min' and \
                any((_strip(a) or {}).get('id') in hard_copies or ap(_strip(a)) == 'this.maxTimeMillis' or
                    any(isinstance(x, dict) and x.get('k') == 'mem' and ap(x) == 'this.maxTimeMillis' for x in walk(a)) and (_strip(a) or {}).get('k') in ('call', 'cast', 'mem')
                    for a in v0.get('args', []))
            rep.ob(clause, 'K12 range', '%s: a new soft limit is the minimum of its computed value and the hard limit' % f.sname, capped, R.site(f, e), show(val, 90), f.sname)
    rep.floor(clause, 'writes of the soft limit inside Search outside the setter', n, 1)
