"""Shared set-up for properties that need thread roles: the two call-graph views and the
checked premises they rely on (DESIGN 1.3, call-graph engine)."""
import re
from ..callgraph import CallGraph
from ..core import cname, walk, ap
from .. import rules as R

STOP_VIRT = 'Search::StopHandler::shouldStop'


def graphs(fb):
    """(engine-side graph, helper-side graph)."""
    cg_e = getattr(fb, '_cg_e', None)
    if cg_e is None:
        cg_e = CallGraph(fb, virt_only={STOP_VIRT: {'Search::DefaultStopHandler'}})
        cg_h = CallGraph(fb, virt_only={STOP_VIRT: {'ThreadStopHandler'}})
        fb._cg_e, fb._cg_h = cg_e, cg_h
    return fb._cg_e, fb._cg_h


def check_premises(fb, rep, clause):
    cg_e, cg_h = graphs(fb)
    cg_e.premises(rep, clause)
    # (ii) a Search object has a ThreadStopHandler iff it is the local of WorkerThread::doSearch
    sites = [(f, b, i, e) for (f, b, i, e) in cg_e.call_sites('Search::setStopHandler') if R.in_prog(f)]
    callers = sorted({f.sname for f, _, _, _ in sites})
    rep.ob(clause, 'premise (call-graph refinement)', 'Search::setStopHandler is only called from WorkerThread::doSearch',
           callers == ['WorkerThread::doSearch'], '', 'callers: %s' % callers, '')
    ds = fb.find1('WorkerThread::doSearch')
    if ds is None:
        rep.broken(clause, 'premise anchor missing: WorkerThread::doSearch')
        return
    for f, b, i, e in sites:
        if f is not ds:
            continue
        r = e.get('recv')
        is_local = isinstance(r, dict) and r.get('k') == 'var' and r.get('vk') == 'local'
        arg_ok = any(n.get('k') == 'call' and 'make_unique<ThreadStopHandler' in (n.get('n') or '') or
                     (n.get('k') == 'var' and 'ThreadStopHandler' in (n.get('t') or ''))
                     for a in e.get('args', []) for n in walk(a))
        rep.ob(clause, 'premise (call-graph refinement)', 'WorkerThread::doSearch installs a ThreadStopHandler on its local Search',
               is_local and arg_ok, R.site(f, e), '', f.sname)
        # ... before the search runs on that object
        rid = r.get('id') if is_local else None

        def uses_search(ev, _rid=rid):
            return ev is not None and ev.get('k') == 'call' and cname(ev).startswith('Search::negaScout') and \
                isinstance(ev.get('recv'), dict) and ev['recv'].get('id') == _rid
        R.dominated_by(rep, ds, clause, 'WorkerThread::doSearch: setStopHandler precedes negaScout', uses_search,
                       lambda ev: ev is e)
    # helper threads construct Search objects only there
    helper_root = fb.find1('WorkerThread::mainLoop')
    if helper_root is None:
        rep.broken(clause, 'premise anchor missing: WorkerThread::mainLoop')
        return
    reach = cg_h.reachable([helper_root.key])
    makers = set()
    for k in reach:
        f = fb.funcs.get(k)
        if f is None or not f.has_cfg:
            continue
        for b, i, e in f.events():
            if e.get('k') == 'ctor' and cname(e) == 'Search::Search':
                makers.add(f.sname)
            if e.get('k') == 'call' and re.search(r'<Search[,>]', e.get('n') or '') and cname(e).split('::')[-1] in ('make_unique', 'make_shared'):
                makers.add(f.sname)
    rep.ob(clause, 'premise (call-graph refinement)', 'helper threads construct Search objects only in WorkerThread::doSearch',
           makers <= {'WorkerThread::doSearch'}, '', 'constructing functions reachable from WorkerThread::mainLoop: %s' % sorted(makers), '')
    # the default handler is installed by the constructor
    ctor = [f for f in fb.find('Search::Search')]
    ok = False
    for c in ctor:
        for b, i, e in c.events():
            txt = [n for n in walk(e) if n.get('k') == 'call' and 'DefaultStopHandler' in (n.get('n') or '')]
            if txt:
                ok = True
    rep.ob(clause, 'premise (call-graph refinement)', 'Search::Search installs the DefaultStopHandler', ok, '', '', 'Search::Search')
