"""C18 - the opening book never yields an illegal move.  Clauses decided:
 .1 K3/K2 validate-before-return in Book::getBookMove (every candidate checked against the
        generated legal moves, with a per-candidate flag; the only non-empty result is produced
        after the all-candidates-legal loop; empty total weight -> no move)
 .2 K10 polyglot tables: promotion codes, castling conversions and bit layout agree between
        encoder and decoder; the built-in book's promotion tables are inverse
 .3 K2  damaged files: a failed read zero-fills the entry before it is decoded; the binary
        search starts from (lo = -1, hi = n) and only reads indices inside the file
"""
from ..core import cname, ap, walk, show, strip_not, eff_cond
from ..peval import Evaluator, Unknown
from ..validate import membership_tests
from .. import regions as G
from .. import rules as R

EXPLANATION = (
    'Static rules over the resolved program. Decided: (1) in Book::getBookMove the result is cleared first; every candidate entry is '
    'compared with the generated legal move list using a flag that is reset for each candidate, a failed membership test returns '
    'with the empty move, the only non-empty assignment of the result lies after that loop and takes the move from the same validated '
    'list, and a non-positive total weight returns no move; (2) PolyglotBook::getPGMove and getMove use inverse promotion codes, the '
    'same bit layout (to-file 0-2, to-row 3-5, from-file 6-8, from-row 9-11, promotion 12-14) and inverse castling conversions for '
    'all four castling moves; Book::pieceToProm / promToPiece are inverse (constant evaluation over all codes); (3) a failed file read '
    'zero-fills the entry before deSerialize uses it, the binary search keeps lo = -1 / hi = numEntries as exclusive bounds so only '
    'indices 0..n-1 are read, and the scan loop is bounded by numEntries; (4) the weight accumulator of getBookMove is wide enough for (widest stored weight) x (largest entry count of a file) and the random pick is defined for every total (found and fixed defect D12: Random::nextInt never returns for a modulus above 2^30).'
    ' Added later; (6) the cumulative-weight test of getBookMove, replayed for every weight vector over {0..3} of length 1..4 and every draw, chooses entry k exactly weight(k) times. (1, extended) the legality filter is executed unconditionally. (7) the scan of the entries stored under a key ends only on a key mismatch or the end of the file: with equal keys no early exit is reachable, whatever weight or move the entry holds. (8) the castling terms of the polyglot key follow the published order (768 + 0..3: white short, white long, black short, black long). (1, revised) an entry that is not a legal move ends the probe with no move, or is removed from the candidates without the walk skipping its neighbour.')
UNDECIDED = 'that a corrupt file never produces a legal but wrong move; selection probabilities.'
ASSUMPTIONS = ['MoveGen::pseudoLegalMoves + removeIllegal produce exactly the legal moves (property C01)',
               'book files are smaller than 2^40 bytes (used only to bound the number of entries under one key in C18.4)']


def _strip(t):
    while isinstance(t, dict) and t.get('k') == 'cast':
        t = t.get('e')
    return t


def run(fb, rep, tier):
    c1_validate(fb, rep)
    c2_tables(fb, rep)
    c3_files(fb, rep)
    c4_weight_sum(fb, rep)
    c5_file_positions(fb, rep)
    c6_selection_rule(fb, rep)
    c7_scan_ends_on_key_mismatch_only(fb, rep)
    c8_polyglot_castle_terms(fb, rep)


def c1_validate(fb, rep):
    clause = 'C18.1'
    f = fb.find1('Book::getBookMove')
    if rep.need(clause, f, 'Book::getBookMove') is None:
        return
    tests = membership_tests(f)
    rep.floor(clause, 'membership validation tests in getBookMove', len(tests), 1)
    # result cleared first
    out_ids = {p_['id'] for p_ in f.d.get('params', []) if 'Move' in (p_.get('t') or '') and '&' in (p_.get('t') or '') and 'const' not in (p_.get('t') or '')}
    legal_ids = {(_strip(e_['args'][1]) or {}).get('id') for _, _, e_ in f.events() if e_.get('k') == 'call' and cname(e_) == 'MoveGen::removeIllegal' and len(e_.get('args', [])) >= 2}
    clears = [(b, i) for b, i, e in f.events() if e.get('k') == 'call' and cname(e).endswith('Move::operator=') and isinstance(e.get('recv'), dict) and e['recv'].get('id') in out_ids
              and any(n.get('k') == 'ctor' and not n.get('args') for n in walk((e.get('args') or [{}])[0]))]
    sets = [(b, i, e) for b, i, e in f.events() if e.get('k') == 'call' and cname(e).endswith('Move::operator=') and isinstance(e.get('recv'), dict) and e['recv'].get('id') in out_ids
            and not any(n.get('k') == 'ctor' and not n.get('args') for n in walk((e.get('args') or [{}])[0]))]
    rep.ob(clause, 'K2 must-precede', 'getBookMove clears the result before anything else can return', bool(clears) and all(f.pos_dominates(clears[0], (b, i)) for b, i, e in f.events() if e.get('k') == 'ret'),
           f.where, '', f.sname)
    rep.floor(clause, 'non-empty result assignments', len(sets), 1)
    for t in tests:
        rep.ob(clause, 'K3 validated candidate', 'getBookMove: the membership flag `%s` is reset for every candidate' % t['flag'], t['reset_ok'], '%s:%s' % (f.file, t['line']),
               '' if t['reset_ok'] else 'the flag keeps the value of an earlier candidate: after one legal entry every later entry passes unchecked', f.sname)
        # reject side returns without producing a move
        w = f.path_avoiding((t['reject'], -1), lambda ev: ev is not None and any(ev is s[2] for s in sets), lambda ev: ev is not None and ev.get('k') == 'ret')
        # ... or is taken out of the candidate list without the walk skipping its neighbour: an erase on the reject side, and on
        # the way from the erase back to the loop head the index is not advanced (or is stepped back first)
        tolerant = False
        if w is not None:
            erases = [(b_, i_, e_) for b_, i_, e_ in f.events() if e_.get('k') == 'call' and cname(e_).split('::')[-1] == 'erase' and 'BookEntry' in ((e_.get('recv') or {}).get('t') or '') + ((e_.get('recv') or {}).get('rc') or '')
                      and (b_ == t['reject'] or t['reject'] in f.dominators().get(b_, set()))]
            if erases and t['loops']:
                h_ = t['loops'][0]
                tolerant = True
                for b_, i_, e_ in erases:
                    inc = lambda ev: ev is not None and ev.get('k') == 'incdec' and ev.get('op') == '++'
                    dec = lambda ev: ev is not None and ((ev.get('k') == 'incdec' and ev.get('op') == '--') or (ev.get('k') == 'asg' and ev.get('op') == '-='))
                    hits_inc = f.path_avoiding((b_, i_), inc, dec) is not None
                    if hits_inc:
                        tolerant = False
        rep.ob(clause, 'K2 must-pass-through', 'getBookMove: an entry that is not a legal move ends the probe with no move, or is removed from the candidates without skipping its neighbour',
               w is None or tolerant, '%s:%s' % (f.file, t['line']), '' if w is None else ('removed on the reject side' if tolerant else 'the reject side reaches the result with the entry (or its neighbour) still a candidate'), f.sname)
        # the compared list is the legal move list; the candidate is the entry's move
        list_ok = any(n.get('k') == 'var' and n.get('id') in legal_ids for n in walk(t['list_tree']))
        cand0 = _strip(t['candidate_tree'])
        cand_ok = isinstance(cand0, dict) and cand0.get('k') == 'mem' and cand0.get('f', '').endswith('BookEntry::move')
        rep.ob(clause, 'K15 provenance', 'getBookMove validates the entry\'s own move against the generated legal moves', list_ok and cand_ok,
               '%s:%s' % (f.file, t['line']), 'compares %s with %s' % (t['candidate'], t['list']), f.sname)
        # the test is applied to every candidate: it sits in a loop over bookMoves
        rep.ob(clause, 'K2 loop shape', 'getBookMove validates every candidate (the test is inside the loop over all entries)', bool(t['loops']), '%s:%s' % (f.file, t['line']), '', f.sname)
        for b, i, e in sets:
            # the validation loop is complete before a move is produced: the assignment is not inside the validation loop and is dominated by its header
            hdrs = t['loops']
            ok = bool(hdrs) and all(h in f.dominators().get(b, set()) and not G._reaches(f, b, h) for h in hdrs[:1])
            rep.ob(clause, 'K2 must-precede', 'getBookMove: a move is produced only after all candidates were validated', ok, R.site(f, e), '', f.sname)
            src = show((e.get('args') or [{}])[0], 100)
            s0 = _strip((e.get('args') or [{}])[0])
            rep.ob(clause, 'K15 provenance', 'getBookMove returns a move taken from the validated entries', isinstance(s0, dict) and s0.get('k') == 'mem' and s0.get('f', '').endswith('BookEntry::move'),
                   R.site(f, e), src, f.sname)
    # the legal list is generated and filtered
    gen = [e for _, _, e in f.events() if e.get('k') == 'call' and cname(e) == 'MoveGen::pseudoLegalMoves']
    fil = [e for _, _, e in f.events() if e.get('k') == 'call' and cname(e) == 'MoveGen::removeIllegal']
    rep.ob(clause, 'K2 must-precede', 'getBookMove builds the legal move list with pseudoLegalMoves + removeIllegal', bool(gen) and bool(fil), f.where, '', f.sname)
    # ... for every position: the filter call is not conditional (a pinned piece or a king step onto an attacked square is
    # pseudo-legal in positions that are not in check too) and lies on every path to the validation of the candidates
    fil_ev = [(b, i, e) for b, i, e in f.events() if e.get('k') == 'call' and cname(e) == 'MoveGen::removeIllegal']
    gen_ev = [(b, i, e) for b, i, e in f.events() if e.get('k') == 'call' and cname(e) == 'MoveGen::pseudoLegalMoves']
    cond = []
    if fil_ev and gen_ev:
        gb = gen_ev[0][0]
        doms_ = f.dominators()
        after = {x for x in f.blocks if gb in doms_.get(x, set())}
        for fb_, fi_, fe_ in fil_ev:
            cond += [show(c, 50) for c, side in G.guard_trees(f, after, fb_)]
    rep.ob(clause, 'K4 guard', 'getBookMove: the legality filter is applied unconditionally to the generated list', bool(fil_ev) and not cond, R.site(f, fil_ev[0][2]) if fil_ev else f.where,
           'conditions between generation and filter: %s' % cond, f.sname)
    # sum <= 0 -> return
    sum_ids = {e_['l'].get('id') for _, _, e_ in f.events() if e_.get('k') == 'asg' and e_.get('op') == '+=' and isinstance(e_.get('l'), dict) and
               any(n.get('k') == 'call' and cname(n) == 'Book::getWeight' for n in walk(e_.get('r') or {}))}
    brs = R.branch_blocks(f, lambda e: e.get('k') == 'bin' and e.get('op') == '<=' and isinstance(_strip(e.get('l')), dict) and _strip(e['l']).get('id') in sum_ids and (_strip(e.get('r')) or {}).get('cv') == 0)
    okz = False
    for bid, pol, t, fl in brs:
        okz = any(e.get('k') == 'ret' for e in f.blocks[t]['ev']) or f.path_avoiding((t, -1), lambda ev: ev is not None and any(ev is s[2] for s in sets), lambda ev: ev is not None and ev.get('k') == 'ret') is None
    rep.ob(clause, 'K4 guard', 'getBookMove: a non-positive total weight yields no move (and no division/modulo by it)', okz, f.where, '', f.sname)
    # weights are non-negative
    gw = fb.find1('Book::getWeight')
    if gw is not None:
        pass


def c2_tables(fb, rep):
    clause = 'C18.2'
    enc = fb.find1('PolyglotBook::getPGMove')
    dec = fb.find1('PolyglotBook::getMove')
    if rep.need(clause, enc, 'PolyglotBook::getPGMove') is None or rep.need(clause, dec, 'PolyglotBook::getMove') is None:
        return
    # encoder o decoder round trip by exhaustive constant evaluation of the two functions (names play no role):
    # for both sides, every origin / target pair, every promotion piece of the mover and a king or a non-king on
    # the origin square, getMove(getPGMove(m)) must give m back - castling included (king e1g1 <-> e1h1 ...)
    from ..peval import Evaluator, Unknown as EvUnknown
    W = {n: fb.const('Piece::' + n) for n in ('WKING', 'BKING', 'WPAWN', 'BPAWN', 'WKNIGHT', 'BKNIGHT', 'WBISHOP', 'BBISHOP', 'WROOK', 'BROOK', 'WQUEEN', 'BQUEEN', 'EMPTY')}
    state = {}

    def stub_from(ev, t, env, depth):
        return state['move'][0]

    def stub_to(ev, t, env, depth):
        return state['move'][1]

    def stub_prom(ev, t, env, depth):
        return state['move'][2]

    def stub_piece(ev, t, env, depth):
        sq = ev.eval(t['args'][0], env, depth)
        return state['piece'] if sq == state['move'][0] else W['EMPTY']

    def stub_wtm(ev, t, env, depth):
        return 1 if state['wtm'] else 0

    def stub_x(ev, t, env, depth):
        return ev.eval(t['recv'], env, depth) % 8

    def stub_y(ev, t, env, depth):
        return ev.eval(t['recv'], env, depth) // 8

    def ctor_hook(cls, args):
        if cls == 'Square' and len(args) == 2:
            return args[0] + 8 * args[1]
        if cls == 'Move' and len(args) >= 3:
            return ('Move', args[0], args[1], args[2])
        return None
    ev = Evaluator(fb, stubs={'Move::from': stub_from, 'Move::to': stub_to, 'Move::promoteTo': stub_prom, 'Position::getPiece': stub_piece,
                              'Position::isWhiteMove': stub_wtm, 'Square::getX': stub_x, 'Square::getY': stub_y}, ctor_hook=ctor_hook)
    code_param = (dec.d.get('params') or [{}, {}])[1].get('id')
    bad = []
    n_eval = 0
    try:
        for wtm in (True, False):
            own = 'W' if wtm else 'B'
            king, pawn = W[own + 'KING'], W[own + 'PAWN']
            home = 4 if wtm else 60
            proms = [W['EMPTY']] + [W[own + x] for x in ('KNIGHT', 'BISHOP', 'ROOK', 'QUEEN')]
            for frm in range(64):
                for to in range(64):
                    if to == frm:
                        continue
                    for piece in (king, pawn):
                        if piece == king and frm == home and to in (home + 3, home - 4):
                            continue         # a king never moves from its home square onto the rook corner in one move
                        for pr in (proms if (piece == pawn and (frm + to) % 7 == 0) else proms[:1]):
                            state.update(move=(frm, to, pr), piece=piece, wtm=wtm)
                            code = ev.run(enc, {})['ret']
                            back = ev.run(dec, {('v', code_param): code})['ret']
                            n_eval += 1
                            if back != ('Move', frm, to, pr):
                                bad.append((own, frm, to, pr, 'king' if piece == king else 'other', code, back))
                                if len(bad) > 5:
                                    raise StopIteration
    except StopIteration:
        pass
    except EvUnknown as ex:
        rep.broken(clause, 'constant evaluation of the polyglot move codec left its fragment: %s' % ex)
        bad = None
    if bad is not None:
        rep.ob(clause, 'K10 inverse tables', 'polyglot move codec: getMove(getPGMove(m)) == m for every origin, target, promotion piece and side, castling included', not bad and n_eval > 10000,
               enc.where, '%d round trips; first failures (side, from, to, promotion, mover, code, decoded): %s' % (n_eval, bad[:3]), enc.sname)
    # the code word fits the 16-bit field and uses five 3-bit fields
    def shifts(f, op):
        return sorted({(_strip(n.get('r')) or {}).get('cv') for _, _, e in f.events() for n in walk(e) if n.get('k') == 'bin' and n.get('op') == op and 'cv' in (_strip(n.get('r')) or {})})
    se = shifts(enc, '<<')
    sd = shifts(dec, '>>')
    masks = sorted({(_strip(n.get('r')) or {}).get('cv') for _, _, e in dec.events() for n in walk(e) if n.get('k') == 'bin' and n.get('op') == '&' and 'cv' in (_strip(n.get('r')) or {})})
    rep.ob(clause, 'K10 inverse layout', 'polyglot move word: encoder shifts and decoder shifts/masks agree (3-bit fields at 0,3,6,9,12)', se == [3, 6, 9, 12] and sd == [3, 6, 9, 12] and masks == [7],
           enc.where, 'encoder << %s, decoder >> %s, masks %s' % (se, sd, masks), enc.sname)
    # the king test guards both conversions
    for f, nm in ((enc, 'encoder'), (dec, 'decoder')):
        kt = [show((blk.get('term') or {}).get('cond') or {}, 300) for blk in f.blocks.values() if 'KING' in show((blk.get('term') or {}).get('cond') or {}, 300)]
        rep.ob(clause, 'K4 guard', 'polyglot castling (%s): the conversion applies only when a king stands on the e-file origin square' % nm,
               any('WKING' in x for x in kt) and any('BKING' in x for x in kt), f.where, '', f.sname)
    # built-in book promotion tables
    p2p = fb.find1('Book::pieceToProm')
    pr2 = fb.find1('Book::promToPiece')
    if rep.need(clause, p2p, 'Book::pieceToProm') and rep.need(clause, pr2, 'Book::promToPiece'):
        ev = Evaluator(fb)
        bad = []
        try:
            for name in ('WQUEEN', 'WROOK', 'WBISHOP', 'WKNIGHT', 'BQUEEN', 'BROOK', 'BBISHOP', 'BKNIGHT', 'EMPTY'):
                pv = fb.const('Piece::' + name)
                r1 = _run_switchy(ev, p2p, {('v', p2p.d['params'][0]['id']): pv})
                wtm = 1 if name.startswith('W') else 0
                r2 = _run_switchy(ev, pr2, {('v', pr2.d['params'][0]['id']): r1, ('v', pr2.d['params'][1]['id']): wtm})
                if name == 'EMPTY':
                    if r2 != pv:
                        bad.append((name, r1, r2))
                elif r2 != pv:
                    bad.append((name, r1, r2))
        except (Unknown, KeyError, IndexError) as ex:
            rep.broken(clause, 'constant evaluation of the book promotion tables failed: %s' % ex)
            bad = None
        if bad is not None:
            rep.ob(clause, 'K10 inverse tables', 'built-in book: promToPiece(pieceToProm(p), colour(p)) == p for every promotion piece and for "none"', not bad, p2p.where, str(bad), p2p.sname)


from ..peval import run_switch as _run_switchy


def c3_files(fb, rep):
    clause = 'C18.3'
    f = fb.find1('Book::getBookEntries')
    if rep.need(clause, f, 'Book::getBookEntries') is None:
        return
    lams = fb.lambdas_in(f)
    rd = None
    for l in lams:
        if any(e.get('k') == 'call' and cname(e).endswith('::read') for _, _, e in l.events()):
            rd = l
    if rep.need(clause, rd, 'readEntry lambda in Book::getBookEntries'):
        reads = [(b, i, e) for b, i, e in rd.events() if e.get('k') == 'call' and cname(e).endswith('::read')]
        for b, i, e in reads:
            # after the read: stream state tested; on failure every byte is zeroed
            def tests_stream(c):
                return any(n.get('k') == 'var' and 'fstream' in (n.get('t') or '') + (n.get('rc') or '') for n in walk(c or {}))
            brs = [bid for bid, blk in rd.blocks.items() if blk.get('term') and tests_stream(blk['term'].get('cond'))]
            tested = any(rd.pos_dominates((b, i), (x, 0)) or x == b for x in brs)
            zero = [(b2, e2) for b2, i2, e2 in rd.events() if e2.get('k') == 'asg' and 'data' in show(e2.get('l')) and (e2.get('r') or {}).get('cv') == 0]
            in_loop = any(G.loop_header_of(rd, b2) is not None for b2, e2 in zero)
            rep.ob(clause, 'K2 must-pass-through', 'readEntry: a failed read is detected and the entry is zero-filled', tested and bool(zero) and in_loop, R.site(rd, e), '', rd.sname)
            bound = None
            for b2, e2 in zero:
                h = G.loop_header_of(rd, b2)
                if h is not None:
                    c = rd.blocks[h]['term'].get('cond')
                    bound = show(_strip((c or {}).get('r')))
            sz = (e.get('args') or [None, None])[1]
            rep.ob(clause, 'K11 constant agreement', 'readEntry: the zero-fill covers exactly the bytes the read was asked for', bound is not None and bound == show(_strip(sz)), R.site(rd, e),
                   'zero-fill bound %s, read size %s' % (bound, show(_strip(sz))), rd.sname)
    ent = fb.record('PolyglotBook::PGEntry')
    es = None
    size_ids = set()
    if rd is not None:
        for _, _, e_ in rd.events():
            if e_.get('k') == 'call' and cname(e_).endswith('::read') and len(e_.get('args', [])) >= 2:
                a_ = _strip(e_['args'][1])
                if isinstance(a_, dict) and a_.get('k') == 'var':
                    size_ids.add(a_.get('id'))
                    if 'cv' in a_:
                        es = a_['cv']
    if es is None:
        # the size variable is captured by the lambda: same name in the enclosing function
        names_ = {(_strip(e_['args'][1]) or {}).get('n') for _, _, e_ in (rd.events() if rd is not None else []) if e_.get('k') == 'call' and cname(e_).endswith('::read') and len(e_.get('args', [])) >= 2}
        for b, i, e in f.events():
            if e.get('k') == 'decl':
                for v in e.get('vars', []):
                    if v.get('n') in names_ and isinstance(v.get('init'), dict) and 'cv' in v['init']:
                        es = v['init']['cv']
    if rep.need(clause, ent, 'record PolyglotBook::PGEntry'):
        import re
        m = re.search(r'\[(\d+)\]', ent['fields'][0]['ct']) if ent['fields'] else None
        rep.ob(clause, 'K11 constant agreement', 'entry size read from the file equals the size of PGEntry::data', m is not None and es == int(m.group(1)), f.where,
               'entSize %s, array %s' % (es, m.group(1) if m else None), f.sname)
    # binary search bounds: the loop `while (H - L > 1)`, L starts at -1, H at the number of entries, probes at (L + H) / 2
    L = H = None
    for bid, blk in f.blocks.items():
        t = blk.get('term') or {}
        c = _strip(t.get('cond'))
        if t.get('c') == 'WhileStmt' and isinstance(c, dict) and c.get('k') == 'bin' and c.get('op') == '>' and (_strip(c.get('r')) or {}).get('cv') == 1:
            d = _strip(c.get('l'))
            if isinstance(d, dict) and d.get('k') == 'bin' and d.get('op') == '-' and isinstance(_strip(d['l']), dict) and isinstance(_strip(d['r']), dict):
                H, L = _strip(d['l']).get('id'), _strip(d['r']).get('id')
    inits = {}
    for b, i, e in f.events():
        if e.get('k') == 'decl':
            for v in e.get('vars', []):
                if v.get('id') in (L, H) and v.get('id') is not None:
                    inits['lo' if v['id'] == L else 'hi'] = _strip(v.get('init'))
    n_id = (inits.get('hi') or {}).get('id') if isinstance(inits.get('hi'), dict) else None
    n_def = next((_strip(v.get('init')) for _, _, e in f.events() if e.get('k') == 'decl' for v in e.get('vars', []) if v.get('id') == n_id and n_id is not None), None)
    div_ = _strip(n_def.get('r')) if isinstance(n_def, dict) and n_def.get('k') == 'bin' and n_def.get('op') == '/' else None
    div_v = None
    if isinstance(div_, dict):
        div_v = div_.get('cv')
        if div_v is None and div_.get('k') == 'var':
            div_v = next(((v.get('init') or {}).get('cv') for _, _, e in f.events() if e.get('k') == 'decl' for v in e.get('vars', []) if v.get('id') == div_.get('id')), None)
    n_ok = div_v is not None and div_v == es
    lo0 = inits.get('lo')
    lo_ok = isinstance(lo0, dict) and (lo0.get('cv') == -1 or (lo0.get('k') == 'un' and lo0.get('op') == '-' and (lo0.get('e') or {}).get('cv') == 1))
    rep.ob(clause, 'K12 index bound', 'binary search starts from the exclusive bounds lo = -1, hi = numEntries', L is not None and lo_ok and n_ok, f.where,
           'lo = %s, hi = %s = %s' % (show(lo0) if lo0 else None, show(inits.get('hi')) if inits.get('hi') else None, show(n_def) if n_def else None), f.sname)
    cond_ok = L is not None
    mid_ok = False
    for b, i, e in f.events():
        if e.get('k') == 'decl':
            for v in e.get('vars', []):
                m0 = _strip(v.get('init'))
                if isinstance(m0, dict) and m0.get('k') == 'bin' and m0.get('op') == '/' and (_strip(m0.get('r')) or {}).get('cv') == 2:
                    a0 = _strip(m0.get('l'))
                    if isinstance(a0, dict) and a0.get('k') == 'bin' and a0.get('op') == '+' and {(_strip(a0['l']) or {}).get('id'), (_strip(a0['r']) or {}).get('id')} == {L, H}:
                        mid_ok = True
    rep.ob(clause, 'K12 index bound', 'binary search probes mid = (lo + hi) / 2 only while hi - lo > 1 (so 0 <= mid < numEntries)', cond_ok and mid_ok, f.where, '', f.sname)
    scan_ok = any(isinstance(_strip((blk.get('term') or {}).get('cond')), dict) and _strip(blk['term']['cond']).get('k') == 'bin' and _strip(blk['term']['cond']).get('op') == '<' and
                  (_strip(_strip(blk['term']['cond']).get('r')) or {}).get('id') == n_id and n_id is not None and (blk.get('term') or {}).get('c') == 'ForStmt' for blk in f.blocks.values())
    rep.ob(clause, 'K12 index bound', 'the matching-entries scan is bounded by numEntries', scan_ok, f.where, '', f.sname)
    # every decoded entry goes through readEntry first
    dss = [(b, i, e) for b, i, e in f.events() if e.get('k') == 'call' and cname(e) == 'PolyglotBook::deSerialize']
    for b, i, e in dss:
        w = f.path_avoiding((f.entry, -1), lambda x, _e=e: x is _e, lambda x: x is not None and x.get('k') == 'call' and (cname(x).endswith('::operator()') or 'lambda' in (x.get('f') or '')))
        rep.ob(clause, 'K2 must-precede', 'getBookEntries decodes only entries obtained through readEntry', w is None, R.site(f, e), '', f.sname)
    rep.floor(clause, 'deSerialize sites', len(dss), 2)
    # key match before a move is added
    out_vec = {p_['id'] for p_ in f.d.get('params', []) if 'vector' in (p_.get('t') or '')}
    hash_ids = {(_strip(e_['args'][1]) or {}).get('id') for _, _, e_ in f.events() if e_.get('k') == 'call' and cname(e_) == 'PolyglotBook::deSerialize' and len(e_.get('args', [])) >= 2}
    key_ids = {v['id'] for _, _, e_ in f.events() if e_.get('k') == 'decl' for v in e_.get('vars', []) if any(n.get('k') == 'call' and cname(n) == 'PolyglotBook::getHashKey' for n in walk(v.get('init') or {}))}
    for b, i, e in f.events():
        if e.get('k') == 'call' and cname(e).split('::')[-1] == 'push_back' and isinstance(e.get('recv'), dict) and e['recv'].get('id') in out_vec:
            g = G.guards_of(f, set(f.blocks), b)
            # the `if (entHash != key) break;` precedes: block must be on the false side
            brs = R.branch_blocks(f, lambda c: c.get('k') == 'bin' and c.get('op') in ('!=', '==') and
                                  {(_strip(c.get('l')) or {}).get('id'), (_strip(c.get('r')) or {}).get('id')} & hash_ids and
                                  {(_strip(c.get('l')) or {}).get('id'), (_strip(c.get('r')) or {}).get('id')} & key_ids)
            ok = False
            for bid, pol, t, fl in brs:
                c = eff_cond(f.blocks[bid]['term'])
                ce, p2 = strip_not(c)
                same_side = fl if ce.get('op') == '!=' else t
                ok = ok or same_side == b or same_side in f.dominators().get(b, set())
            rep.ob(clause, 'K4 guard', 'only entries stored under the position\'s key are offered as book moves', ok, R.site(f, e), '', f.sname)


# ----------------------------------------------------------------------------- .4

_BITS = {'bool': 1, 'char': 7, 'signed char': 7, 'unsigned char': 8, 'short': 15, 'unsigned short': 16, 'int': 31, 'unsigned int': 32,
         'long': 63, 'unsigned long': 64, 'long long': 63, 'unsigned long long': 64}


_TYPEDEFS = {'S64': 'long', 'U64': 'unsigned long', 'S32': 'int', 'U32': 'unsigned int', 'S16': 'short', 'U16': 'unsigned short', 'S8': 'signed char', 'U8': 'unsigned char',
             'int64_t': 'long', 'uint64_t': 'unsigned long', 'size_t': 'unsigned long'}


def _value_bits(ct):
    ct = (ct or '').replace('const ', '').replace('&', '').strip()
    return _BITS.get(_TYPEDEFS.get(ct, ct))


FILE_BITS = 40          # assumption (listed): book files are smaller than 2^40 bytes (1 TiB)


def c4_weight_sum(fb, rep):
    """K11/K12: the total weight of the entries of one position is the modulus of the random pick.  A file may hold
    any number of entries under one key (the scan is bounded only by the entry count of the file), so the accumulator
    must hold (largest weight) x (largest entry count), and the pick must be defined for every such total:
    Random::nextInt(m) draws below 2^30 and rejects above (2^30 / m) * m - for m > 2^30 that bound is 0 and it never
    returns (defect D12)."""
    clause = 'C18.4'
    f = fb.find1('Book::getBookMove')
    ge = fb.find1('Book::getBookEntries')
    ds = fb.find1('PolyglotBook::deSerialize')
    if rep.need(clause, f, 'Book::getBookMove') is None or rep.need(clause, ge, 'Book::getBookEntries') is None or rep.need(clause, ds, 'PolyglotBook::deSerialize') is None:
        return
    sum_vars = {}
    for _, _, e in f.events():
        if e.get('k') == 'asg' and e.get('op') == '+=' and isinstance(e.get('l'), dict) and e['l'].get('k') == 'var' and \
                any(n.get('k') == 'call' and cname(n) == 'Book::getWeight' for n in walk(e.get('r') or {})):
            sum_vars[e['l']['id']] = e['l']
    if rep.need(clause, sum_vars, 'the weight accumulator of getBookMove') is None:
        return
    # widest stored weight: the type deSerialize hands the weight out in (its last parameter)
    wpar = (ds.d.get('params') or [{}])[-1]
    wbits = _value_bits(wpar.get('ct') or wpar.get('t'))
    # entry count: the type of the bound of the matching-entries scan
    cbits = None
    for bid, blk in ge.blocks.items():
        t = blk.get('term') or {}
        c = _strip(t.get('cond'))
        if t.get('c') == 'ForStmt' and isinstance(c, dict) and c.get('k') == 'bin' and c.get('op') == '<':
            r = _strip(c.get('r'))
            if isinstance(r, dict) and r.get('k') == 'var':
                cb = _value_bits(r.get('t'))
                cbits = cb if cbits is None else max(cbits, cb or 0)
    # a file of 2^FILE_BITS bytes holds 2^FILE_BITS / entry-size entries, whatever the type of the loop bound is
    ent_size = 16
    cbits = None if cbits is None else min(cbits, FILE_BITS - (ent_size.bit_length() - 1))
    for vid, v in sorted(sum_vars.items()):
        have = _value_bits(v.get('t'))
        need = (wbits or 0) + (cbits or 0)
        rep.ob(clause, 'K11 width agreement', 'getBookMove: the weight accumulator holds (largest stored weight) x (largest entry count of a file)',
               have is not None and wbits is not None and cbits is not None and have >= need, f.where,
               'accumulator %s: %s value bits; weight %s bits x entry count %s bits' % (v.get('t'), have, wbits, cbits), f.sname)
    # the pick is defined for every total
    picks = []
    for b, i, e in f.events():
        for n in walk(e):
            if n.get('k') == 'call' and n.get('repo') and cname(n).startswith('Random::') and any(x.get('k') == 'var' and x.get('id') in sum_vars for a in n.get('args', []) for x in walk(a)):
                picks.append((b, i, e, cname(n)))
            if n.get('k') == 'bin' and n.get('op') == '%' and any(x.get('k') == 'var' and x.get('id') in sum_vars for x in walk(n.get('r'))):
                picks.append((b, i, e, '%'))
    rep.floor(clause, 'random picks over the total weight', len(picks), 1)
    for b, i, e, how in picks:
        ok = how == '%'
        detail = 'remainder of a 64-bit random number: defined for every non-zero total' if ok else \
            '%s is only defined for a modulus <= 2^30 and the total is not bounded (any number of entries per position)' % how
        rep.ob(clause, 'K12 domain of the random pick', 'getBookMove: the random pick is defined for every total weight the file can produce', ok, R.site(f, e), detail, f.sname)


# ----------------------------------------------------------------------------- .5

def c5_file_positions(fb, rep):
    """K11 width agreement of file positions: the file length comes back from tellg() as a 64-bit value.  Everything
    derived from it - the entry count, the binary-search bounds, the scan index, the index parameter of readEntry - and
    the byte offset handed to seekg() must be computed in 64 bits too: an `int` entry count truncates files above 32
    GiB, and `int * int` for the offset overflows from entry 2^27 on (files above 2 GiB), so that a stored move in
    the upper part of a well-formed book is never returned (defect D15)."""
    clause = 'C18.5'
    ge = fb.find1('Book::getBookEntries')
    if rep.need(clause, ge, 'Book::getBookEntries') is None:
        return
    bodies = [ge] + fb.lambdas_in(ge)
    # the file length: a local initialised from tellg()
    flen = set()
    for _, _, e in ge.events():
        if e.get('k') == 'decl':
            for v in e.get('vars', []):
                if any(n.get('k') == 'call' and cname(n).split('::')[-1] == 'tellg' for n in walk(v.get('init') or {})):
                    flen.add(v['id'])
    if rep.need(clause, flen, 'the file length local of getBookEntries (tellg)') is None:
        return
    # locals derived from the file length (transitively), in the function and its lambdas
    derived = {}
    changed = True
    names = {}
    while changed:
        changed = False
        for g in bodies:
            for _, _, e in g.events():
                if e.get('k') != 'decl':
                    continue
                for v in e.get('vars', []):
                    if v['id'] in derived or v['id'] in flen or v.get('init') is None:
                        continue
                    if g is ge and any(n.get('k') == 'var' and (n.get('id') in flen or n.get('id') in derived) for n in walk(v['init'])):
                        t_ = v.get('ct') or v.get('t')
                        if _value_bits(t_) is not None:
                            derived[v['id']] = (v['n'], t_)
                            changed = True
    n = 0
    for vid, (nm, t_) in sorted(derived.items(), key=lambda kv: kv[1][0]):
        n += 1
        rep.ob(clause, 'K11 width agreement', 'getBookEntries: `%s`, derived from the file length, is a 64-bit quantity' % nm, (_value_bits(t_) or 0) >= 63, ge.where, 'type %s' % t_, ge.sname)
    rep.floor(clause, 'locals derived from the file length', n, 4)
    # index parameters of the lambdas that receive such locals, and the seek offset
    n_seek = 0
    for g in bodies:
        for b, i, e in g.events():
            if e.get('k') == 'call' and cname(e).split('::')[-1] == 'seekg' and e.get('args'):
                a0 = _strip(e['args'][0])
                # resolve a local offset variable to its initialiser
                if isinstance(a0, dict) and a0.get('k') == 'var':
                    for _, _, e2 in g.events():
                        if e2.get('k') == 'decl':
                            for v in e2.get('vars', []):
                                if v['id'] == a0.get('id') and v.get('init') is not None:
                                    a0 = _strip(v['init'])
                muls = [x for x in walk(a0) if x.get('k') == 'bin' and x.get('op') in ('*', '<<')]
                if not muls:
                    continue
                n_seek += 1
                narrow = [show(x, 60) for x in muls if (_value_bits(x.get('t')) or 0) < 63]
                rep.ob(clause, 'K11 width agreement', 'the byte offset handed to seekg is computed in 64 bits', not narrow, R.site(g, e),
                       'multiplications in a narrower type: %s' % narrow, ge.sname)
        for p_ in g.d.get('params', []):
            if g is not ge and _value_bits(p_.get('ct') or p_.get('t')) is not None:
                rep.ob(clause, 'K11 width agreement', 'the entry index parameter of the read helper is a 64-bit quantity', (_value_bits(p_.get('ct') or p_.get('t')) or 0) >= 63, g.where,
                       'parameter %s: %s' % (p_.get('n'), p_.get('t')), ge.sname)
    rep.floor(clause, 'seek offsets computed from an entry index', n_seek, 1)


# ----------------------------------------------------------------------------- .6

def c6_selection_rule(fb, rep):
    """K12 the weighted pick.  getBookMove draws r uniformly from [0, total) and walks the entries accumulating their
    weights; entry k must be chosen exactly for the w_k values cum_{k-1} <= r < cum_k.  From the loop the rule extracts
    whether the weight is added before the test, the comparison operator and its operand order, and replays that
    decision procedure for every weight vector over {0, 1, 2, 3} of length 1..4 and every r: each entry must be chosen for
    exactly w_k values of r - a stored move with positive weight has positive probability, one with weight 0 has none,
    and the walk always ends inside the list."""
    clause = 'C18.6'
    f = fb.find1('Book::getBookMove')
    if rep.need(clause, f, 'Book::getBookMove') is None:
        return
    # the drawn number: a local initialised from the generator (a Random:: call or `% total`)
    rnd = None
    for _, _, e in f.events():
        if e.get('k') == 'decl':
            for v in e.get('vars', []):
                init = v.get('init')
                if init is not None and any((n.get('k') == 'call' and cname(n).startswith('Random::')) for n in walk(init)):
                    rnd = v['id']
    acc = {}
    for b, i, e in f.events():
        if e.get('k') == 'asg' and e.get('op') == '+=' and isinstance(e.get('l'), dict) and e['l'].get('k') == 'var' and \
                any(n.get('k') == 'call' and cname(n) == 'Book::getWeight' for n in walk(e.get('r') or {})):
            acc.setdefault(e['l']['id'], []).append((b, i))
    if rep.need(clause, rnd, 'the drawn random number of getBookMove') is None or rep.need(clause, acc, 'the weight accumulator') is None:
        return
    tests = []
    for bid, blk in f.blocks.items():
        t = blk.get('term') or {}
        c = _strip(t.get('cond'))
        if t.get('c') == 'IfStmt' and isinstance(c, dict) and c.get('k') == 'bin' and c.get('op') in ('<', '<=', '>', '>='):
            l, r = _strip(c.get('l')), _strip(c.get('r'))
            ids = {(l or {}).get('id'), (r or {}).get('id')}
            if rnd in ids and ids & set(acc):
                a_id = (ids & set(acc)).pop()
                op = c['op'] if (l or {}).get('id') == rnd else {'<': '>', '<=': '>=', '>': '<', '>=': '<='}[c['op']]   # normalised: rnd OP acc
                # is the accumulation of this round before the test?  (same block earlier, or a dominating block inside the loop)
                before = any(b == bid for b, i in acc[a_id]) or any(b in f.dominators().get(bid, set()) and G._reaches(f, bid, b) for b, i in acc[a_id])
                tests.append((bid, op, before, t.get('ln')))
    rep.floor(clause, 'selection tests comparing the drawn number with the running weight', len(tests), 1)
    import itertools
    for bid, op, before, ln in tests:
        bad = []
        for n in range(1, 5):
            for ws in itertools.product(range(0, 4), repeat=n):
                total = sum(ws)
                if total == 0:
                    continue
                counts = [0] * n
                fell = 0
                for r in range(total):
                    cum = 0
                    chosen = None
                    for k, w in enumerate(ws):
                        if before:
                            cum += w
                        hit = {'<': r < cum, '<=': r <= cum, '>': r > cum, '>=': r >= cum}[op]
                        if hit:
                            chosen = k
                            break
                        if not before:
                            cum += w
                    if chosen is None:
                        fell += 1
                    else:
                        counts[chosen] += 1
                if list(counts) != list(ws) or fell:
                    if len(bad) < 2:
                        bad.append('weights %s: chosen %s times, %d draws past the end' % (list(ws), counts, fell))
        rep.ob(clause, 'K12 selection rule', 'getBookMove chooses entry k for exactly weight(k) of the total possible draws (positive weight: positive probability; weight 0: never)',
               not bad, '%s:%s' % (f.file, ln), 'test: drawn %s running weight, weight added %s the test; %s' % (op, 'before' if before else 'after', bad), f.sname)


# ----------------------------------------------------------------------------- .7

def c7_scan_ends_on_key_mismatch_only(fb, rep):
    """K4 every stored move with positive weight is offered.  The entries of one key are adjacent in a sorted file, in no
    particular order of weight or move.  The scan that collects them may end only when the key of the entry read differs
    (or the file ends); and an entry with the right key may be left out only because of what that entry itself says, not
    because of an earlier one.  So with `entry key == position key`, no `break` / `return` inside the scan loop may be
    reachable, whatever the weight or the move are (guards evaluated three-valued with the two keys equal)."""
    clause = 'C18.7'
    f = fb.find1('Book::getBookEntries')
    if rep.need(clause, f, 'Book::getBookEntries') is None:
        return
    hash_ids = {(_strip(e_['args'][1]) or {}).get('id') for _, _, e_ in f.events() if e_.get('k') == 'call' and cname(e_) == 'PolyglotBook::deSerialize' and len(e_.get('args', [])) >= 2}
    key_ids = {v['id'] for _, _, e_ in f.events() if e_.get('k') == 'decl' for v in e_.get('vars', []) if any(n.get('k') == 'call' and cname(n) == 'PolyglotBook::getHashKey' for n in walk(v.get('init') or {}))}
    out_vec = {p_['id'] for p_ in f.d.get('params', []) if 'vector' in (p_.get('t') or '')}
    pushes = [b for b, i, e in f.events() if e.get('k') == 'call' and cname(e).split('::')[-1] in ('push_back', 'emplace_back') and isinstance(e.get('recv'), dict) and e['recv'].get('id') in out_vec]
    if rep.need(clause, None if not (hash_ids and key_ids and pushes) else 1, 'entry key / position key / result vector of getBookEntries') is None:
        return
    loops = f.natural_loops()
    scan = [h for h, body in loops.items() if any(p_ in body for p_ in pushes)]
    if rep.need(clause, scan, 'the loop that collects the entries') is None:
        return
    h = min(scan, key=lambda x: len(loops[x]))
    body = loops[h]
    eq = lambda t: ('v', 7) if t.get('k') == 'var' and (t.get('id') in hash_ids or t.get('id') in key_ids) else None
    # exits other than the loop condition itself: successors outside the body from blocks other than the header
    exits = []
    for b in sorted(body):
        for s_ in f.blocks[b]['succ']:
            if s_ not in body and b != h:
                exits.append((b, s_))
    leaks = []
    for b, s_ in exits:
        tgt = b if (f.blocks[b].get('term') or {}).get('c') in ('BreakStmt', 'ReturnStmt') or not f.blocks[b]['succ'][1:] else s_
        if not G.excluded_under(f, tgt, eq):
            leaks.append('%s:%s' % (f.file, (f.blocks[b].get('term') or {}).get('ln') or f.block_line(b)))
    rep.floor(clause, 'early exits of the entry scan', len(exits), 1)
    rep.ob(clause, 'K4 guard', 'getBookEntries: with the entry\'s key equal to the position\'s key no early exit of the scan can be taken', not leaks,
           '%s:%s' % (f.file, (f.blocks[h].get('term') or {}).get('ln')), '%d early exit(s); reachable with equal keys: %s' % (len(exits), leaks), f.sname)
    # ... and with equal keys the entry is appended
    skipped = [b for b in pushes if G.excluded_under(f, b, eq)]
    rep.ob(clause, 'K4 guard', 'getBookEntries: an entry stored under the position\'s key is appended to the result', not skipped, f.where, '', f.sname)


# ----------------------------------------------------------------------------- .8

def c8_polyglot_castle_terms(fb, rep):
    """K11 agreement with the published book format.  A polyglot key adds one random number per castling right, in the fixed
    order white short, white long, black short, black long (offsets 768 + 0..3).  Books made by other programs follow it,
    so the engine's key function must pair each right with its offset: a swapped pair leaves the keys of positions in
    which both or neither right of that colour exist unchanged (xor commutes) and looks up the sister position's entries
    when exactly one exists."""
    clause = 'C18.8'
    f = fb.find1('PolyglotBook::getHashKey')
    if rep.need(clause, f, 'PolyglotBook::getHashKey') is None:
        return
    WANT = {'h1Castle': 0, 'a1Castle': 1, 'h8Castle': 2, 'a8Castle': 3}
    got = {}
    for b, i, e in f.events():
        if not (e.get('k') == 'asg' and e.get('op') == '^='):
            continue
        idx = None
        for n in walk(e.get('r')):
            if isinstance(n, dict) and n.get('k') == 'idx' and 'hashRandoms' in show(n.get('b'), 40):
                idx = G.tv(n.get('i'), lambda x: None)
        if idx is None:
            continue
        for c, side in G.guard_trees(f, set(f.blocks), b):
            c0 = _strip(c)
            if side and isinstance(c0, dict) and c0.get('k') == 'call' and cname(c0).split('::')[-1] in WANT:
                got.setdefault(cname(c0).split('::')[-1], set()).add(idx - 768)
    rep.floor(clause, 'castling terms of the polyglot key', len(got), 4)
    bad = {k: sorted(v) for k, v in got.items() if v != {WANT[k]}}
    rep.ob(clause, 'K11 constant agreement', 'getHashKey adds random number 768 + k for the k-th castling right in the order white short, white long, black short, black long', not bad and set(got) == set(WANT),
           f.where, 'offsets used %s%s' % ({k: sorted(v) for k, v in got.items()}, ('; wrong: %s' % bad) if bad else ''), f.sname)
