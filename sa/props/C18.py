"""C18 - the opening book never yields an illegal move.  Clauses decided:
 .1 K3/K2 validate-before-return in Book::getBookMove (every candidate checked against the
        generated legal moves, with a per-candidate flag; the only non-empty result is produced
        after the all-candidates-legal loop; empty total weight -> no move)
 .2 K10 polyglot tables: promotion codes, castling conversions and bit layout agree between
        encoder and decoder; the built-in book's promotion tables are inverse
 .3 K2  damaged files: a failed read zero-fills the entry before it is decoded; the binary
        search starts from (lo = -1, hi = n) and only reads indices inside the file
"""
from ..core import cname, ap, walk, show, strip_not, eff_cond
from ..peval import Evaluator, Unknown
from ..validate import membership_tests
from .. import regions as G
from .. import rules as R

EXPLANATION = (
    'Static rules over the resolved program. Decided: (1) in Book::getBookMove the result is cleared first; every candidate entry is '
    'compared with the generated legal move list using a flag that is reset for each candidate, a failed membership test returns '
    'with the empty move, the only non-empty assignment of the result lies after that loop and takes the move from the same validated '
    'list, and a non-positive total weight returns no move; (2) PolyglotBook::getPGMove and getMove use inverse promotion codes, the '
    'same bit layout (to-file 0-2, to-row 3-5, from-file 6-8, from-row 9-11, promotion 12-14) and inverse castling conversions for '
    'all four castling moves; Book::pieceToProm / promToPiece are inverse (constant evaluation over all codes); (3) a failed file read '
    'zero-fills the entry before deSerialize uses it, the binary search keeps lo = -1 / hi = numEntries as exclusive bounds so only '
    'indices 0..n-1 are read, and the scan loop is bounded by numEntries.')
UNDECIDED = 'that a corrupt file never produces a legal but wrong move; selection probabilities.'
ASSUMPTIONS = ['MoveGen::pseudoLegalMoves + removeIllegal produce exactly the legal moves (property C01)']


def _strip(t):
    while isinstance(t, dict) and t.get('k') == 'cast':
        t = t.get('e')
    return t


def run(fb, rep, tier):
    c1_validate(fb, rep)
    c2_tables(fb, rep)
    c3_files(fb, rep)


def c1_validate(fb, rep):
    clause = 'C18.1'
    f = fb.find1('Book::getBookMove')
    if rep.need(clause, f, 'Book::getBookMove') is None:
        return
    tests = membership_tests(f)
    rep.floor(clause, 'membership validation tests in getBookMove', len(tests), 1)
    # result cleared first
    clears = [(b, i) for b, i, e in f.events() if e.get('k') == 'call' and cname(e).endswith('Move::operator=') and isinstance(e.get('recv'), dict) and e['recv'].get('n') == 'out'
              and any(n.get('k') == 'ctor' and not n.get('args') for n in walk((e.get('args') or [{}])[0]))]
    sets = [(b, i, e) for b, i, e in f.events() if e.get('k') == 'call' and cname(e).endswith('Move::operator=') and isinstance(e.get('recv'), dict) and e['recv'].get('n') == 'out'
            and not any(n.get('k') == 'ctor' and not n.get('args') for n in walk((e.get('args') or [{}])[0]))]
    rep.ob(clause, 'K2 must-precede', 'getBookMove clears the result before anything else can return', bool(clears) and all(f.pos_dominates(clears[0], (b, i)) for b, i, e in f.events() if e.get('k') == 'ret'),
           f.where, '', f.sname)
    rep.floor(clause, 'non-empty result assignments', len(sets), 1)
    for t in tests:
        rep.ob(clause, 'K3 validated candidate', 'getBookMove: the membership flag `%s` is reset for every candidate' % t['flag'], t['reset_ok'], '%s:%s' % (f.file, t['line']),
               '' if t['reset_ok'] else 'the flag keeps the value of an earlier candidate: after one legal entry every later entry passes unchecked', f.sname)
        # reject side returns without producing a move
        w = f.path_avoiding((t['reject'], -1), lambda ev: ev is not None and any(ev is s[2] for s in sets), lambda ev: ev is not None and ev.get('k') == 'ret')
        rep.ob(clause, 'K2 must-pass-through', 'getBookMove: an entry that is not a legal move ends the probe with no move', w is None, '%s:%s' % (f.file, t['line']), '', f.sname)
        # the compared list is the legal move list; the candidate is the entry's move
        rep.ob(clause, 'K15 provenance', 'getBookMove validates the entry\'s own move against the generated legal moves', 'legalMoves' in t['list'] and t['candidate'].endswith('.move'),
               '%s:%s' % (f.file, t['line']), 'compares %s with %s' % (t['candidate'], t['list']), f.sname)
        # the test is applied to every candidate: it sits in a loop over bookMoves
        rep.ob(clause, 'K2 loop shape', 'getBookMove validates every candidate (the test is inside the loop over all entries)', bool(t['loops']), '%s:%s' % (f.file, t['line']), '', f.sname)
        for b, i, e in sets:
            # the validation loop is complete before a move is produced: the assignment is not inside the validation loop and is dominated by its header
            hdrs = t['loops']
            ok = bool(hdrs) and all(h in f.dominators().get(b, set()) and not G._reaches(f, b, h) for h in hdrs[:1])
            rep.ob(clause, 'K2 must-precede', 'getBookMove: a move is produced only after all candidates were validated', ok, R.site(f, e), '', f.sname)
            src = show((e.get('args') or [{}])[0], 100)
            rep.ob(clause, 'K15 provenance', 'getBookMove returns a move taken from the validated entries', src.endswith('.move') and 'be' in src, R.site(f, e), src, f.sname)
    # the legal list is generated and filtered
    gen = [e for _, _, e in f.events() if e.get('k') == 'call' and cname(e) == 'MoveGen::pseudoLegalMoves']
    fil = [e for _, _, e in f.events() if e.get('k') == 'call' and cname(e) == 'MoveGen::removeIllegal']
    rep.ob(clause, 'K2 must-precede', 'getBookMove builds the legal move list with pseudoLegalMoves + removeIllegal', bool(gen) and bool(fil), f.where, '', f.sname)
    # sum <= 0 -> return
    brs = R.branch_blocks(f, lambda e: e.get('k') == 'bin' and e.get('op') == '<=' and isinstance(_strip(e.get('l')), dict) and _strip(e['l']).get('n') == 'sum' and (_strip(e.get('r')) or {}).get('cv') == 0)
    okz = False
    for bid, pol, t, fl in brs:
        okz = any(e.get('k') == 'ret' for e in f.blocks[t]['ev']) or f.path_avoiding((t, -1), lambda ev: ev is not None and any(ev is s[2] for s in sets), lambda ev: ev is not None and ev.get('k') == 'ret') is None
    rep.ob(clause, 'K4 guard', 'getBookMove: a non-positive total weight yields no move (and no division/modulo by it)', okz, f.where, '', f.sname)
    # weights are non-negative
    gw = fb.find1('Book::getWeight')
    if gw is not None:
        pass


def c2_tables(fb, rep):
    clause = 'C18.2'
    enc = fb.find1('PolyglotBook::getPGMove')
    dec = fb.find1('PolyglotBook::getMove')
    if rep.need(clause, enc, 'PolyglotBook::getPGMove') is None or rep.need(clause, dec, 'PolyglotBook::getMove') is None:
        return
    # promotion tables from the switch structures
    def switch_map(f, assign_var):
        """case label(s) -> constant(s) assigned to assign_var in that arm"""
        out = {}
        for bid, blk in f.blocks.items():
            lb = blk.get('label')
            if not lb or lb.get('k') != 'case':
                continue
            # labels falling through share the arm: collect the labels chain
            vals = set()
            region = G.region(f, bid, None)
            cur = bid
            seen = set()
            # walk forward until an assignment is found
            st = [bid]
            found = None
            while st and found is None:
                x = st.pop()
                if x in seen:
                    continue
                seen.add(x)
                for e in f.blocks[x]['ev']:
                    if e.get('k') == 'asg' and isinstance(e.get('l'), dict) and e['l'].get('n') == assign_var:
                        found = e.get('r')
                        break
                if found is None:
                    st.extend(f.blocks[x]['succ'])
            if found is not None and 'v' in lb:
                out[lb['v']] = found
        return out
    pe = switch_map(enc, 'prom')
    pd = switch_map(dec, 'promoteTo')
    consts = {n: fb.const('Piece::' + n) for n in ('WKNIGHT', 'BKNIGHT', 'WBISHOP', 'BBISHOP', 'WROOK', 'BROOK', 'WQUEEN', 'BQUEEN', 'EMPTY')}
    rep.floor(clause, 'promotion arms in the encoder', len(pe), 8)
    rep.floor(clause, 'promotion arms in the decoder', len(pd), 4)
    bad = []
    for piece, r in pe.items():
        code = (_strip(r) or {}).get('cv')
        back = pd.get(code)
        b0 = _strip(back)
        ok = isinstance(b0, dict) and b0.get('k') == 'cond' and piece in ((_strip(b0.get('a')) or {}).get('cv'), (_strip(b0.get('b')) or {}).get('cv'))
        if ok:
            # white piece on the wtm side
            wv, bv = (_strip(b0['a']) or {}).get('cv'), (_strip(b0['b']) or {}).get('cv')
            name_w = [n for n, v in consts.items() if v == wv]
            name_b = [n for n, v in consts.items() if v == bv]
            ok = bool(name_w) and bool(name_b) and name_w[0].startswith('W') and name_b[0].startswith('B') and name_w[0][1:] == name_b[0][1:] and 'wtm' in show(b0.get('c'))
        if not ok:
            bad.append((piece, code, show(back) if back else None))
    rep.ob(clause, 'K10 inverse tables', 'polyglot promotion codes: getMove decodes every code getPGMove produces back to the same piece kind for the side to move', not bad,
           enc.where, 'mismatches (piece, code, decoded): %s' % bad, enc.sname)
    # bit layout
    def shifts(f, op):
        return sorted({(_strip(n.get('r')) or {}).get('cv') for _, _, e in f.events() for n in walk(e) if n.get('k') == 'bin' and n.get('op') == op and 'cv' in (_strip(n.get('r')) or {})})
    se = shifts(enc, '<<')
    sd = shifts(dec, '>>')
    masks = sorted({(_strip(n.get('r')) or {}).get('cv') for _, _, e in dec.events() for n in walk(e) if n.get('k') == 'bin' and n.get('op') == '&' and 'cv' in (_strip(n.get('r')) or {})})
    rep.ob(clause, 'K10 inverse layout', 'polyglot move word: encoder shifts and decoder shifts/masks agree (3-bit fields at 0,3,6,9,12)', se == [3, 6, 9, 12] and sd == [3, 6, 9, 12] and masks == [7],
           enc.where, 'encoder << %s, decoder >> %s, masks %s' % (se, sd, masks), enc.sname)
    # field order: to-file, to-row, from-file, from-row
    ret = next((e for _, _, e in enc.events() if e.get('k') == 'ret'), None)
    order_e = [n.get('n') for n in walk(ret) if n.get('k') == 'var'] if ret else []
    order_d = {}
    for b, i, e in dec.events():
        if e.get('k') == 'decl':
            for v in e.get('vars', []):
                sh = [(_strip(n.get('r')) or {}).get('cv') for n in walk(v.get('init')) if n.get('k') == 'bin' and n.get('op') == '>>']
                if any(n.get('k') == 'var' and n.get('n') == 'move' for n in walk(v.get('init'))):
                    order_d[v['n']] = sh[0] if sh else 0
    want = {'toFile': 0, 'toRow': 3, 'fromFile': 6, 'fromRow': 9, 'prom': 12}
    rep.ob(clause, 'K10 inverse layout', 'polyglot move word: field order agrees (to-file, to-row, from-file, from-row, promotion)',
           order_e == ['toX', 'toY', 'fromX', 'fromY', 'prom'] and order_d == want, dec.where, 'encoder %s, decoder %s' % (order_e, order_d), dec.sname)
    # castling conversions
    sq = {n: fb.const(n) for n in ('E1', 'G1', 'C1', 'H1', 'A1', 'E8', 'G8', 'C8', 'H8', 'A8')}
    def castle_pairs_dec(f):
        out = set()
        for b, i, e in f.events():
            if e.get('k') == 'call' and cname(e).endswith('Square::operator=') and isinstance(e.get('recv'), dict) and e['recv'].get('n') == 'to':
                newv = next((n.get('cv') for n in walk((e.get('args') or [{}])[0]) if 'cv' in n), None)
                g = G.guards_of(f, set(f.blocks), b)
                oldn = [x for x in g if x.startswith('(to ==')]
                kings = [x for x in g if 'from ==' in x]
                if oldn and kings:
                    out.add((kings[-1], oldn[-1], newv))
        return out
    dp = castle_pairs_dec(dec)
    names = {v: k for k, v in sq.items()}
    dec_pairs = set()
    for kg, old, newv in dp:
        k = 'E1' if 'E1' in kg else 'E8'
        o = old.replace('(to == ', '').rstrip(')')
        dec_pairs.add((k, o.split('::')[-1], names.get(newv)))
    want_dec = {('E1', 'H1', 'G1'), ('E1', 'A1', 'C1'), ('E8', 'H8', 'G8'), ('E8', 'A8', 'C8')}
    rep.ob(clause, 'K10 inverse tables', 'polyglot castling: the decoder maps king-takes-rook to the engine\'s king move for all four castlings', dec_pairs == want_dec, dec.where,
           'decoder conversions %s' % sorted(dec_pairs), dec.sname)
    enc_pairs = set()
    for b, i, e in enc.events():
        if e.get('k') == 'asg' and isinstance(e.get('l'), dict) and e['l'].get('n') == 'toX':
            rook = next((n.get('cv') for n in walk(e.get('r')) if n.get('k') in ('int',) and 'cv' in n and n.get('n')), None)
            rookn = next((n.get('n') for n in walk(e.get('r')) if n.get('k') == 'int' and n.get('n')), None)
            g = G.guards_of(enc, set(enc.blocks), b)
            kg = [x for x in g if 'from() ==' in x or 'from ==' in x]
            tg = [x for x in g if 'to() ==' in x]
            if kg and tg and rookn:
                enc_pairs.add(('E1' if 'E1' in kg[-1] else 'E8', tg[-1].split('== ')[-1].rstrip(')').split('::')[-1], rookn.split('::')[-1]))
    want_enc = {('E1', 'G1', 'H1'), ('E1', 'C1', 'A1'), ('E8', 'G8', 'H8'), ('E8', 'C8', 'A8')}
    rep.ob(clause, 'K10 inverse tables', 'polyglot castling: the encoder is the inverse conversion for all four castlings', enc_pairs == want_enc, enc.where,
           'encoder conversions %s' % sorted(enc_pairs), enc.sname)
    # the king test guards both conversions
    for f, nm in ((enc, 'encoder'), (dec, 'decoder')):
        kt = [show((blk.get('term') or {}).get('cond') or {}, 300) for blk in f.blocks.values() if 'KING' in show((blk.get('term') or {}).get('cond') or {}, 300)]
        rep.ob(clause, 'K4 guard', 'polyglot castling (%s): the conversion applies only when a king stands on the e-file origin square' % nm,
               any('WKING' in x for x in kt) and any('BKING' in x for x in kt), f.where, '', f.sname)
    # built-in book promotion tables
    p2p = fb.find1('Book::pieceToProm')
    pr2 = fb.find1('Book::promToPiece')
    if rep.need(clause, p2p, 'Book::pieceToProm') and rep.need(clause, pr2, 'Book::promToPiece'):
        ev = Evaluator(fb)
        bad = []
        try:
            for name in ('WQUEEN', 'WROOK', 'WBISHOP', 'WKNIGHT', 'BQUEEN', 'BROOK', 'BBISHOP', 'BKNIGHT', 'EMPTY'):
                pv = consts.get(name) if name in consts else fb.const('Piece::' + name)
                r1 = _run_switchy(ev, p2p, {('v', p2p.d['params'][0]['id']): pv})
                wtm = 1 if name.startswith('W') else 0
                r2 = _run_switchy(ev, pr2, {('v', pr2.d['params'][0]['id']): r1, ('v', pr2.d['params'][1]['id']): wtm})
                if name == 'EMPTY':
                    if r2 != pv:
                        bad.append((name, r1, r2))
                elif r2 != pv:
                    bad.append((name, r1, r2))
        except (Unknown, KeyError, IndexError) as ex:
            rep.broken(clause, 'constant evaluation of the book promotion tables failed: %s' % ex)
            bad = None
        if bad is not None:
            rep.ob(clause, 'K10 inverse tables', 'built-in book: promToPiece(pieceToProm(p), colour(p)) == p for every promotion piece and for "none"', not bad, p2p.where, str(bad), p2p.sname)


from ..peval import run_switch as _run_switchy


def c3_files(fb, rep):
    clause = 'C18.3'
    f = fb.find1('Book::getBookEntries')
    if rep.need(clause, f, 'Book::getBookEntries') is None:
        return
    lams = fb.lambdas_in(f)
    rd = None
    for l in lams:
        if any(e.get('k') == 'call' and cname(e).endswith('::read') for _, _, e in l.events()):
            rd = l
    if rep.need(clause, rd, 'readEntry lambda in Book::getBookEntries'):
        reads = [(b, i, e) for b, i, e in rd.events() if e.get('k') == 'call' and cname(e).endswith('::read')]
        for b, i, e in reads:
            # after the read: stream state tested; on failure every byte is zeroed
            brs = [bid for bid, blk in rd.blocks.items() if blk.get('term') and 'fs' in show(blk['term'].get('cond') or {}) and bid != b or
                   (blk.get('term') and 'fs' in show(blk['term'].get('cond') or {}))]
            tested = any(rd.pos_dominates((b, i), (x, 0)) or x == b for x in brs)
            zero = [(b2, e2) for b2, i2, e2 in rd.events() if e2.get('k') == 'asg' and 'data' in show(e2.get('l')) and (e2.get('r') or {}).get('cv') == 0]
            in_loop = any(G.loop_header_of(rd, b2) is not None for b2, e2 in zero)
            rep.ob(clause, 'K2 must-pass-through', 'readEntry: a failed read is detected and the entry is zero-filled', tested and bool(zero) and in_loop, R.site(rd, e), '', rd.sname)
            bound = None
            for b2, e2 in zero:
                h = G.loop_header_of(rd, b2)
                if h is not None:
                    c = rd.blocks[h]['term'].get('cond')
                    bound = show(_strip((c or {}).get('r')))
            sz = (e.get('args') or [None, None])[1]
            rep.ob(clause, 'K11 constant agreement', 'readEntry: the zero-fill covers exactly the bytes the read was asked for', bound is not None and bound == show(_strip(sz)), R.site(rd, e),
                   'zero-fill bound %s, read size %s' % (bound, show(_strip(sz))), rd.sname)
    ent = fb.record('PolyglotBook::PGEntry')
    es = None
    for b, i, e in f.events():
        if e.get('k') == 'decl':
            for v in e.get('vars', []):
                if v.get('n') == 'entSize':
                    es = (v.get('init') or {}).get('cv')
    if rep.need(clause, ent, 'record PolyglotBook::PGEntry'):
        import re
        m = re.search(r'\[(\d+)\]', ent['fields'][0]['ct']) if ent['fields'] else None
        rep.ob(clause, 'K11 constant agreement', 'entry size read from the file equals the size of PGEntry::data', m is not None and es == int(m.group(1)), f.where,
               'entSize %s, array %s' % (es, m.group(1) if m else None), f.sname)
    # binary search bounds
    inits = {}
    for b, i, e in f.events():
        if e.get('k') == 'decl':
            for v in e.get('vars', []):
                if v.get('n') in ('lo', 'hi'):
                    inits[v['n']] = show(_strip(v.get('init')))
    rep.ob(clause, 'K12 index bound', 'binary search starts from the exclusive bounds lo = -1, hi = numEntries', inits.get('lo') == '-1' and inits.get('hi') == 'numEntries', f.where, str(inits), f.sname)
    # reads inside the search use mid, with lo < mid < hi; the loop condition is hi - lo > 1
    cond_ok = any('((hi - lo) > 1)' in show((blk.get('term') or {}).get('cond') or {}) for blk in f.blocks.values())
    mid_ok = any(e.get('k') == 'decl' and any(v.get('n') == 'mid' and show(_strip(v.get('init'))) == '((lo + hi) / 2)' for v in e.get('vars', [])) for _, _, e in f.events())
    rep.ob(clause, 'K12 index bound', 'binary search probes mid = (lo + hi) / 2 only while hi - lo > 1 (so 0 <= mid < numEntries)', cond_ok and mid_ok, f.where, '', f.sname)
    scan_ok = any(show((blk.get('term') or {}).get('cond') or {}) == '(entNo < numEntries)' for blk in f.blocks.values())
    rep.ob(clause, 'K12 index bound', 'the matching-entries scan is bounded by numEntries', scan_ok, f.where, '', f.sname)
    # every decoded entry goes through readEntry first
    dss = [(b, i, e) for b, i, e in f.events() if e.get('k') == 'call' and cname(e) == 'PolyglotBook::deSerialize']
    for b, i, e in dss:
        w = f.path_avoiding((f.entry, -1), lambda x, _e=e: x is _e, lambda x: x is not None and x.get('k') == 'call' and (cname(x).endswith('::operator()') or 'lambda' in (x.get('f') or '')))
        rep.ob(clause, 'K2 must-precede', 'getBookEntries decodes only entries obtained through readEntry', w is None, R.site(f, e), '', f.sname)
    rep.floor(clause, 'deSerialize sites', len(dss), 2)
    # key match before a move is added
    for b, i, e in f.events():
        if e.get('k') == 'call' and cname(e).split('::')[-1] == 'push_back' and isinstance(e.get('recv'), dict) and e['recv'].get('n') == 'bookMoves':
            g = G.guards_of(f, set(f.blocks), b)
            # the `if (entHash != key) break;` precedes: block must be on the false side
            brs = R.branch_blocks(f, lambda c: c.get('k') == 'bin' and c.get('op') in ('!=', '==') and 'entHash' in show(c) and 'key' in show(c))
            ok = False
            for bid, pol, t, fl in brs:
                c = eff_cond(f.blocks[bid]['term'])
                ce, p2 = strip_not(c)
                same_side = fl if ce.get('op') == '!=' else t
                ok = ok or same_side == b or same_side in f.dominators().get(b, set())
            rep.ob(clause, 'K4 guard', 'only entries stored under the position\'s key are offered as book moves', ok, R.site(f, e), '', f.sname)
