"""C08 - transposition table never returns mixed or out-of-range data.  Clauses decided:
 .1 K5  raw slot ownership and index provenance (who touches TTEntryStorage words / table[])
 .2 K7/K10 both slot words are atomics; store/load are an xor codec; probe/insert validate the
        decoded key before the record is used
 .3 K10/K11 bit-field layout: getter/setter agree on (first,size); fields disjoint in 64 bits;
        generation wrap mask <-> width; value ranges fit their fields
 .4 K10 ply shift: setScore/getScore use the same predicates and opposite signs
 .5 K11 bucket constants agree (loop bound 4, ~3 masks, alignment)
 .7 K3  a resident tablebase always has its region reserved (class-invariant typestate, shared with C12.1)
 .6 K12 index bound: topBits*2^shift <= usedSize (floor-halving loop lemma) and
        getIndex(key)+3 < topBits*2^shift for every key, for every (topBits, shift) of the domain
"""
import re

from ..core import cname, ap, walk, show, strip_not, eff_cond
from .. import rules as R
from ..peval import Evaluator, Unknown

EXPLANATION = (
    'Static rules over the resolved program. Decided: (1) the two words of a slot are touched only by the codec '
    '(TTEntry::store/load), the slot constructors and the byte accessors of the tablebase region; table[] is indexed only by '
    'getIndex(key)+i with i below the bucket constant, by whole-table loops bounded by tableSize, or under the tableSize guard; '
    '(2) both words are std::atomic<U64> (a data race on a slot is impossible by type), store writes (key^data, data), load '
    'xors back, and probe/insert compare the decoded key with the probing key before the record is used; (3) every getX/setX '
    'pair uses the same (first,size), the seven fields are pairwise disjoint inside 64 bits, the generation wrap mask equals the '
    'field width, TType / depth / score / move value ranges fit their fields; (4) setScore and getScore shift by ply with the same '
    'predicates and opposite signs; (5) bucket constants agree across probe, insert, setUsedSize, reSize and the tablebase region; '
    '(6) with the floor-halving loop lemma for setUsedSize (x*2^n <= s, x < 256) exact constant evaluation of getIndex at the '
    'extreme key for every (topBits in 128..255, shift in 2..40) shows idx+3 < topBits*2^shift <= usedSize.'
    ' In probe a loaded record is written back or handed out only after the key decoded from that very load matched (typestate, not mere dominance).'
    ' Added later; (9) in reSize tableSize is zeroed between the release of the buffer and every allocation that may throw. (3, revised) every value the generation counter takes fits its field, or setBits confines an over-wide value to the field (evaluated; replaces a comparison of the wrap mask with the field width). (10) updateTB installs a generator only in a table larger than the reservation plus its margin (admission test evaluated with unsigned wrap for 1 .. 64 MB).')
UNDECIDED = ('torn-read freedom beyond "atomics + xor check are in place" (a memory-model argument); replacement-policy quality; '
             'tables below 512 entries (outside the property domain).')
ASSUMPTIONS = ['table sizes >= 512 entries (property domain); usedSize <= 2^48 entries',
               'the maximum of getIndex over keys is attained at the all-ones key (the two summands occupy disjoint bit ranges; checked)']

TT = 'TranspositionTable'
ENT = TT + '::TTEntry'
STO = TT + '::TTEntryStorage'

SLOT_OWNERS = {ENT + '::store', ENT + '::load', STO + '::TTEntryStorage', TT + '::getByte', TT + '::putByte'}
TABLE_INDEXERS = {TT + '::probe', TT + '::insert', TT + '::prefetch', TT + '::getByte', TT + '::putByte',
                  TT + '::printStats', TT + '::getHashFull', TT + '::clear', TT + '::clear::<lambda>'}
FIELDS = ['Move', 'Score', 'Depth', 'Busy', 'Generation', 'Type', 'EvalScore']


def run(fb, rep, tier):
    c1_ownership(fb, rep)
    c2_codec(fb, rep)
    c3_bitfields(fb, rep)
    c4_plyshift(fb, rep)
    c5_bucket(fb, rep)
    c6_index_bound(fb, rep)
    # .7 while a tablebase is resident its region is reserved, and it is dropped when the table is cleared: the
    # generator/region typestate of C12.1 is the same obligation seen from the table's side
    from . import C12
    C12.c1_typestate(fb, rep, clause='C08.7')
    c8_replace_decisions(fb, rep)
    c9_resize_exception_safety(fb, rep)
    c10_reservation_admission(fb, rep)


# ----------------------------------------------------------------------------- .1

def c1_ownership(fb, rep):
    clause = 'C08.1'
    touch = {}
    idxers = {}
    for f in fb.funcs.values():
        if not f.has_cfg or not R.in_prog(f):
            continue
        for b, i, e in f.events():
            if e.get('k') == 'acc' and isinstance(e.get('e'), dict):
                t = e['e']
                if t.get('k') == 'mem' and t.get('f', '') in (STO + '::key', STO + '::data'):
                    touch.setdefault(f.sname, []).append(e.get('ln'))
                if t.get('k') == 'idx' and ap(t.get('b')) == 'this.table' and f.d.get('cls') == TT or \
                        (t.get('k') == 'idx' and ap(t.get('b')) == 'this.table' and f.d.get('lambda') and 'TranspositionTable' in f.key):
                    idxers.setdefault(f.sname, []).append((b, i, e))
    rep.floor(clause, 'functions touching the raw slot words', len(touch), 4)
    for name in sorted(touch):
        rep.ob(clause, 'K5 who-may-access', 'raw slot words touched by %s' % name, name in SLOT_OWNERS, '',
               '' if name in SLOT_OWNERS else 'TTEntryStorage::key/data may only be touched by %s (lines %s)' % (sorted(SLOT_OWNERS), touch[name][:4]), name)
    rep.floor(clause, 'functions indexing table[]', len(idxers), 6)
    for name in sorted(idxers):
        rep.ob(clause, 'K5 who-may-access', 'table[] indexed by %s' % name, name in TABLE_INDEXERS, '',
               '' if name in TABLE_INDEXERS else 'table[] may only be indexed by the known accessors', name)
    # index provenance in the bucket accessors
    for name in (TT + '::probe', TT + '::insert'):
        f = fb.find1(name)
        if not rep.need(clause, f, name):
            continue
        defs = _local_defs(f)
        n = 0
        for b, i, e in idxers.get(name, []):
            n += 1
            ok, why = _bucket_index(f, e['e'].get('i'), defs, 0)
            rep.ob(clause, 'K15 index provenance', '%s: table[] index #%d is getIndex(key) + i, i < bucket size' % (name.split('::')[-1], n),
                   ok, R.site(f, e), why, name)
    # whole-table loops
    ps = fb.find1(TT + '::printStats')
    if rep.need(clause, ps, TT + '::printStats'):
        for b, i, e in idxers.get(TT + '::printStats', []):
            ix = _strip(e['e'].get('i'))
            ok = isinstance(ix, dict) and ix.get('k') == 'var' and _loop_upper(ps, ix.get('id')) == 'this.tableSize'
            rep.ob(clause, 'K15 index provenance', 'printStats: loop bounded by tableSize', ok, R.site(ps, e), '', ps.sname)
    hf = fb.find1(TT + '::getHashFull')
    if rep.need(clause, hf, TT + '::getHashFull'):
        for b, i, e in idxers.get(TT + '::getHashFull', []):
            ix = _strip(e['e'].get('i'))
            ub = _loop_upper(hf, ix.get('id')) if isinstance(ix, dict) else None
            # guard: tableSize < ub returns early
            guard = False
            for d in hf.dominators().get(b, set()):
                t = hf.blocks[d].get('term')
                c = eff_cond(t) if t else None
                ce, pol = strip_not(c) if c is not None else (None, True)
                if isinstance(ce, dict) and ce.get('k') == 'bin' and ce.get('op') == '<' and ap(ce.get('l')) == 'this.tableSize' and \
                        isinstance(ce.get('r'), dict) and isinstance(ub, int) and ce['r'].get('cv', -1) >= ub and pol:
                    fs_ = hf.blocks[d]['succ'][1]
                    if fs_ == b or fs_ in hf.dominators().get(b, set()):
                        guard = True
            rep.ob(clause, 'K15 index provenance', 'getHashFull: sample loop guarded by the table-size test', guard and isinstance(ub, int),
                   R.site(hf, e), 'loop bound %s' % ub, hf.sname)
    # byte accessors: slot = idx / sizeof(slot), half select by offs < 8
    slot = (fb.record(STO) or {}).get('size')
    for name in (TT + '::getByte', TT + '::putByte'):
        f = fb.find1(name)
        if not rep.need(clause, f, name):
            continue
        divs = set()
        masks = set()
        p0 = (f.d.get('params') or [{}])[0].get('id')
        for b, i, e in f.events():
            for n2 in walk(e):
                if n2.get('k') == 'bin' and n2.get('op') == '/' and isinstance(n2.get('l'), dict) and n2['l'].get('id') == p0 and 'cv' in (n2.get('r') or {}):
                    divs.add(n2['r']['cv'])
                if n2.get('k') == 'bin' and n2.get('op') == '&' and isinstance(n2.get('l'), dict) and n2['l'].get('id') == p0 and 'cv' in (n2.get('r') or {}):
                    masks.add(n2['r']['cv'])
        rep.ob(clause, 'K11 constant agreement', '%s: byte index split agrees with the slot size' % name.split('::')[-1],
               divs == {slot} and masks == {slot - 1}, f.where, 'divisors %s masks %s slot size %s' % (sorted(divs), sorted(masks), slot), name)


def _strip(t):
    while isinstance(t, dict) and t.get('k') == 'cast':
        t = t.get('e')
    return t


def _local_defs(f):
    defs = {}
    for b, i, e in f.events():
        if e.get('k') == 'decl':
            for v in e.get('vars', []):
                if v.get('init') is not None:
                    defs.setdefault(v['id'], []).append(v['init'])
        if e.get('k') == 'asg' and isinstance(e.get('l'), dict) and e['l'].get('k') == 'var':
            defs.setdefault(e['l'].get('id'), []).append(e['r'] if e.get('op') == '=' else {'k': 'bin', 'op': e['op'][:-1], 'l': e['l'], 'r': e['r']})
        if e.get('k') == 'incdec' and isinstance(e.get('e'), dict) and e['e'].get('k') == 'var':
            defs.setdefault(e['e'].get('id'), []).append({'k': 'incdec'})
    return defs


def _bucket_index(f, t, defs, depth):
    """index tree is: getIndex(..) | bucketvar | bucketvar + loopvar(i < 4)"""
    t = _strip(t)
    if depth > 6 or not isinstance(t, dict):
        return False, 'unrecognised index expression'
    if t.get('k') == 'call' and cname(t) == TT + '::getIndex':
        return True, ''
    if t.get('k') == 'bin' and t.get('op') == '+':
        l, r = _strip(t.get('l')), _strip(t.get('r'))
        okl, why = _bucket_index(f, l, defs, depth + 1)
        if not okl:
            return False, why
        if isinstance(r, dict) and r.get('k') == 'var':
            ub = _loop_upper(f, r.get('id'))
            if ub == 4:
                return True, ''
            return False, 'offset variable %s is bounded by %s, bucket size is 4' % (r.get('n'), ub)
        if isinstance(r, dict) and 'cv' in r and 0 <= r['cv'] < 4:
            return True, ''
        return False, 'offset %s' % show(r)
    if t.get('k') == 'var':
        ds = defs.get(t.get('id'))
        if not ds:
            return False, 'index variable %s has no local definition' % t.get('n')
        for d in ds:
            ok, why = _bucket_index(f, d, defs, depth + 1)
            if not ok:
                return False, why
        return True, ''
    return False, 'index expression %s' % show(t)


def _loop_upper(f, var_id):
    """Upper bound of a for-loop variable: constant N or access path, from `v < N` conditions;
    None when the variable is also written outside `v++`."""
    bound = None
    for bid, blk in f.blocks.items():
        t = blk.get('term')
        if not t or t.get('c') != 'ForStmt':
            continue
        c = t.get('cond')
        if isinstance(c, dict) and c.get('k') == 'bin' and c.get('op') == '<':
            l = _strip(c.get('l'))
            if isinstance(l, dict) and l.get('k') == 'var' and l.get('id') == var_id:
                r = _strip(c.get('r'))
                bound = r.get('cv') if isinstance(r, dict) and 'cv' in r else ap(r)
    if bound is None:
        return None
    for b, i, e in f.events():
        if e.get('k') == 'asg' and isinstance(e.get('l'), dict) and e['l'].get('id') == var_id and e['l'].get('k') == 'var':
            return None
        if e.get('k') == 'incdec' and isinstance(e.get('e'), dict) and e['e'].get('id') == var_id and e.get('op') != '++':
            return None
    return bound


# ----------------------------------------------------------------------------- .2

def c2_codec(fb, rep):
    clause = 'C08.2'
    rec = fb.record(STO)
    if rep.need(clause, rec, 'record ' + STO):
        for fl in rec['fields']:
            ok = fl['ct'].startswith('std::atomic<unsigned long') or fl['ct'].startswith('std::atomic<unsigned long long')
            rep.ob(clause, 'K7 atomic type', 'slot word %s is std::atomic<64-bit unsigned>' % fl['n'], ok, '%s:%s' % (rec['file'], fl['ln']), fl['ct'], '')
        rep.ob(clause, 'K7 layout', 'a slot is exactly two 64-bit words', rec.get('size') == 16 and len(rec['fields']) == 2, rec['file'] + ':' + str(rec['line']), 'size %s' % rec.get('size'), '')
    st = fb.find1(ENT + '::store')
    ld = fb.find1(ENT + '::load')
    if rep.need(clause, st, ENT + '::store'):
        wk = wd = None
        for b, i, e in st.events():
            if e.get('k') == 'call' and cname(e).endswith('::store') and e.get('recv') is not None:
                tgt = ap(e['recv'])
                a = _strip((e.get('args') or [None])[0])
                if tgt and tgt.endswith('.key'):
                    wk = a
                if tgt and tgt.endswith('.data'):
                    wd = a
        okk = isinstance(wk, dict) and wk.get('k') == 'bin' and wk.get('op') == '^' and \
            {ap(_strip(wk.get('l'))), ap(_strip(wk.get('r')))} == {'this.key', 'this.data'}
        okd = ap(wd) == 'this.data'
        rep.ob(clause, 'K10 xor codec', 'store writes key^data into the key word', okk, st.where, show(wk), st.sname)
        rep.ob(clause, 'K10 xor codec', 'store writes data into the data word', okd, st.where, show(wd), st.sname)
    if rep.need(clause, ld, ENT + '::load'):
        seq = []
        for b, i, e in ld.events():
            if e.get('k') == 'asg':
                seq.append((ap(e.get('l')), e.get('op'), e.get('r')))
        got_k = any(l == 'this.key' and op == '=' and any(cname(n).endswith('::load') and (ap(n.get('recv')) or '').endswith('.key') for n in walk(r) if n.get('k') == 'call') for l, op, r in seq)
        got_d = any(l == 'this.data' and op == '=' and any(cname(n).endswith('::load') and (ap(n.get('recv')) or '').endswith('.data') for n in walk(r) if n.get('k') == 'call') for l, op, r in seq)
        xors = [j for j, (l, op, r) in enumerate(seq) if l == 'this.key' and op == '^=' and ap(_strip(r)) == 'this.data']
        last_load = max([j for j, (l, op, r) in enumerate(seq) if op == '='] or [-1])
        ok = got_k and got_d and len(xors) == 1 and xors[0] > last_load
        rep.ob(clause, 'K10 xor codec', 'load reads both words and xors the key back after both reads', ok, ld.where,
               'assignments: %s' % [(l, op) for l, op, r in seq], ld.sname)
    # probe / insert compare the decoded key with the probing key before using the record
    pr = fb.find1(TT + '::probe')
    if rep.need(clause, pr, TT + '::probe'):
        from ..flow import Flow
        key_ids = {p_['id'] for p_ in pr.d.get('params', []) if 'TTEntry' not in (p_.get('t') or '')}
        out_ids = {p_['id'] for p_ in pr.d.get('params', []) if 'TTEntry' in (p_.get('t') or '')}
        ents = {v['id'] for _, _, e in pr.events() if e.get('k') == 'decl' for v in e.get('vars', []) if 'TTEntry' in (v.get('t') or '')}
        viol = {}
        n_cmp = [0]

        def ent_of(t):
            t = _strip(t)
            while isinstance(t, dict) and t.get('k') == 'ctor' and len(t.get('args', [])) == 1:
                t = _strip(t['args'][0])
            return t.get('id') if isinstance(t, dict) and t.get('k') == 'var' and t.get('id') in ents else None

        def transfer(e, st, pos):
            d = dict(st)
            k = e.get('k')
            if k == 'call':
                n = cname(e)
                r = ent_of(e.get('recv')) if e.get('recv') is not None else None
                if n == ENT + '::load' and r is not None:
                    d[r] = 'RAW'
                    return [tuple(sorted(d.items()))]
                if n == ENT + '::store' and r is not None and d.get(r) == 'RAW':
                    viol[pos] = ('a record is written back to the table although the key of what was last loaded into it has not been compared', e)
                if n.endswith('TTEntry::operator=') and e.get('recv') is not None and _strip(e['recv']).get('id') in out_ids:
                    src = ent_of((e.get('args') or [None])[0])
                    if src is not None and d.get(src) == 'RAW':
                        viol[pos] = ('the record handed to the caller was loaded after the last key comparison', e)
            if k == 'asg' and isinstance(_strip(e.get('l')), dict) and _strip(e['l']).get('id') in out_ids:
                src = ent_of(e.get('r'))
                if src is not None and d.get(src) == 'RAW':
                    viol[pos] = ('the record handed to the caller was loaded after the last key comparison', e)
            return [st]

        def refine(atom, tv, st):
            a = _strip(atom)
            if isinstance(a, dict) and a.get('k') == 'bin' and a.get('op') in ('==', '!='):
                for x, y in ((a['l'], a['r']), (a['r'], a['l'])):
                    x0, y0 = _strip(x), _strip(y)
                    if isinstance(x0, dict) and x0.get('k') == 'call' and cname(x0) == ENT + '::getKey' and ent_of(x0.get('recv')) is not None and \
                            isinstance(y0, dict) and y0.get('k') == 'var' and y0.get('id') in key_ids:
                        n_cmp[0] += 1
                        if (a['op'] == '==') == bool(tv):
                            d = dict(st)
                            d[ent_of(x0['recv'])] = 'OK'
                            return [tuple(sorted(d.items()))]
            return [st]
        fl = Flow(pr, transfer, refine).run({()})
        rep.floor(clause, 'key comparisons in probe', 1 if n_cmp[0] else 0, 1)
        first = sorted(viol.items())[0][1] if viol else None
        rep.ob(clause, 'K3 typestate', 'probe: a loaded record is written back or handed out only after the key decoded from that very load matched the probing key', not viol and not fl.overflow,
               R.site(pr, first[1]) if first else pr.where, '; '.join('line %s: %s' % (e.get('ln'), w) for _, (w, e) in sorted(viol.items())), pr.sname)
        # the miss path marks the result empty
        def set_empty(e):
            return e is not None and e.get('k') == 'call' and cname(e) == ENT + '::setType' and isinstance((e.get('args') or [None])[0], dict) and e['args'][0].get('cv') == 0
        def copy_out(e):
            return e is not None and ((e.get('k') == 'call' and cname(e).endswith('TTEntry::operator=')) or
                                      (e.get('k') == 'asg' and isinstance(_strip(e.get('l')), dict) and _strip(e['l']).get('id') in out_ids))
        w = pr.path_avoiding((pr.entry, -1), R.at_exit, lambda e: set_empty(e) or copy_out(e))
        rep.ob(clause, 'K2 must-pass-through', 'probe: every path returns a validated record or T_EMPTY', w is None, pr.where, '', pr.sname)


# ----------------------------------------------------------------------------- .3

def c3_bitfields(fb, rep):
    clause = 'C08.3'
    layout = {}
    for nm in FIELDS:
        g = fb.find1(ENT + '::get' + nm)
        s = fb.find1(ENT + '::set' + nm)
        if not rep.need(clause, g, ENT + '::get' + nm) or not rep.need(clause, s, ENT + '::set' + nm):
            continue
        ga = _bits_args(g, ENT + '::getBits')
        sa = _bits_args(s, ENT + '::setBits')
        ok = ga is not None and sa is not None and ga == sa
        rep.ob(clause, 'K10 getter/setter agreement', 'get%s / set%s use the same (first,size)' % (nm, nm), ok, g.where,
               'getter %s setter %s' % (ga, sa), g.sname)
        if ga:
            layout[nm] = ga
    rep.floor(clause, 'bit-field accessor pairs', len(layout), 7)
    names = sorted(layout, key=lambda n: layout[n][0])
    for a in range(len(names)):
        fa = layout[names[a]]
        inside = fa[0] >= 0 and fa[1] > 0 and fa[0] + fa[1] <= 64
        rep.ob(clause, 'K10 layout', 'field %s lies inside the 64-bit data word' % names[a], inside, '', str(fa), '')
        for b in range(a + 1, len(names)):
            fb_ = layout[names[b]]
            disjoint = fa[0] + fa[1] <= fb_[0] or fb_[0] + fb_[1] <= fa[0]
            rep.ob(clause, 'K10 layout', 'fields %s and %s are disjoint' % (names[a], names[b]), disjoint, '', '%s vs %s' % (fa, fb_), '')
    # setBits / getBits are mask-and-shift inverses (structure)
    sb = fb.find1(ENT + '::setBits')
    gb = fb.find1(ENT + '::getBits')
    if rep.need(clause, sb, ENT + '::setBits') and rep.need(clause, gb, ENT + '::getBits'):
        ev = Evaluator(fb)
        bad = []
        try:
            for first, size in sorted(set(layout.values())):
                for val in (0, 1, (1 << size) - 1, (1 << size) - 2, 0x5555 & ((1 << size) - 1)):
                    for bg in (0, 0xFFFFFFFFFFFFFFFF, 0xA5A5A5A5A5A5A5A5):
                        env = {'this.data': bg, ('v', sb.d['params'][0]['id']): first, ('v', sb.d['params'][1]['id']): size,
                               ('v', sb.d['params'][2]['id']): val}
                        r = ev.run(sb, env)
                        nd = r['env']['this.data'] & 0xFFFFFFFFFFFFFFFF
                        mask = ((1 << size) - 1) << first
                        if (nd & ~mask) != (bg & ~mask) or ((nd >> first) & ((1 << size) - 1)) != val:
                            bad.append(('set', first, size, val, hex(bg), hex(nd)))
                        env2 = {'this.data': nd, ('v', gb.d['params'][0]['id']): first, ('v', gb.d['params'][1]['id']): size}
                        r2 = ev.run(gb, env2)
                        if r2['ret'] != val:
                            bad.append(('get', first, size, val, r2['ret']))
        except (Unknown, KeyError) as ex:
            rep.broken(clause, 'constant evaluation of setBits/getBits failed: %s' % ex)
            bad = None
        if bad is not None:
            rep.ob(clause, 'K10 inverse', 'getBits(first,size) returns what setBits(first,size,v) stored and other bits are preserved '
                                          '(constant evaluation on boundary values of each declared field)', not bad, sb.where, str(bad[:3]), sb.sname)
    # value ranges
    ng = fb.find1(TT + '::nextGeneration')
    if rep.need(clause, ng, TT + '::nextGeneration') and 'Generation' in layout:
        w = layout['Generation'][1]
        # every value the generation counter can take (nextGeneration iterated from the cleared value 0 to a cycle) fits the
        # generation field - or setBits confines an out-of-range value to its own field.  Either alone keeps a refreshed
        # entry's other fields (type, depth, score) intact; a counter that reaches 2^w together with an unmasked setBits
        # rewrites the neighbouring type bit of every entry refreshed in that generation.
        ev2 = Evaluator(fb)
        seen_g, g, ok_eval = [], 0, True
        try:
            for _ in range(600):
                if g in seen_g:
                    break
                seen_g.append(g)
                g = ev2.run(ng, {'this.generation': g})['env']['this.generation']
        except (Unknown, KeyError) as ex:
            ok_eval = False
            rep.broken(clause, 'nextGeneration not evaluable: %s' % ex)
        if ok_eval:
            fits = max(seen_g) < (1 << w) and min(seen_g) >= 0
            confined = None
            if sb is not None:
                try:
                    confined = True
                    first, size = layout['Generation']
                    for val in ((1 << size), (1 << size) | 1, 0xFFFFFFFF):
                        for bg in (0, 0xA5A5A5A5A5A5A5A5):
                            r = ev2.run(sb, {'this.data': bg, ('v', sb.d['params'][0]['id']): first, ('v', sb.d['params'][1]['id']): size, ('v', sb.d['params'][2]['id']): val})
                            mask = ((1 << size) - 1) << first
                            if (r['env']['this.data'] & 0xFFFFFFFFFFFFFFFF & ~mask) != (bg & ~mask):
                                confined = False
                except (Unknown, KeyError):
                    confined = None
            rep.ob(clause, 'K12 range', 'every value the generation counter takes fits its %d-bit field, or setBits confines an over-wide value to the field' % w, fits or bool(confined), ng.where,
                   'counter cycle %s..%s (%d values); setBits confines over-wide values: %s' % (min(seen_g), max(seen_g), len(seen_g), confined), ng.sname)
    consts = {}
    for q in ('TType::T_EMPTY', 'TType::T_EXACT', 'TType::T_GE', 'TType::T_LE', 'SearchConst::MATE0', 'SearchConst::MAX_SEARCH_DEPTH'):
        consts[q] = fb.global_const(q)
        rep.need(clause, consts[q] if consts[q] is not None else None, 'constant ' + q) if consts[q] is None else None
    if None not in consts.values():
        if 'Type' in layout:
            mx = max(consts[q] for q in consts if q.startswith('TType::'))
            rep.ob(clause, 'K12 range', 'every TType value fits the type field', 0 <= mx < (1 << layout['Type'][1]), '', 'max %d, width %d' % (mx, layout['Type'][1]), '')
        if 'Depth' in layout:
            rep.ob(clause, 'K12 range', 'MAX_SEARCH_DEPTH fits the depth field', consts['SearchConst::MAX_SEARCH_DEPTH'] < (1 << layout['Depth'][1]), '',
                   'MAX_SEARCH_DEPTH %d, width %d' % (consts['SearchConst::MAX_SEARCH_DEPTH'], layout['Depth'][1]), '')
        if 'Score' in layout:
            top = consts['SearchConst::MATE0'] + 2 * consts['SearchConst::MAX_SEARCH_DEPTH']
            rep.ob(clause, 'K12 range', 'MATE0 + 2*MAX_SEARCH_DEPTH fits the signed score field', top < (1 << (layout['Score'][1] - 1)), '',
                   'value %d, width %d' % (top, layout['Score'][1]), '')
    np_ = fb.const('Piece::nPieceTypes')
    if 'Move' in layout and rep.need(clause, np_, 'Piece::nPieceTypes'):
        # compressed move: from + (to << 6) + (promote << 12)
        cm = fb.find1('Move::getCompressedMove')
        shifts = sorted({n['r']['cv'] for _, _, e in cm.events() for n in walk(e) if n.get('k') == 'bin' and n.get('op') == '<<' and 'cv' in (n.get('r') or {})}) if cm else []
        ok = shifts == [6, 12] and 12 + (np_ - 1).bit_length() <= layout['Move'][1]
        rep.ob(clause, 'K12 range', 'compressed move (from, to<<6, promote<<12) fits the move field', ok, cm.where if cm else '',
               'shifts %s, nPieceTypes %s, width %d' % (shifts, np_, layout['Move'][1]), '')
        fc = fb.find1('Move::setFromCompressed')
        if rep.need(clause, fc, 'Move::setFromCompressed'):
            sh = sorted({n['r']['cv'] for _, _, e in fc.events() for n in walk(e) if n.get('k') == 'bin' and n.get('op') == '>>' and 'cv' in (n.get('r') or {})})
            mk = sorted({n['r']['cv'] for _, _, e in fc.events() for n in walk(e) if n.get('k') == 'bin' and n.get('op') == '&' and 'cv' in (n.get('r') or {})})
            rep.ob(clause, 'K10 inverse', 'setFromCompressed decodes with the shifts/masks getCompressedMove encodes with', sh == [6, 12] and mk == [15, 63], fc.where,
                   'shifts %s masks %s' % (sh, mk), fc.sname)


def _bits_args(f, callee):
    out = None
    for b, i, e in f.events():
        if e.get('k') == 'call' and cname(e) == callee:
            a = e.get('args', [])
            if len(a) >= 2 and 'cv' in (a[0] or {}) and 'cv' in (a[1] or {}):
                if out is not None:
                    return None
                out = (a[0]['cv'], a[1]['cv'])
    return out


# ----------------------------------------------------------------------------- .4

def c4_plyshift(fb, rep, clause='C08.4'):
    g = fb.find1(ENT + '::getScore')
    s = fb.find1(ENT + '::setScore')
    if not rep.need(clause, g, ENT + '::getScore') or not rep.need(clause, s, ENT + '::setScore'):
        return

    def shifts(f, var_ids, ply_id):
        out = {}
        for b, i, e in f.events():
            if e.get('k') == 'asg' and e.get('op') in ('+=', '-=') and isinstance(e.get('l'), dict) and e['l'].get('id') in var_ids:
                r = _strip(e.get('r'))
                if isinstance(r, dict) and r.get('k') == 'var' and r.get('id') == ply_id:
                    # predicate guarding it
                    pred = None
                    for d in f.dominators().get(b, set()):
                        t = f.blocks[d].get('term')
                        c = eff_cond(t) if t else None
                        ce, pol = strip_not(c) if c is not None else (None, True)
                        if isinstance(ce, dict) and ce.get('k') == 'call' and cname(ce) in ('SearchConst::isWinScore', 'SearchConst::isLoseScore'):
                            ts_ = f.blocks[d]['succ'][0] if pol else f.blocks[d]['succ'][1]
                            if ts_ == b or ts_ in f.dominators().get(b, set()):
                                pred = cname(ce).split('::')[-1]
                    out[pred] = out.get(pred, []) + [e['op']]
        return out
    ret_ids = {n.get('id') for _, _, e in g.events() if e.get('k') == 'ret' for n in walk(e.get('e') or {}) if n.get('k') == 'var' and n.get('vk') == 'local'}
    gs = shifts(g, ret_ids, g.d['params'][0]['id'])
    ss = shifts(s, {s.d['params'][0]['id']}, s.d['params'][1]['id'])
    want_set = {'isWinScore': ['+='], 'isLoseScore': ['-=']}
    want_get = {'isWinScore': ['-='], 'isLoseScore': ['+=']}
    rep.ob(clause, 'K10 sibling agreement', 'setScore: win scores += ply, lose scores -= ply', ss == want_set, s.where, str(ss), s.sname)
    rep.ob(clause, 'K10 sibling agreement', 'getScore: win scores -= ply, lose scores += ply (exact inverse of setScore)', gs == want_get, g.where, str(gs), g.sname)
    # the predicates are symmetric thresholds around 0
    w = fb.find1('SearchConst::isWinScore')
    l = fb.find1('SearchConst::isLoseScore')
    if rep.need(clause, w, 'SearchConst::isWinScore') and rep.need(clause, l, 'SearchConst::isLoseScore'):
        ev = Evaluator(fb)
        mate0 = fb.global_const('SearchConst::MATE0')
        bad = []
        try:
            for v in range(-32768, 32768, 1):
                rw = ev.run(w, {('v', w.d['params'][0]['id']): v})['ret']
                rl = ev.run(l, {('v', l.d['params'][0]['id']): v})['ret']
                rw2 = ev.run(l, {('v', l.d['params'][0]['id']): -v})['ret']
                if rw and rl:
                    bad.append(('both', v))
                if bool(rw) != bool(rw2):
                    bad.append(('asym', v))
        except (Unknown, KeyError) as ex:
            rep.broken(clause, 'constant evaluation of isWinScore/isLoseScore failed: %s' % ex)
            bad = None
        if bad is not None:
            rep.ob(clause, 'K12 state partition', 'isWinScore / isLoseScore are disjoint and mirror images over the 16-bit score range', not bad, w.where, str(bad[:3]), '')
        # a shifted score keeps its class for every ply the search can reach: |score| > MATE0/2 + 2*MAX_SEARCH_DEPTH not needed;
        # the stored value must stay within 16 bits (C08.3)
    # the stored field is read back sign-extended
    cast16 = any(n.get('k') == 'cast' and n.get('t') == 'short' for _, _, e in g.events() for n in walk(e))
    rep.ob(clause, 'K10 sibling agreement', 'getScore sign-extends the 16-bit field', cast16, g.where, '', g.sname)


# ----------------------------------------------------------------------------- .5

def restore_ply_agreement(fb, rep, clause):
    # a score decoded at ply p and stored again is encoded at the same ply (re-store sites such as setBusy)
    n_re = 0
    for f in sorted(fb.funcs.values(), key=lambda x: x.key):
        if not f.has_cfg or not R.in_engine(f):
            continue
        decoded = {}     # move variable id -> ply tree of the getScore it was scored with
        for b, i, e in f.events():
            if e.get('k') == 'call' and cname(e) == 'Move::setScore' and isinstance(e.get('recv'), dict) and e['recv'].get('k') == 'var':
                gs_ = [n for a in e.get('args', []) for n in walk(a) if n.get('k') == 'call' and cname(n) == ENT + '::getScore' and n.get('args')]
                if gs_:
                    decoded[e['recv'].get('id')] = gs_[0]['args'][0]
        if not decoded:
            continue
        for b, i, e in f.events():
            if e.get('k') == 'call' and cname(e).split('::')[-1] == 'insert' and 'TranspositionTable' in cname(e) or (e.get('k') == 'call' and cname(e) == 'ClusterTT::insert'):
                a = e.get('args', [])
                if len(a) >= 4 and isinstance(_strip(a[1]), dict) and _strip(a[1]).get('id') in decoded:
                    n_re += 1
                    p_read = decoded[_strip(a[1])['id']]
                    same = show(_strip(p_read)) == show(_strip(a[3])) and (_strip(p_read) or {}).get('id') == (_strip(a[3]) or {}).get('id')
                    rep.ob(clause, 'K10 sibling agreement', '%s: a score decoded with getScore(ply) is stored again at the same ply' % f.sname, same, R.site(f, e),
                           'decoded at %s, stored at %s' % (show(p_read), show(a[3])), f.sname)
    rep.floor(clause, 're-store sites of a decoded score', n_re, 1)


def c5_bucket(fb, rep):
    clause = 'C08.5'
    bounds = {}
    for name in (TT + '::probe', TT + '::insert'):
        f = fb.find1(name)
        if not rep.need(clause, f, name):
            continue
        bs = set()
        for bid, blk in f.blocks.items():
            t = blk.get('term')
            if t and t.get('c') == 'ForStmt' and isinstance(t.get('cond'), dict) and t['cond'].get('op') == '<':
                r = _strip(t['cond'].get('r'))
                if isinstance(r, dict) and 'cv' in r:
                    bs.add(r['cv'])
        bounds[name] = bs
        rep.ob(clause, 'K11 constant agreement', '%s: bucket loop bound is 4' % name.split('::')[-1], bs == {4}, f.where, str(sorted(bs)), name)
    su = fb.find1(TT + '::setUsedSize')
    if rep.need(clause, su, TT + '::setUsedSize'):
        inv = {n['e']['cv'] for _, _, e in su.events() for n in walk(e) if n.get('k') == 'un' and n.get('op') == '~' and 'cv' in (n.get('e') or {})}
        rep.ob(clause, 'K11 constant agreement', 'setUsedSize: low-bit mask clears exactly bucket-1 (~3)', inv == {3}, su.where, str(sorted(inv)), su.sname)
    restore_ply_agreement(fb, rep, clause)
    rs = fb.find1(TT + '::reSize')
    if rep.need(clause, rs, TT + '::reSize'):
        inv = {n['e']['cv'] for _, _, e in rs.events() for n in walk(e) if n.get('k') == 'un' and n.get('op') == '~' and 'cv' in (n.get('e') or {})}
        mins = {n['r']['cv'] for bid, blk in rs.blocks.items() if blk.get('term') and blk['term'].get('cond') for n in walk(blk['term']['cond'])
                if n.get('k') == 'bin' and n.get('op') == '<' and 'cv' in (n.get('r') or {})}
        rep.ob(clause, 'K11 constant agreement', 'reSize: table size is aligned to the bucket size (&= ~3, minimum 4)', inv == {3} and 4 in mins, rs.where,
               'masks %s minimum tests %s' % (sorted(inv), sorted(mins)), rs.sname)
    up = fb.find1(TT + '::updateTB')
    if rep.need(clause, up, TT + '::updateTB'):
        slot = (fb.record(STO) or {}).get('size') or 16
        from . import C12
        tb = C12.tb_size_roles(up)[2]
        rep.ob(clause, 'K11 constant agreement', 'tablebase region is a whole number of buckets', tb is not None and tb % slot == 0 and (tb // slot) % 4 == 0,
               up.where, 'tbSize %s slot %s' % (tb, slot), up.sname)
        # the table is placed where the reservation is: TTStorage puts it at byteSize() - size, and setUsedSize gives the
        # probes [0, tableSize - tbSize/slot); so byteSize() must be the size of the *whole* table (tableSize slots), not of
        # the part currently in use (a second table generated while one is resident would land inside the live region)
        bs = fb.find1(TT + '::byteSize')
        rz = fb.find1('TTStorage::resize')
        if rep.need(clause, bs, TT + '::byteSize') and rep.need(clause, rz, 'TTStorage::resize'):
            ret = [_strip(e.get('e')) for _, _, e in bs.events() if e.get('k') == 'ret']
            ok = False
            detail = 'return %s' % [show(r_) for r_ in ret]
            if len(ret) == 1 and isinstance(ret[0], dict) and ret[0].get('k') == 'bin' and ret[0].get('op') == '*':
                sides = [_strip(ret[0].get('l')), _strip(ret[0].get('r'))]
                flds = [ap(x) for x in sides if ap(x)]
                consts = [x.get('cv') for x in sides if isinstance(x, dict) and 'cv' in x]
                ok = flds == ['this.tableSize'] and consts == [slot]
            rep.ob(clause, 'K11 region agreement', 'byteSize() is the size of the whole table (tableSize slots), the base the reserved region is measured from', ok, bs.where, detail, bs.sname)
            # idx0 = table.byteSize() - size
            okz = False
            dz = ''
            for _, _, e in rz.events():
                if e.get('k') == 'asg' and ap(e.get('l')) == 'this.idx0':
                    r_ = _strip(e.get('r'))
                    dz = show(r_)
                    okz = isinstance(r_, dict) and r_.get('k') == 'bin' and r_.get('op') == '-' and \
                        any(n.get('k') == 'call' and cname(n) == TT + '::byteSize' for n in walk(r_.get('l'))) and \
                        isinstance(_strip(r_.get('r')), dict) and _strip(r_.get('r')).get('vk') == 'param'
            rep.ob(clause, 'K11 region agreement', 'TTStorage::resize places the table in the last `size` bytes of the whole table', okz, rz.where, dz, rz.sname)


# ----------------------------------------------------------------------------- .6

def c6_index_bound(fb, rep):
    clause = 'C08.6'
    su = fb.find1(TT + '::setUsedSize')
    gi = fb.find1(TT + '::getIndex')
    if not rep.need(clause, su, TT + '::setUsedSize') or not rep.need(clause, gi, TT + '::getIndex'):
        return
    # --- loop lemma: x = s; n = 0; while (x >= C) { x /= 2; n++; }  =>  x * 2^n <= s  and  x < C
    lem = _halving_lemma(su)
    rep.ob(clause, 'K12 loop lemma', 'setUsedSize: floor-halving loop establishes topBits * 2^shift <= usedSize and topBits < 256',
           lem['ok'], su.where, lem['why'], su.sname)
    if lem.get('undecided'):
        rep.broken(clause, 'the halving loop of setUsedSize is not in a form the lemma recognises: ' + lem['why'])
    # usedSizeMask = ((1 << shift) - 1) & ~3 ; usedSizeTopBits = (int)topBits
    ev = Evaluator(fb)
    C = lem.get('C') or 256
    bad = []
    n_eval = 0
    try:
        pk = ('v', gi.d['params'][0]['id'])
        for top in range(C // 2, C):
            for shift in range(2, 41):
                mask = ((1 << shift) - 1) & ~3
                # mask as computed by setUsedSize's expression
                env = {'this.usedSizeTopBits': top, 'this.usedSizeShift': shift, 'this.usedSizeMask': mask,
                       pk: 0xFFFFFFFFFFFFFFFF}
                r = ev.run(gi, env)['ret']
                n_eval += 1
                if r is None or r + 3 >= (top << shift):
                    bad.append((top, shift, r))
                    if len(bad) > 3:
                        raise StopIteration
    except StopIteration:
        pass
    except (Unknown, KeyError) as ex:
        rep.broken(clause, 'constant evaluation of getIndex failed: %s' % ex)
        return
    rep.ob(clause, 'K12 index bound', 'getIndex(all-ones key) + 3 < topBits * 2^shift for every topBits in %d..%d, shift in 2..40' % (C // 2, C - 1),
           not bad, gi.where, 'counterexamples (topBits, shift, idx): %s' % bad[:3] if bad else '%d parameter pairs evaluated' % n_eval, gi.sname)
    # the all-ones key is the maximum: r = (A << shift) | (key & mask) with A monotone in the high bits and mask < 2^shift
    struct = _getindex_structure(gi)
    rep.ob(clause, 'K12 index bound', 'getIndex is (hi16(key) * topBits >> 16 << shift) | (key & mask): maximal at the all-ones key',
           struct['ok'], gi.where, struct['why'], gi.sname)
    # the mask expression in setUsedSize
    mk = None
    for b, i, e in su.events():
        if e.get('k') == 'asg' and ap(e.get('l')) == 'this.usedSizeMask':
            mk = _strip(e.get('r'))
    okm = False
    if isinstance(mk, dict):
        txt = show(mk, 400)
        okm = mk.get('k') == 'bin' and mk.get('op') == '&' and any(n.get('k') == 'bin' and n.get('op') == '<<' and ap(_strip(n.get('r'))) == 'this.usedSizeShift' for n in walk(mk)) \
            and any(n.get('k') == 'un' and n.get('op') == '~' and (n.get('e') or {}).get('cv') == 3 for n in walk(mk)) \
            and any(n.get('k') == 'bin' and n.get('op') == '-' and (n.get('r') or {}).get('cv') == 1 for n in walk(mk))
    rep.ob(clause, 'K12 index bound', 'usedSizeMask = ((1 << usedSizeShift) - 1) & ~3', okm, su.where, show(mk, 200) if mk else 'no assignment found', su.sname)
    # callers of setUsedSize pass at most tableSize
    for f in fb.funcs.values():
        if not f.has_cfg or f.d.get('cls') != TT:
            continue
        for b, i, e in f.calls(TT + '::setUsedSize'):
            a = _strip((e.get('args') or [None])[0])
            ok = ap(a) == 'this.tableSize' or (isinstance(a, dict) and a.get('k') == 'bin' and a.get('op') == '-' and ap(_strip(a.get('l'))) == 'this.tableSize')
            rep.ob(clause, 'K12 index bound', '%s: setUsedSize argument is tableSize or tableSize - const' % f.sname.split('::')[-1], ok, R.site(f, e), show(a), f.sname)


def _halving_lemma(su):
    out = {'ok': False, 'why': '', 'C': None}
    # find the while loop whose condition is `x >= C`
    hdr = None
    for bid, blk in su.blocks.items():
        t = blk.get('term')
        if t and t.get('c') == 'WhileStmt' and isinstance(t.get('cond'), dict) and t['cond'].get('op') == '>=':
            hdr = bid
    if hdr is None:
        out['why'] = 'no `while (x >= C)` loop found'
        out['undecided'] = True
        return out
    cond = su.blocks[hdr]['term']['cond']
    x = _strip(cond.get('l'))
    c = _strip(cond.get('r'))
    if not (isinstance(x, dict) and x.get('k') == 'var' and isinstance(c, dict) and 'cv' in c):
        out['why'] = 'loop condition %s' % show(cond)
        out['undecided'] = True
        return out
    out['C'] = c['cv']
    xid = x.get('id')
    # initial value of x is usedSize (= parameter s)
    init_ok = False
    shift0 = False
    for b, i, e in su.events():
        if e.get('k') == 'decl':
            for v in e.get('vars', []):
                if v.get('id') == xid and ap(_strip(v.get('init'))) == 'this.usedSize':
                    init_ok = True
        if e.get('k') == 'asg' and ap(e.get('l')) == 'this.usedSizeShift' and e.get('op') == '=' and (e.get('r') or {}).get('cv') == 0:
            shift0 = True
    us_from_param = any(e.get('k') == 'asg' and ap(e.get('l')) == 'this.usedSize' and isinstance(_strip(e.get('r')), dict) and _strip(e['r']).get('vk') == 'param'
                        for _, _, e in su.events())
    # loop body updates
    body = set()
    st = [su.blocks[hdr]['succ'][0]]
    while st:
        b = st.pop()
        if b in body or b == hdr:
            continue
        body.add(b)
        st.extend(su.blocks[b]['succ'])
    upd_x = []
    upd_n = []
    other = []
    for b in body:
        for e in su.blocks[b]['ev']:
            if e.get('k') == 'asg' and isinstance(e.get('l'), dict) and e['l'].get('id') == xid and e['l'].get('k') == 'var':
                upd_x.append(e)
            elif e.get('k') == 'incdec' and ap(e.get('e')) == 'this.usedSizeShift':
                upd_n.append(e)
            elif e.get('k') in ('asg', 'incdec', 'call'):
                other.append(e)
    if len(upd_x) != 1 or len(upd_n) != 1 or upd_n[0].get('op') != '++' or other:
        out['why'] = 'loop body is not {x update; shift++}: x updates %d, shift updates %d, other effects %d' % (len(upd_x), len(upd_n), len(other))
        out['undecided'] = True
        return out
    u = upd_x[0]
    form = None
    r = _strip(u.get('r'))
    if u.get('op') == '/=' and isinstance(r, dict) and r.get('cv') == 2:
        form = 'floor'
    elif u.get('op') == '>>=' and isinstance(r, dict) and r.get('cv') == 1:
        form = 'floor'
    elif u.get('op') == '=' and isinstance(r, dict) and r.get('k') == 'bin':
        l2, r2 = _strip(r.get('l')), _strip(r.get('r'))
        if r.get('op') == '/' and isinstance(r2, dict) and 'cv' in r2:
            d = r2['cv']
            if isinstance(l2, dict) and l2.get('k') == 'var' and l2.get('id') == xid:
                form = 'floor' if d == 2 else ('shrinks-more' if d > 2 else 'bad')
            elif isinstance(l2, dict) and l2.get('k') == 'bin' and l2.get('op') == '+' and isinstance(_strip(l2.get('l')), dict) and \
                    _strip(l2['l']).get('id') == xid and 'cv' in (_strip(l2.get('r')) or {}):
                a = _strip(l2['r'])['cv']
                # x' = (x + a) / d ; need 2 * x' <= x for all x >= C  <=>  with d == 2: a <= 0
                form = 'floor' if (d == 2 and a <= 0) else ('rounds-up' if d <= 2 else None)
        elif r.get('op') == '>>' and isinstance(r2, dict) and r2.get('cv') == 1 and isinstance(l2, dict) and l2.get('id') == xid:
            form = 'floor'
    if form == 'floor' and init_ok and shift0 and us_from_param:
        out['ok'] = True
        out['why'] = 'x := usedSize, shift := 0; while (x >= %d) { x := floor(x/2); shift++ }' % out['C']
        return out
    if form in ('rounds-up', 'bad'):
        out['why'] = 'the update %s does not satisfy 2*x\' <= x (e.g. x = %d): topBits * 2^shift can exceed usedSize, so getIndex can leave the used part of the table' % (show(u), out['C'] + 1)
        return out
    if form == 'shrinks-more':
        out['why'] = 'divisor differs from the 2 implied by shift++ (index range no longer covers the table)'
        return out
    out['why'] = 'update %s / init_ok=%s shift0=%s' % (show(u), init_ok, shift0)
    out['undecided'] = not (init_ok and shift0 and us_from_param) or form is None
    return out


def _getindex_structure(gi):
    out = {'ok': False, 'why': ''}
    seq = []
    for b, i, e in gi.events():
        if e.get('k') == 'decl':
            for v in e.get('vars', []):
                seq.append(('decl', v.get('n'), v.get('init')))
        if e.get('k') == 'asg':
            seq.append((e.get('op'), (e.get('l') or {}).get('n'), e.get('r')))
    ops = [s[0] for s in seq]
    if ops != ['decl', '*=', '>>=', '<<=', '|=']:
        out['why'] = 'statement sequence %s' % ops
        return out
    d0 = _strip(seq[0][2])
    ok0 = isinstance(d0, dict) and d0.get('k') == 'bin' and d0.get('op') == '>>' and (d0.get('r') or {}).get('cv') == 48
    ok1 = ap(_strip(seq[1][2])) == 'this.usedSizeTopBits'
    ok2 = (_strip(seq[2][2]) or {}).get('cv') == 16
    ok3 = ap(_strip(seq[3][2])) == 'this.usedSizeShift'
    r4 = _strip(seq[4][2])
    ok4 = isinstance(r4, dict) and r4.get('k') == 'bin' and r4.get('op') == '&' and ap(_strip(r4.get('r'))) == 'this.usedSizeMask'
    out['ok'] = all((ok0, ok1, ok2, ok3, ok4))
    out['why'] = 'key>>48=%s *=topBits=%s >>=16=%s <<=shift=%s |=key&mask=%s' % (ok0, ok1, ok2, ok3, ok4)
    return out


# ----------------------------------------------------------------------------- .8

def c8_replace_decisions(fb, rep):
    """K2 order: insert() assembles the new record in a local copy of the slot it replaces.  Every decision that asks
    "is this still the same position?" compares the copy's key with the new key, and must be taken before the copy's
    key is overwritten with the new key - afterwards the comparison is constantly "same", and e.g. the move of an
    evicted *different* position is kept for the new key: a probe returns a record blended from two positions."""
    clause = 'C08.8'
    f = fb.find1(TT + '::insert')
    if rep.need(clause, f, TT + '::insert') is None:
        return
    ENT = TT + '::TTEntry'
    sets = [(b, i, e) for b, i, e in f.events() if e.get('k') == 'call' and cname(e) == ENT + '::setKey' and isinstance(_strip(e.get('recv')), dict) and _strip(e['recv']).get('k') == 'var']
    rep.floor(clause, 'key overwrites of the local entry copy in insert', len(sets), 1)
    n_cmp = 0
    for sb, si, se in sets:
        ent_id = _strip(se['recv'])['id']
        key = _strip((se.get('args') or [None])[0])
        key_id = key.get('id') if isinstance(key, dict) and key.get('k') == 'var' else None

        def is_cmp(t):
            for n in walk(t):
                if n.get('k') == 'bin' and n.get('op') in ('==', '!='):
                    sides = [_strip(n.get('l')), _strip(n.get('r'))]
                    g = [x for x in sides if isinstance(x, dict) and x.get('k') == 'call' and cname(x) == ENT + '::getKey' and (_strip(x.get('recv')) or {}).get('id') == ent_id]
                    k_ = [x for x in sides if isinstance(x, dict) and x.get('k') == 'var' and x.get('id') == key_id]
                    if g and k_:
                        return True
            return False
        late = []
        # blocks reachable after the overwrite
        seen = set()
        st = [(sb, si + 1)]
        while st:
            b, i0 = st.pop()
            blk = f.blocks[b]
            for i in range(i0, len(blk['ev'])):
                if is_cmp(blk['ev'][i]):
                    late.append((b, blk['ev'][i]))
            c = (blk.get('term') or {}).get('cond')
            if c is not None and is_cmp(eff_cond(blk['term'])):
                late.append((b, blk['term']))
            for s_ in blk['succ']:
                if s_ in f.blocks and s_ not in seen:
                    seen.add(s_)
                    st.append((s_, 0))
        for bid, blk in f.blocks.items():
            c = (blk.get('term') or {}).get('cond')
            if c is not None and bid not in f.dead and is_cmp(eff_cond(blk['term'])):
                n_cmp += 1
        rep.ob(clause, 'K2 must-precede', 'insert: every comparison of the replaced entry\'s key with the new key is made before that key is overwritten', not late,
               R.site(f, se), 'comparisons reachable after setKey: %d (lines %s)' % (len(late), sorted({x[1].get('ln') for x in late if isinstance(x[1], dict)})), f.sname)
    rep.floor(clause, 'same-position tests on the local entry copy in insert', n_cmp, 2)


# ----------------------------------------------------------------------------- .9

def c9_resize_exception_safety(fb, rep):
    """K3 class invariant at throw points.  Every access computes its slot from tableSize / usedSize and dereferences `table`;
    the invariant is "table points to tableSize slots".  reSize() releases the old buffer before it allocates the new one,
    and the allocation can throw (std::bad_alloc is caught by the caller, which retries with half the size).  So between the
    release and every call that may throw, tableSize must already be 0 - otherwise a failed allocation leaves a null table
    with the old size, the retry that reaches the old size returns early ("nothing to do"), and the next access is outside
    any table."""
    clause = 'C08.9'
    f = fb.find1(TT + '::reSize')
    if rep.need(clause, f, TT + '::reSize') is None:
        return
    rel = [(b, i, e) for b, i, e in f.events() if e.get('k') == 'asg' and ap(e.get('l')) == 'this.table' and
           (lambda r: isinstance(r, dict) and (r.get('cv') == 0 or r.get('k') == 'nullptr' or 'nullptr' in show(r, 20)))(_strip(e.get('r')))]
    rep.floor(clause, 'releases of the table pointer in reSize', len(rel), 1)
    allocs = [(b, i, e) for b, i, e in f.events() if e.get('k') == 'call' and cname(e).split('::')[-1] in ('allocate', 'make_shared', 'make_unique')]
    rep.floor(clause, 'allocations in reSize', len(allocs), 1)

    def zero_size(e):
        return e is not None and e.get('k') == 'asg' and ap(e.get('l')) == 'this.tableSize' and (_strip(e.get('r')) or {}).get('cv') == 0
    for rb, ri, re_ in rel:
        bad = []
        for ab, ai, ae in allocs:
            w = f.path_avoiding((rb, ri), lambda x, _a=ae: x is _a, zero_size)
            if w is not None:
                bad.append(show(ae, 50))
        rep.ob(clause, 'K3 invariant at throw points', 'reSize: after the old buffer is released, tableSize is 0 before every allocation that may throw', not bad, R.site(f, re_),
               'allocations reachable with the old size still recorded: %s' % bad, f.sname)
    # and the early return compares with that recorded size
    early = [bid for bid, blk in f.blocks.items() if (blk.get('term') or {}).get('c') == 'IfStmt' and 'tableSize' in show(eff_cond(blk['term']), 60) and '==' in show(eff_cond(blk['term']), 60)]
    rep.ob(clause, 'K3 invariant at throw points', 'reSize has the "same size, nothing to do" early return that makes the recorded size matter', bool(early), f.where, '', f.sname)


# ----------------------------------------------------------------------------- .10

def c10_reservation_admission(fb, rep, clause='C08.10'):
    from .. import regions as G
    """K12 the on-demand tablebase takes a fixed number of bytes from the end of the table and the hash keeps the rest: updateTB
    may start a generation only if the table is larger than that reservation plus the margin it states.  The admission
    test is evaluated (sizes are unsigned: a difference wraps) for table sizes of 1 .. 6 MB, for which the block that
    installs a generator must be unreachable, and for 8 / 16 / 64 MB, for which it must be reachable.  A wrapped
    difference admits tables *smaller* than the reservation; setUsedSize(tableSize - reserved) then wraps as well and
    getIndex() leaves the table for almost every key."""
    up = fb.find1(TT + '::updateTB')
    if rep.need(clause, up, TT + '::updateTB') is None:
        return
    from . import C12
    tt_ids, tb_id, tbsize = C12.tb_size_roles(up)
    if rep.need(clause, tbsize, 'the table-size local and the reservation constant of updateTB') is None:
        return
    installs = [(b, i, e) for b, i, e in up.events() if (e.get('k') == 'call' and 'make_unique' in cname(e) and 'TBGenerator' in (e.get('f') or '') + (e.get('t') or '')) or
                (e.get('k') == 'call' and e.get('op') == '=' and ap(e.get('recv')) == 'this.tbGen' and e.get('args') and not ((_strip(e['args'][0]) or {}).get('k') in ('nullptr', 'null')))]
    if rep.need(clause, installs, 'the statement that installs a generator in updateTB') is None:
        return
    b0 = installs[0][0]
    sz = lambda v: (lambda t: ('v', v) if t.get('k') == 'var' and t.get('id') in tt_ids else None)
    MB = 1 << 20
    small = [m for m in (1, 2, 3, 4, 5, 6) if not G.excluded_under(up, b0, sz(m * MB))]
    large = [m for m in (8, 16, 64) if G.excluded_under(up, b0, sz(m * MB))]
    rep.ob(clause, 'K12 range', 'updateTB installs a generator only in a table larger than the reservation (%d bytes) plus its margin' % tbsize, not small and not large, R.site(up, installs[0][2]),
           'admitted although too small: %s MB; refused although large enough: %s MB' % (small, large), up.sname)
