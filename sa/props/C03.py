"""C03 - every search result is a legal, well-formed answer.  Clauses decided:
 .1 K15 provenance of the returned move: every definition of the result of iterativeDeepening is
        an element of the root move list; getRootMoves only copies elements of its input and always
        includes one; the null move is returned exactly for an empty list
 .2 K2  the root list handed to the search is generated, legality-filtered and (when given)
        restricted to the searchmoves
 .3 K3  hash-move sanitisation: a move read from a transposition-table entry is untrusted; it may
        reach makeMove / isLegal / givesCheck / SEE / move printing / a PV only after it was found
        in a generated move list (path- and flag-sensitive typestate)
 .5 K10 PV splicing: a PV is truncated at the number of moves actually replayed before it is extended
"""
from ..core import cname, ap, walk, show, strip_not, eff_cond
from ..flow import Flow
from ..validate import membership_tests
from .. import regions as G
from .. import rules as R
from . import common

EXPLANATION = (
    'Static rules over the resolved program. Decided: (1) in Search::iterativeDeepening every definition of bestMove / bestExactMove '
    'is rootMoves[i].move, a reference into rootMoves, or a copy of the other; getRootMoves builds its output only from elements of the '
    'list it was given (after filtering) and marks at least one element as included before the copy loop; `return Move()` is guarded by '
    'size <= 0; (2) EngineControl::startThread (and ComputerPlayer) produce the root list by pseudoLegalMoves -> removeIllegal -> '
    'filter(searchMoves) before it is handed to the search thread; (3) at all sites where a Move is read from a TTEntry (negaScout, '
    'setBusy, extractPVMoves, extractPV, getPonderMove) a path- and flag-sensitive typestate shows that the move reaches '
    'Position::makeMove, MoveGen::isLegal/givesCheck, Search::SEE/getMoveExtend, TextIO::moveToString or a PV vector only after it was '
    'found in a generated move list (selectHashMove true, or the membership idiom with a per-candidate flag); (5) TBProbe::extendPV '
    'truncates the PV at exactly the number of moves it replayed before it appends tablebase moves generated from that position.'
    ' (6) the MultiPV count that indexes / offsets the root list or is handed on with it is min(.., rootMoves.size()) at every use and the list is not resized after the clamp.'
    ' Added later; (7) the text printed for a move (bestmove, ponder, pv, currmove) is its UCI form: the suffix SearchListener::moveToString writes for each promotion piece, obtained by interpreting the printer for every promotion code, is the letter uciStringToMove reads back as that piece, and the listener formats moves only through the checked printers.'
    ' Added later; (8) MoveList::filter decides membership in the searchmoves list by move equality or by every field Move::operator== compares.'
    ' Added later; (9) in the multi-PV report the entry just searched is printed under a not-yet-printed flag and every other entry where its index differs from it. (10) = C04.1: every checkmate score of negaScout / quiesce is \'mated in 0\' of the one linear family that notifyPV, the hash table and the 50-move margin decode. (11) = C04.9 the ABDADA control value BUSY is never read as a score. (12) in every TBProbe function that plays moves on the caller\'s position, each makeMove is taken back on every path to the exit.')
UNDECIDED = ('that the chosen move is good; playability of PVs beyond the validated-prefix rule; MultiPV distinctness by value; score '
             'ranges (see C04 for the mate-distance encoding).')
ASSUMPTIONS = ['MoveGen::pseudoLegalMoves + removeIllegal produce exactly the legal moves (property C01)',
               'paired make/unmake restore the position (C02.7), so a validation stays valid across them']

SINKS = {'Position::makeMove', 'Position::makeMoveB', 'Position::makeSEEMove', 'MoveGen::isLegal', 'MoveGen::givesCheck', 'Search::SEE', 'Search::negSEE',
         'Search::getMoveExtend', 'TextIO::moveToString', 'TextIO::moveToUCIString', 'Search::passedPawnPush', 'Search::defenseMove', 'Position::hashAfterMove'}
PV_SINKS = ('push_back',)


def _strip(t):
    while isinstance(t, dict) and t.get('k') == 'cast':
        t = t.get('e')
    return t


def run(fb, rep, tier):
    c1_provenance(fb, rep)
    c2_rootlist(fb, rep)
    c3_hashmove(fb, rep)
    c5_pv_splice(fb, rep)
    c6_count_clamp(fb, rep)
    # .7 the text the engine prints for a move (bestmove, ponder, pv, currmove) is that move's UCI form (shared with C17.1)
    from . import C17
    C17.uci_promotion_letters(fb, rep, 'C03.7', ('SearchListener::moveToString',))
    c7_printer_single(fb, rep)
    c8_filter_identity(fb, rep)
    c9_multipv_lines_distinct(fb, rep)
    # .10 "consistently encoded mate distances": every checkmate score written by negaScout / quiesce is "mated in 0" of the
    # one linear family that the tablebase probe writes and that notifyPV, the hash table's ply shift and the 50-move
    # margin decode (shared with C04.1)
    from . import C04
    C04.c1_encoding(fb, rep, 'C03.10')
    # .11 the ABDADA control value BUSY never reaches a place where it is read as a score (shared with C04.9)
    C04.c9_busy_is_not_a_score(fb, rep, 'C03.11')
    c12_borrowed_position_restored(fb, rep)


# ----------------------------------------------------------------------------- .1

def c1_provenance(fb, rep):
    clause = 'C03.1'
    it = fb.find1('Search::iterativeDeepening')
    if rep.need(clause, it, 'Search::iterativeDeepening') is None:
        return
    # roles: the root list = the local vector<MoveInfo>; the result variables = the Move locals that are returned
    root_ids = {v['id'] for _, _, e in it.events() if e.get('k') == 'decl' for v in e.get('vars', []) if 'MoveInfo' in (v.get('t') or '') and 'vector' in (v.get('t') or '')}
    if rep.need(clause, root_ids, 'the local root move list of iterativeDeepening') is None:
        return

    def is_root_elem(t):
        return _is_root_elem(t, root_ids)
    result_ids = {}
    for b, i, e in it.events():
        if e.get('k') == 'ret' and e.get('e') is not None:
            for n in walk(e['e']):
                if n.get('k') == 'var' and n.get('vk') == 'local' and 'Move' in (n.get('t') or ''):
                    result_ids[n['id']] = n.get('n')
    bool_params = {p_['id'] for p_ in it.d.get('params', []) if (p_.get('t') or '') == 'bool'}
    refs = {}     # local reference variables bound to rootMoves[..].move
    for b, i, e in it.events():
        if e.get('k') == 'decl':
            for v in e.get('vars', []):
                if '&' in (v.get('t') or '') and v.get('init') is not None and is_root_elem(v['init']):
                    refs[v['id']] = v['n']
    defs = []
    for b, i, e in it.events():
        if e.get('k') == 'decl':
            for v in e.get('vars', []):
                if v.get('id') in result_ids and v.get('init') is not None:
                    defs.append((v['n'], v['init'], e))
        if e.get('k') == 'call' and cname(e).endswith('Move::operator=') and isinstance(e.get('recv'), dict) and e['recv'].get('id') in result_ids:
            defs.append((e['recv']['n'], (e.get('args') or [None])[0], e))
    rep.floor(clause, 'definitions of the returned move', len(defs), 5)
    ordinal = {}
    for k, (name, src, e) in enumerate(defs):
        s0 = _strip(src)
        while isinstance(s0, dict) and s0.get('k') == 'ctor' and s0.get('copy') and s0.get('args'):
            s0 = _strip(s0['args'][0])
        ok = is_root_elem(s0) or (isinstance(s0, dict) and s0.get('k') == 'var' and (s0.get('id') in refs or s0.get('id') in result_ids))
        rep.ob(clause, 'K15 provenance', 'iterativeDeepening: definition #%d of a returned move variable is an element of the root move list' % (k + 1), ok, R.site(it, e), show(src), it.sname)
    # returns: a result variable, or Move() under size <= 0
    for b, i, e in it.events():
        if e.get('k') != 'ret':
            continue
        r = _strip(e.get('e'))
        while isinstance(r, dict) and r.get('k') == 'ctor' and r.get('copy') and r.get('args'):
            r = _strip(r['args'][0])
        ids = {n.get('id') for n in walk(r) if n.get('k') == 'var'}
        if ids and ids <= (set(result_ids) | bool_params):
            rep.ob(clause, 'K15 provenance', 'iterativeDeepening returns one of its move variables fed from the root list', True, R.site(it, e), show(r), it.sname)
        else:
            gt = G.guard_trees(it, set(it.blocks), b)
            empty_guard = any(sd and isinstance(_strip(g_), dict) and _strip(g_).get('k') == 'bin' and _strip(g_).get('op') in ('<=', '==', '<') and
                              any(n.get('k') == 'mem' and n.get('f', '').endswith('MoveList::size') for n in walk(_strip(g_).get('l'))) and
                              (_strip(_strip(g_).get('r')) or {}).get('cv') in (0, 1) for g_, sd in gt)
            ok = isinstance(r, dict) and r.get('k') == 'ctor' and not r.get('args') and empty_guard
            rep.ob(clause, 'K15 provenance', 'iterativeDeepening returns the null move exactly when there is no move to search', ok, R.site(it, e), 'guards %s' % [show(g_) for g_, _ in gt], it.sname)
    gr = fb.find1('Search::getRootMoves')
    if rep.need(clause, gr, 'Search::getRootMoves'):
        gp = gr.d.get('params', [])
        if len(gp) < 2:
            rep.broken(clause, 'getRootMoves: unexpected parameter list')
            return
        in_id, out_id = gp[0]['id'], gp[1]['id']
        pushes = [(b, i, e) for b, i, e in gr.events() if e.get('k') == 'call' and cname(e).split('::')[-1] in ('push_back', 'emplace_back') and
                  isinstance(e.get('recv'), dict) and e['recv'].get('id') == out_id]
        rep.floor(clause, 'output sites of getRootMoves', len(pushes), 1)
        # local copy of the input list
        copy_ids = {v['id'] for _, _, e in gr.events() if e.get('k') == 'decl' for v in e.get('vars', [])
                    if 'MoveList' in (v.get('t') or '') and any(n.get('k') == 'var' and n.get('id') == in_id for n in walk(v.get('init') or {}))}
        copy_ok = bool(copy_ids)
        elem_defs = {}
        for b, i, e in gr.events():
            if e.get('k') == 'decl':
                for v in e.get('vars', []):
                    if v.get('init') is not None and any((n.get('k') == 'call' and cname(n).endswith('MoveList::operator[]') and isinstance(n.get('recv'), dict) and n['recv'].get('id') in copy_ids)
                                                         for n in walk(v['init'])):
                        elem_defs[v['id']] = v['n']
        for b, i, e in pushes:
            srcs = [n for a in e.get('args', []) for n in walk(a) if n.get('k') == 'var' and 'Move' in (n.get('t') or '')]
            ok = copy_ok and bool(srcs) and all(n.get('id') in elem_defs for n in srcs)
            rep.ob(clause, 'K15 provenance', 'getRootMoves outputs only elements of the (filtered) input list', ok, R.site(gr, e), '', gr.sname)
            # at least one included: an inclusion flag is set unconditionally before the copy loop
            flag_ids = {v['id'] for _, _, e2 in gr.events() if e2.get('k') == 'decl' for v in e2.get('vars', []) if 'vector<bool>' in (v.get('t') or '') or 'bool' in (v.get('t') or '') and '[' in (v.get('t') or '')}

            def sets_flag(e2):
                tgt = e2.get('l') if e2.get('k') == 'asg' else e2.get('recv')
                if not any(n.get('k') == 'var' and n.get('id') in flag_ids for n in walk(tgt or {})):
                    return False
                return (e2.get('k') == 'asg' and (e2.get('r') or {}).get('cv') == 1) or (e2.get('k') == 'call' and cname(e2).endswith('operator=') and ((e2.get('args') or [{}])[0]).get('cv') == 1)
            sets = [(b2, i2) for b2, i2, e2 in gr.events() if e2.get('k') in ('asg', 'call') and sets_flag(e2)]
            uncond = [p for p in sets if not G.guards_of(gr, set(gr.blocks), p[0])]
            rep.ob(clause, 'K2 must-precede', 'getRootMoves always includes at least one move (unconditional inclusion precedes the copy loop)',
                   bool(uncond) and any(gr.pos_dominates(p, (b, i)) for p in uncond), R.site(gr, e), '', gr.sname)
        # the filter can only shrink to moves that were in the list
        for b, i, e in gr.events():
            if e.get('k') == 'call' and cname(e) == 'MoveList::filter':
                rep.ob(clause, 'K15 provenance', 'getRootMoves restricts (never extends) the root list', isinstance(e.get('recv'), dict) and e['recv'].get('id') in copy_ids, R.site(gr, e), '', gr.sname)
    mf = fb.find1('MoveList::filter')
    if rep.need(clause, mf, 'MoveList::filter'):
        # writes only copy elements of the list itself forward
        ok = True
        for b, i, e in mf.events():
            if e.get('k') == 'call' and cname(e).endswith('Move::operator=') and 'buf' in show(e.get('recv')):
                ok = ok and 'buf' in show((e.get('args') or [{}])[0])
        rep.ob(clause, 'K15 provenance', 'MoveList::filter only compacts the list (elements are copied from the list itself)', ok, mf.where, '', mf.sname)


def _is_root_elem(t, root_ids=None):
    t = _strip(t)
    if isinstance(t, dict) and t.get('k') == 'mem' and t.get('f', '').endswith('MoveInfo::move'):
        b = _strip(t.get('b'))
        return isinstance(b, dict) and b.get('k') == 'call' and cname(b).endswith('::operator[]') and isinstance(b.get('recv'), dict) and \
            (b['recv'].get('id') in root_ids if root_ids is not None else 'MoveInfo' in (b['recv'].get('t') or ''))
    return False


# ----------------------------------------------------------------------------- .2

def c2_rootlist(fb, rep):
    clause = 'C03.2'
    st = fb.find1('EngineControl::startThread')
    if rep.need(clause, st, 'EngineControl::startThread') is None:
        return
    hand = R.is_named_call('EngineMainThread::startSearch')

    def list_var(t):
        """the variable (shared pointer / object) a MoveList argument is taken from"""
        for n in walk(t or {}):
            if n.get('k') == 'var' and 'id' in n and 'MoveList' in (n.get('t') or '') + (n.get('rc') or ''):
                return n['id']
        return None
    gens = [e for _, _, e in st.events() if e.get('k') == 'call' and cname(e) == 'MoveGen::pseudoLegalMoves' and len(e.get('args', [])) >= 2]
    lid = list_var(gens[0]['args'][1]) if gens else None
    if rep.need(clause, lid, 'the move list startThread generates') is None:
        return
    gen = lambda e: e is not None and e.get('k') == 'call' and cname(e) == 'MoveGen::pseudoLegalMoves' and len(e.get('args', [])) >= 2 and list_var(e['args'][1]) == lid
    fil = lambda e: e is not None and e.get('k') == 'call' and cname(e) == 'MoveGen::removeIllegal' and len(e.get('args', [])) >= 2 and list_var(e['args'][1]) == lid
    R.must_pass_between(rep, st, clause, 'startThread: the root list is generated before it is handed to the search', None, hand, gen)
    R.must_pass_between(rep, st, clause, 'startThread: illegal moves are removed before the list is handed to the search', None, hand, fil)
    for b, i, e in st.find_events(fil):
        R.must_pass_between(rep, st, clause, 'startThread: generation precedes the legality filter', None, lambda x, _e=e: x is _e, gen)
    fl = [(b, i, e) for b, i, e in st.events() if e.get('k') == 'call' and cname(e) == 'MoveList::filter' and list_var(e.get('recv')) == lid]
    rep.floor(clause, 'searchmoves filter in startThread', len(fl), 1)
    for b, i, e in fl:
        g = G.guards_of(st, set(st.blocks), b)
        # the filter argument is the searchmoves list, and the filter is skipped exactly when that list is empty
        arg0 = (e.get('args') or [{}])[0]
        src = ap(arg0) or show(arg0)
        def lst(nonempty, _src=src):
            def leaf(t):
                if t.get('k') == 'call' and t.get('recv') is not None and (ap(t['recv']) or show(t['recv'])) == _src:
                    nm = cname(t).split('::')[-1]
                    if nm == 'size':
                        return ('v', nonempty)
                    if nm == 'empty':
                        return ('v', 0 if nonempty else 1)
                return None
            return leaf
        ok = 'searchMoves' in show(arg0) and G.excluded_under(st, b, lst(0)) and not any(G.excluded_under(st, b, lst(k_)) for k_ in (1, 2, 3, 40))
        rep.ob(clause, 'K4 guard', 'startThread restricts the root list to the given searchmoves', ok, R.site(st, e), 'guards %s' % g, st.sname)
        w = st.path_avoiding((b, i), lambda x: x is not None and (gen(x) or fil(x)), R.never)
        rep.ob(clause, 'K2 must-precede', 'startThread: the searchmoves restriction is the last operation on the list', w is None, R.site(st, e), '', st.sname)
    # the list object handed over is the one that was built
    for b, i, e in st.find_events(hand):
        a = e.get('args', [])
        ok = any(list_var(x) == lid for x in a)
        rep.ob(clause, 'K15 provenance', 'startThread hands over the list it built', ok, R.site(st, e), '', st.sname)
    # every go path (plain and ponder) installs the searchmoves of THIS go before the thread is started: the field
    # outlives the go, and startThread filters the root list with whatever it finds there
    starters = [f2 for f2 in fb.funcs.values() if f2.has_cfg and f2.d.get('cls') == 'EngineControl' and f2.sname != 'EngineControl::startThread' and
                any(e2.get('k') == 'call' and cname(e2) == 'EngineControl::startThread' for _, _, e2 in f2.events())]
    rep.floor(clause, 'go paths that start the search thread', len(starters), 2)
    for f2 in sorted(starters, key=lambda x: x.key):
        par_ids = {p_['id'] for p_ in f2.d.get('params', []) if 'SearchParams' in (p_.get('t') or '')}

        def installs(e2, _ids=par_ids):
            if e2 is None or e2.get('k') != 'call' or not cname(e2).endswith('::operator=') or ap(e2.get('recv')) != 'this.searchMoves':
                return False
            return any(n.get('k') == 'var' and n.get('id') in _ids for a in e2.get('args', []) for n in walk(a))
        R.must_pass_between(rep, f2, clause, '%s installs the searchmoves of this go before the thread is started' % f2.sname.split('::')[-1], None,
                            R.is_named_call('EngineControl::startThread'), installs)
    cp = fb.find1('ComputerPlayer::getCommand')
    if cp is not None:
        R.must_pass_between(rep, cp, clause, 'ComputerPlayer::getCommand: the list searched is legality-filtered', None, R.is_named_call('Search::iterativeDeepening'),
                            R.is_named_call('MoveGen::removeIllegal'))


# ----------------------------------------------------------------------------- .3

def c3_hashmove(fb, rep):
    clause = 'C03.3'
    sources = []
    for f in fb.funcs.values():
        if not f.has_cfg or not R.in_engine(f):
            continue
        for b, i, e in f.events():
            if e.get('k') == 'call' and cname(e) == 'TranspositionTable::TTEntry::getMove' and e.get('args'):
                a = _strip(e['args'][0])
                if isinstance(a, dict) and a.get('k') == 'var':
                    sources.append((f, b, i, e, a))
    keys = sorted({(f.key, a.get('id')) for f, b, i, e, a in sources})
    rep.floor(clause, 'sites reading a move from a TT entry', len(sources), 7)
    done = set()
    for f, b, i, e, a in sorted(sources, key=lambda s: (s[0].key, s[3].get('ln') or 0)):
        if (f.key, a.get('id')) in done:
            continue
        done.add((f.key, a.get('id')))
        vid, vname = a.get('id'), a.get('n')
        # flags: bool locals assigned constants
        flag_ids = set()
        for b2, i2, e2 in f.events():
            if e2.get('k') == 'decl':
                for v in e2.get('vars', []):
                    if (v.get('ct') or v.get('t')) in ('bool', 'const bool') and isinstance(v.get('init'), dict) and 'cv' in v['init']:
                        # a validation flag: somewhere it is set to a constant under a test that mentions the tracked move
                        for b3, i3, e3 in f.events():
                            if e3.get('k') == 'asg' and isinstance(e3.get('l'), dict) and e3['l'].get('id') == v['id'] and isinstance(e3.get('r'), dict) and 'cv' in e3['r']:
                                doms_ = f.dominators().get(b3, set())
                                if any(n.get('k') == 'var' and n.get('id') == vid for d_ in doms_ if d_ != b3 and len(f.blocks[d_]['succ']) == 2
                                       for n in walk((f.blocks[d_].get('term') or {}).get('cond') or {})):
                                    flag_ids.add(v['id'])
        flag_ids = sorted(flag_ids)
        viol = []
        uses = []

        def tr(ev, c, pos, _vid=vid):
            xs, fl = c
            fld = dict(fl)
            k = ev.get('k')
            if k == 'call' and cname(ev) == 'TranspositionTable::TTEntry::getMove' and ev.get('args') and (_strip(ev['args'][0]) or {}).get('id') == _vid:
                return [('U', fl)]
            if k == 'call' and cname(ev).endswith('Move::operator=') and isinstance(ev.get('recv'), dict) and ev['recv'].get('id') == _vid:
                src = (ev.get('args') or [None])[0]
                if isinstance(_strip(src), dict) and _strip(src).get('k') == 'ctor' and not _strip(src).get('args'):
                    return [('E', fl)]           # = Move(): the empty move
                return [('T', fl)]               # trusted (copied from a generated list / search state)
            if k == 'decl':
                for v in ev.get('vars', []):
                    if v.get('id') in flag_ids and isinstance(v.get('init'), dict) and 'cv' in v['init']:
                        fld[v['id']] = bool(v['init']['cv'])
                    if v.get('id') == _vid:
                        xs = 'E' if v.get('init') is None or (isinstance(_strip(v.get('init')), dict) and _strip(v['init']).get('k') == 'ctor' and not _strip(v['init']).get('args')) else 'T'
                return [(xs, tuple(sorted(fld.items())))]
            if k == 'asg' and isinstance(ev.get('l'), dict) and ev['l'].get('id') in flag_ids and isinstance(ev.get('r'), dict) and 'cv' in ev['r']:
                fld[ev['l']['id']] = bool(ev['r']['cv'])
                return [(xs, tuple(sorted(fld.items())))]
            if k == 'ret' and 'Move' in (f.d.get('ret') or ''):
                r0 = _strip(ev.get('e'))
                while isinstance(r0, dict) and r0.get('k') == 'ctor' and r0.get('copy') and r0.get('args'):
                    r0 = _strip(r0['args'][0])
                if isinstance(r0, dict) and r0.get('k') == 'var' and r0.get('id') == _vid:
                    uses.append((ev, xs))
            if k == 'call':
                n = cname(ev)
                is_sink = n in SINKS
                if n.split('::')[-1] in PV_SINKS and 'Move' in (ev.get('f') or '') and 'vector' in n:
                    is_sink = True
                if is_sink:
                    for a2 in ev.get('args', []):
                        a0 = _strip(a2)
                        while isinstance(a0, dict) and a0.get('k') == 'ctor' and a0.get('copy') and a0.get('args'):
                            a0 = _strip(a0['args'][0])
                        if isinstance(a0, dict) and a0.get('k') == 'var' and a0.get('id') == _vid:
                            uses.append((ev, xs))
                            if xs == 'U':
                                viol.append((ev, pos))
            return [c]

        def rf(cond, truth, c, _vid=vid):
            xs, fl = c
            ce, pol = strip_not(cond)
            tv = (truth == pol)
            if isinstance(ce, dict) and ce.get('k') == 'var' and ce.get('id') in flag_ids:
                known = dict(fl).get(ce['id'])
                if known is not None and known != tv:
                    return []
                return [c]
            if isinstance(ce, dict) and ce.get('k') == 'call':
                n = cname(ce)
                ops = ([ce['recv']] if ce.get('recv') is not None else []) + list(ce.get('args', []))
                has_x = any(isinstance(_strip(o), dict) and _strip(o).get('k') == 'var' and _strip(o).get('id') == _vid for o in ops)
                if n == 'Search::selectHashMove' and has_x and tv:
                    return [('V', fl)] if xs == 'U' else [c]
                if n.split('::')[-1] == 'operator==' and has_x and tv and any(_is_elem(o) for o in ops):
                    return [('V', fl)] if xs == 'U' else [c]
                if n == 'Move::isEmpty' and has_x:
                    if tv:
                        return [('E', fl)] if xs in ('U', 'E') else [c]
                    return [c] if xs != 'E' else []
            return [c]
        flow = Flow(f, tr, rf, max_configs=512).run({('E', ())})
        if flow.overflow:
            rep.broken(clause, 'typestate overflow in %s' % f.sname)
            continue
        name = f.name if '<' in f.name else f.sname
        by_ev = {}
        for ev, xs in uses:
            by_ev.setdefault(id(ev), [ev, set()])[1].add(xs)
        k = 0
        for _, (ev, states) in sorted(by_ev.items(), key=lambda kv: (kv[1][0].get('ln') or 0)):
            k += 1
            ok = 'U' not in states
            rep.ob(clause, 'K3 validated hash move', '%s: `%s` reaches %s (use #%d) only after it was found in a generated move list' % (name, vname, (cname(ev).split('::')[-1] if ev.get('k') == 'call' else 'the return value'), k),
                   ok, R.site(f, ev), '' if ok else 'an unvalidated transposition-table move (possibly from a colliding or corrupted entry) is used as a real move', f.sname)
        if not by_ev:
            rep.ob(clause, 'K3 validated hash move', '%s: `%s` from the TT entry never reaches a move-consuming function' % (name, vname), True, f.where, '', f.sname)
        # the membership idiom (where used) resets its flag per candidate
        for t in membership_tests(f):
            if vname in t['candidate']:
                rep.ob(clause, 'K3 validated hash move', '%s: the membership flag `%s` for `%s` is reset for every candidate' % (name, t['flag'], vname), t['reset_ok'],
                       '%s:%s' % (f.file, t['line']), '', f.sname)


def _is_elem(t):
    t = _strip(t)
    if not isinstance(t, dict):
        return False
    if t.get('k') == 'idx':
        return True
    if t.get('k') == 'call' and cname(t).split('::')[-1] == 'operator[]':
        return True
    if t.get('k') == 'var' and '&' in (t.get('t') or '') and 'Move' in (t.get('t') or ''):
        return True       # a reference bound to a list element (Move& m = moves[i])
    return False


# ----------------------------------------------------------------------------- .5

def c5_pv_splice(fb, rep):
    clause = 'C03.5'
    f = fb.find1('TBProbe::extendPV')
    if rep.need(clause, f, 'TBProbe::extendPV') is None:
        return
    pv_ids = {p_['id'] for p_ in f.d.get('params', []) if 'vector' in (p_.get('t') or '') and 'Move' in (p_.get('t') or '')}
    if rep.need(clause, pv_ids, 'the PV parameter of extendPV') is None:
        return
    erases = [(b, i, e) for b, i, e in f.events() if e.get('k') == 'call' and cname(e).split('::')[-1] == 'erase' and isinstance(e.get('recv'), dict) and e['recv'].get('id') in pv_ids]
    rep.floor(clause, 'PV truncation sites in extendPV', len(erases), 1)
    for b, i, e in erases:
        h = G.enclosing_loop_stmt(f, b)
        cond = (f.blocks[h].get('term') or {}).get('cond') if h is not None else None
        lv = None
        if isinstance(cond, dict) and cond.get('k') == 'bin':
            l = _strip(cond.get('l'))
            lv = l.get('id') if isinstance(l, dict) else None
        # the loop replays pv[lv]
        body = {x for x in f.blocks if h is not None and h in f.dominators().get(x, set()) and x != f.blocks[h]['succ'][-1] and
                f.blocks[h]['succ'][-1] not in f.dominators().get(x, set())}
        replay = any(ev.get('k') == 'call' and cname(ev) == 'Position::makeMove' for b2 in body for ev in f.blocks[b2]['ev'])
        idx_ok = any(n.get('k') == 'call' and cname(n).endswith('::operator[]') and isinstance(n.get('recv'), dict) and n['recv'].get('id') in pv_ids and
                     (_strip((n.get('args') or [{}])[0]) or {}).get('id') == lv for b2 in body for ev in f.blocks[b2]['ev'] for n in walk(ev))
        start = show((e.get('args') or [{}])[0], 200)
        vars_in = {n.get('id') for n in walk((e.get('args') or [{}])[0]) if n.get('k') == 'var'}
        plus1 = any(n.get('k') == 'int' and n.get('cv') == 1 for n in walk((e.get('args') or [{}])[0]))
        ok = lv is not None and replay and idx_ok and (vars_in - pv_ids) == {lv} and plus1
        rep.ob(clause, 'K10 agreement', 'extendPV truncates the PV after exactly the moves it has replayed (begin + loop index + 1)', ok, R.site(f, e),
               'truncation start %s, replay loop index %s' % (start, lv), f.sname)
    # appended moves come from the legal list of the replayed position
    pushes = [(b, i, e) for b, i, e in f.events() if e.get('k') == 'call' and cname(e).split('::')[-1] == 'push_back' and isinstance(e.get('recv'), dict) and e['recv'].get('id') in pv_ids]
    # moves taken from a generated list: locals (or references) initialised from an element of a MoveList
    list_elems = {v['id'] for _, _, ev in f.events() if ev.get('k') == 'decl' for v in ev.get('vars', [])
                  if v.get('init') is not None and any(n.get('k') == 'call' and cname(n).endswith('MoveList::operator[]') for n in walk(v['init']))}
    for b, i, e in pushes:
        src = _strip((e.get('args') or [{}])[0])
        ok = isinstance(src, dict) and src.get('k') == 'var' and src.get('id') in list_elems
        gen = f.path_avoiding((f.entry, -1), lambda x, _e=e: x is _e, R.is_named_call('MoveGen::removeIllegal'))
        rep.ob(clause, 'K15 provenance', 'extendPV appends only moves taken from a legality-filtered list of the current position', ok and gen is None, R.site(f, e), '', f.sname)
        # the appended move stays made (the position advances with the PV)
        w = f.path_avoiding((b, i), lambda x: x is not None and x.get('k') == 'call' and cname(x) == 'Position::unMakeMove', lambda x: x is not None and x.get('k') == 'call' and cname(x) == 'MoveGen::pseudoLegalMoves')
        rep.ob(clause, 'K10 agreement', 'extendPV keeps the appended move on the board before it looks for the next one', w is None, R.site(f, e), '', f.sname)


def _nl_header(f, b):
    best = None
    nl = f.natural_loops()
    for h, body in nl.items():
        if b in body and (best is None or len(body) < len(nl[best])):
            best = h
    return best


# ----------------------------------------------------------------------------- .6

def c6_count_clamp(fb, rep, clause='C03.6'):
    """K12 clamped count: a caller-supplied count (the MultiPV number) that indexes, offsets or is handed on
    together with the root move list is, at every such use, the minimum of something and the size of that
    list, and the list's length does not change after the clamp.  Otherwise `rootMoves[maxPV-1]`,
    `begin()+maxPV` and the PV printer run past the end for option combinations that shrink the list
    (strength limiting, search-move restrictions, tablebase root filtering)."""
    from .. import bbalg as B
    f = fb.find1('Search::iterativeDeepening')
    if rep.need(clause, f, 'Search::iterativeDeepening') is None:
        return
    params = {p_['id']: p_['n'] for p_ in f.d.get('params', []) if (p_.get('t') or '') in ('int', 'unsigned int', 'long', 'S64', 'size_t')}
    # vectors local to the function that are indexed
    vec_ids = {}
    for b, i, e in f.events():
        if e.get('k') == 'decl':
            for v in e.get('vars', []):
                if (v.get('t') or '').startswith('std::vector'):
                    vec_ids[v['id']] = v['n']

    def vec_of(t):
        for n in walk(t):
            if n.get('k') == 'var' and n.get('id') in vec_ids:
                return n['id']
        return None

    def params_in(ts):
        return {n['id'] for t in (ts if isinstance(ts, list) else [ts]) for n in walk(t) if n.get('k') == 'var' and n.get('vk') == 'param' and n.get('id') in params}
    sites = []
    for b, i, e in f.events():
        if e.get('k') != 'call':
            continue
        n = cname(e)
        if n.endswith('::operator[]') and e.get('recv') is not None and vec_of(e['recv']) is not None:
            for pid in params_in(e.get('args', [])):
                sites.append((b, i, e, vec_of(e['recv']), pid, 'index'))
        elif n.endswith('operator+') and vec_of(e) is not None and any(x.get('k') == 'call' and cname(x).endswith('::begin') for x in walk(e)):
            for pid in params_in(e.get('args', [])):
                sites.append((b, i, e, vec_of(e), pid, 'iterator offset'))
        elif e.get('repo') and len(e.get('args', [])) >= 2:
            vs = [vec_of(a) for ai, a in enumerate(e['args']) if isinstance(_strip(a), dict) and _strip(a).get('k') == 'var' and vec_of(a) is not None
                  and ai not in (e.get('mutargs') or [])]     # handed on read-only: the callee indexes it, it does not build it
            ps = set()
            for a in e['args']:
                a0 = _strip(a)
                if isinstance(a0, dict) and a0.get('k') == 'var' and a0.get('id') in params and a0.get('vk') == 'param':
                    ps.add(a0['id'])
            for v in vs:
                for pid in ps:
                    sites.append((b, i, e, v, pid, 'passed on with the list'))
    rep.floor(clause, 'uses of a caller-supplied count with the root move list', len(sites), 6)

    def clamped(t, vid):
        t = _strip(t)
        if isinstance(t, dict) and t.get('k') == 'call' and cname(t) == 'std::min' and len(t.get('args', [])) == 2:
            for a in t['args']:
                a = _strip(a)
                if isinstance(a, dict) and a.get('k') == 'call' and cname(a).endswith('::size') and vec_of(a.get('recv')) == vid:
                    return True
                if clamped(a, vid):
                    return True
        return False
    done = set()
    ordinal = {}
    for b, i, e, vid, pid, how in sorted(sites, key=lambda s_: (s_[2].get('ln') or 0)):
        key = (e.get('ln'), vid, pid, how)
        if key in done:
            continue
        done.add(key)
        ok_ = (show(e, 60), how)
        ordinal[ok_] = ordinal.get(ok_, 0) + 1
        try:
            stores = B.sym_stores(f, (b, i), B.relevant_ids(f, {pid}, stop=set(vec_ids)) - set(vec_ids))
        except B.Unsupported as ex:
            rep.broken(clause, str(ex))
            continue
        bad = [show(st.get(pid), 200) if pid in st else 'the raw argument' for st, _ in stores if not (pid in st and clamped(st[pid], vid))]
        rep.ob(clause, 'K12 clamped count', 'iterativeDeepening `%s` (#%d in source order): %s used as %s of %s is min(.., %s.size())' % (
            show(e, 60), ordinal[ok_], params[pid], how, vec_ids[vid], vec_ids[vid]), not bad, R.site(f, e), ('value: ' + bad[0]) if bad else '', f.sname)
    # the list length is not changed after the clamp
    for vid, vname in vec_ids.items():
        clamps = [(b, i, e) for b, i, e in f.events() if e.get('k') == 'asg' and isinstance(e.get('l'), dict) and e['l'].get('id') in params and clamped(e.get('r'), vid)]
        if not clamps:
            continue

        def resizes(ev, _vid=vid):
            if ev is None or ev.get('k') != 'call':
                return False
            n = cname(ev).split('::')[-1]
            if ev.get('recv') is not None and vec_of(ev['recv']) == _vid and _strip(ev['recv']).get('k') == 'var' and n in ('push_back', 'emplace_back', 'pop_back', 'erase', 'clear', 'resize', 'insert', 'assign', 'swap'):
                return True
            for idx in ev.get('mutargs') or []:
                a = _strip(ev['args'][idx]) if idx < len(ev.get('args', [])) else None
                if isinstance(a, dict) and a.get('k') == 'var' and a.get('id') == _vid and ev.get('repo'):
                    callee = fb.funcs.get(ev.get('f'))
                    if callee is None or not callee.has_cfg or _callee_resizes(fb, callee, idx):
                        return True
            return False
        for b, i, e in clamps:
            w = f.path_avoiding((b, i), resizes, R.never)
            rep.ob(clause, 'K2 order', 'the length of %s does not change after %s was clamped to it' % (vname, show(e.get('l'))), w is None, R.site(f, e),
                   'resized later at %s' % (w[-1],) if w else '', f.sname)


def _callee_resizes(fb, callee, argidx):
    """Does the callee change the length of the vector it receives as parameter #argidx?"""
    ps = callee.d.get('params', [])
    if argidx >= len(ps):
        return True
    pid = ps[argidx]['id']
    for _, _, e in callee.events():
        if e.get('k') == 'call' and e.get('recv') is not None:
            r = _strip(e['recv'])
            if isinstance(r, dict) and r.get('k') == 'var' and r.get('id') == pid and cname(e).split('::')[-1] in (
                    'push_back', 'emplace_back', 'pop_back', 'erase', 'clear', 'resize', 'insert', 'assign', 'swap', 'operator='):
                return True
        if e.get('k') == 'call':
            for idx in e.get('mutargs') or []:
                a = _strip(e['args'][idx]) if idx < len(e.get('args', [])) else None
                if isinstance(a, dict) and a.get('k') == 'var' and a.get('id') == pid and not cname(e).startswith('std::'):
                    return True
        if e.get('k') == 'asg' and isinstance(_strip(e.get('l')), dict) and _strip(e['l']).get('id') == pid:
            return True
    return False


def c7_printer_single(fb, rep):
    """K5: every move the search listener prints goes through the one printer that C03.7 / C17.1 check."""
    clause = 'C03.7'
    n = 0
    bad = []
    for f in fb.funcs.values():
        if not (f.has_cfg and f.d.get('cls') == 'SearchListener'):
            continue
        for b, i, e in f.events():
            if e.get('k') == 'call' and e.get('op') == '<<':
                for a in e.get('args', []):
                    for x in walk(a):
                        if x.get('k') == 'call' and x.get('repo') and ('Move' in (x.get('t') or '') or cname(x).split('::')[-1] in ('moveToUCIString', 'moveToString')):
                            n += 1
                            if cname(x) not in ('SearchListener::moveToString', 'TextIO::moveToUCIString'):
                                bad.append((f.sname, cname(x)))
    rep.ob(clause, 'K5 who-may-print', 'the search listener formats moves only with the checked UCI printers', not bad, '', 'formatter calls in output statements: %d; others: %s' % (n, bad), 'SearchListener')


def c8_filter_identity(fb, rep):
    """K10: `go searchmoves` restricts the root list in MoveList::filter.  A root move is kept iff it *is* one of the
    requested moves, and two moves are the same move exactly when Move::operator== says so (origin, target and promotion
    piece).  The membership test must therefore be that equality (std::find / operator== on Move objects), or read - through
    the accessors - every field operator== compares; a key made of origin and target alone lets all four promotions of a
    pawn step through when one of them was requested."""
    clause = 'C03.8'
    eq = fb.find1('Move::operator==') or fb.find1('Move::equals')
    flt = fb.find1('MoveList::filter')
    if rep.need(clause, eq, 'Move::operator==') is None or rep.need(clause, flt, 'MoveList::filter') is None:
        return
    identity = {q.split('.', 1)[1] for q in R.this_fields_read(eq)}
    rep.floor(clause, 'fields compared by Move::operator==', len(identity), 3)
    uses_eq = False
    read = set()
    for b, i, e in flt.events():
        for n in walk(e):
            if n.get('k') != 'call':
                continue
            nm = cname(n)
            if nm in ('Move::operator==', 'Move::equals', 'Move::operator!='):
                uses_eq = True
            if nm in ('std::find', 'std::count', 'std::any_of') and any('Move' in str(a.get('t', '')) + str(a.get('rc', '')) for a in n.get('args', []) if isinstance(a, dict)):
                uses_eq = True
            if nm.startswith('Move::') and n.get('repo') and n.get('cmeth'):
                g = fb.find1(nm)
                if g is not None and g.has_cfg:
                    read |= {q.split('.', 1)[1] for q in R.this_fields_read(g)}
    ok = uses_eq or identity <= read
    rep.ob(clause, 'K10 identity agreement', 'MoveList::filter decides membership in the searchmoves list by the full move identity', ok, flt.where,
           'Move::operator== compares %s; filter uses move equality: %s; fields read through accessors: %s' % (sorted(identity), uses_eq, sorted(read)), flt.sname)


def c9_multipv_lines_distinct(fb, rep):
    """K4: one multi-PV report prints maxPV lines taken from the sorted root list, with the line of the move that has just
    been searched (index mi) inserted where its new score puts it.  The lines start with pairwise distinct moves only if
    every entry is printed at most once: the entry mi under a "not yet printed" flag that is raised with the print, every
    other print under the knowledge that its index is not mi."""
    clause = 'C03.9'
    cands = [f for f in fb.find('Search::notifyPV') if f.has_cfg and len(f.d.get('params', [])) == 3]
    if rep.need(clause, cands, 'Search::notifyPV(list, mi, maxPV)') is None:
        return
    f = cands[0]
    mi = f.d['params'][1].get('id')
    lst = f.d['params'][0].get('id')
    prints = []
    for b, i, e in f.events():
        if e.get('k') == 'call' and cname(e) == 'Search::notifyPV' and len(e.get('args', [])) == 2:
            a0 = e['args'][0]
            idx = None
            for n in walk(a0):
                if n.get('k') == 'call' and n.get('op') == '[]' and (_strip(n.get('recv')) or {}).get('id') == lst and n.get('args'):
                    idx = _strip(n['args'][0])
                if n.get('k') == 'idx' and (_strip(n.get('b')) or {}).get('id') == lst:
                    idx = _strip(n.get('i'))
            prints.append((b, i, e, idx))
    rep.floor(clause, 'line prints in the multi-PV report', len(prints), 3)
    # the "already printed" flag: a bool local assigned true right after a print of entry mi
    flags = set()
    for b, i, e in f.events():
        if e.get('k') == 'asg' and (_strip(e.get('r')) or {}).get('cv') == 1 and isinstance(_strip(e.get('l')), dict) and _strip(e['l']).get('k') == 'var':
            flags.add(_strip(e['l'])['id'])
    k = 0
    for b, i, e, idx in prints:
        k += 1
        gs = G.guard_trees(f, set(f.blocks), b)
        if isinstance(idx, dict) and idx.get('id') == mi:
            guarded = any((not side) and isinstance(_strip(c), dict) and _strip(c).get('k') == 'var' and _strip(c).get('id') in flags for c, side in gs)
            raised = f.path_avoiding((b, i), R.at_exit, lambda x: x is not None and x.get('k') == 'asg' and (_strip(x.get('l')) or {}).get('id') in flags and (_strip(x.get('r')) or {}).get('cv') == 1) is None or \
                any(ev.get('k') == 'asg' and (_strip(ev.get('l')) or {}).get('id') in flags for ev in f.blocks[b]['ev'])
            rep.ob(clause, 'K4 guard', 'multi-PV report: print #%d of the entry just searched happens only while it has not been printed, and marks it printed' % k, guarded and raised,
                   R.site(f, e), 'guards %s' % [('' if s_ else '!') + show(c, 50) for c, s_ in gs][-3:], f.sname)
        else:
            ne = False
            for c, side in gs:
                c = _strip(c)
                if isinstance(c, dict) and c.get('k') == 'bin' and c.get('op') in ('==', '!='):
                    ids = {(_strip(c.get('l')) or {}).get('id'), (_strip(c.get('r')) or {}).get('id')}
                    if mi in ids and isinstance(idx, dict) and idx.get('id') in ids:
                        if (c['op'] == '==' and not side) or (c['op'] == '!=' and side):
                            ne = True
            rep.ob(clause, 'K4 guard', 'multi-PV report: print #%d of another entry happens only where its index is known to differ from the entry just searched' % k, ne,
                   R.site(f, e), 'guards %s' % [('' if s_ else '!') + show(c, 50) for c, s_ in gs][-3:], f.sname)


# ----------------------------------------------------------------------------- .12

def c12_borrowed_position_restored(fb, rep):
    """K1 pairing on a borrowed position.  The tablebase helpers that pre-select root moves play each legal move on the *search's
    own* position object (passed by reference) and take it back.  A return between the two leaves that object one move
    ahead with the wrong side to move: the root move list still belongs to the real root, every principal variation is then
    extracted from the shifted position and continues with a move of the wrong side.  In every function of TBProbe that
    makes a move on a non-const Position parameter, each makeMove is followed by the unMakeMove on every path to the exit."""
    clause = 'C03.12'
    n = 0
    for f in sorted(fb.funcs.values(), key=lambda x: x.key):
        if not f.has_cfg or not R.in_prog(f) or not f.sname.startswith('TBProbe::'):
            continue
        refs = {p_['id'] for p_ in f.d.get('params', []) if (p_.get('t') or '').replace(' ', '') == 'Position&'}
        if not refs:
            continue
        for b, i, e in f.events():
            if e.get('k') == 'call' and cname(e) == 'Position::makeMove' and (_strip(e.get('recv')) or {}).get('id') in refs:
                n += 1
                pid = _strip(e['recv'])['id']
                undo = lambda x, _p=pid: x is not None and x.get('k') == 'call' and cname(x) == 'Position::unMakeMove' and (_strip(x.get('recv')) or {}).get('id') == _p
                w = f.path_avoiding((b, i), R.at_exit, undo)
                rep.ob(clause, 'K1 pairing', '%s: a move made on the caller\'s position is taken back on every path to the exit' % f.sname, w is None, R.site(f, e),
                       '' if w is None else 'path to the exit without the take-back: ' + ' -> '.join('B%s@%s' % x for x in w[-6:]), f.sname)
    rep.floor(clause, 'moves made on a borrowed position in TBProbe', n, 1)
