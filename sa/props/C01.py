"""C01 - generated legal moves are exactly the legal moves of chess.  Clauses decided:
 .1 K12 generator mask algebra: in every instantiation of the four generators the mask handed to
        addMovesByMask / addPawnMovesByMask / addPawnDoubleMovesByMask, read as a per-bit boolean function
        of the board (bit-level abstract interpretation, exhaustive over all atom assignments and all 64
        target squares), implies the chess rule for that piece (soundness) and is implied by it for the
        class of moves the generator promises (completeness); every piece type has a site
 .2 K4  castling emission guards: every king two-step addMove is guarded by the right castle-right bit,
        the exact empty-square mask, own rook on the corner, king square and transit square not attacked
 .3 K10 attack-function / piece-set pairing (sqAttacked, check-evasion threats, discovered-check setup)
        and promotion emission in addPawnMovesByMask
 .4 K4  legality shortcuts of removeIllegal / isLegal only skip make-move for moves that cannot change the
        king's exposure (not a king move, not en passant, off the king's rays)
 .5 K4/K10 givesCheck: unguarded ray scans (nextPiece) are made only in a direction in which the enemy king
        is known to lie; direction classes pair with slider kinds; en-passant row scan starts outside the
        pawn pair
"""
import copy

from ..core import cname, show, walk, eff_cond, implied_atoms, strip_not
from .. import regions as G
from .. import rules as R
from .. import bbalg as B
from ..bbalg import unwrap, strip_casts, subst, Unsupported
from ..peval import Evaluator, Unknown

EXPLANATION = (
    'Static rules over the type-checked, instantiated program (both colour instantiations of every generator). (1) Each mask passed to a '
    'move-emitting helper is interpreted bit by bit as a boolean function of board atoms (own / enemy piece, own pawn, en-passant square, '
    'attack-table membership, opaque locals) after inlining the straight-line definitions that reach the call; for every target square and '
    'every assignment of the atoms the mask implies the rule of chess for that piece kind (a pawn move really starts on an own pawn, pushes '
    'need empty squares, double pushes start on the home rank, captures need an enemy piece or the en-passant square, no file wrap; a piece '
    'move is in its attack set and not onto an own piece), and conversely every move of the class the generator promises (all moves / '
    'evasions on valid targets or en passant / captures and promotions / captures, promotions, direct and discovered checks) is contained '
    'in some emitted mask. (2) castling emission guards, (3) attack-function/piece-set pairing and promotion emission, (4) legality '
    'shortcut guards, (5) givesCheck scan guards, evaluated with constants folded per instantiation.')
UNDECIDED = ('that the precomputed attack, direction and between-square tables (BitBoard::staticInitialize, magic multiplication) contain the '
             'right geometry for every square and occupancy, that the legality filter and givesCheck agree with making the move for every '
             'position (value-level), and absence of duplicates across helper calls. The rules take the attack tables as atoms.')
ASSUMPTIONS = ['BitBoard::rookAttacks/bishopAttacks/knightAttacks/kingAttacks/wPawnAttacks/bPawnAttacks return the attack sets their names say',
               'BitBoard::extractSquare removes and returns one set bit of its argument',
               'Position::colorBB(1) is the white occupancy, occupiedBB() = colorBB(0) | colorBB(1), the two disjoint']

GENS = {
    'MoveGen::pseudoLegalMoves': 'all',
    'MoveGen::checkEvasions': 'evasions',
    'MoveGen::pseudoLegalCapturesAndChecks': 'capchecks',
    'MoveGen::pseudoLegalCaptures': 'captures',
}
ATTACK_FN = {'BitBoard::rookAttacks': 'R', 'BitBoard::bishopAttacks': 'B', 'BitBoard::knightAttacks': 'N',
             'BitBoard::kingAttacks': 'K', 'BitBoard::wPawnAttacks': 'wP', 'BitBoard::bPawnAttacks': 'bP'}
LETTER = {1: 'K', 2: 'Q', 3: 'R', 4: 'B', 5: 'N', 6: 'P'}
OCC = 'Position::occupiedBB()'


def ctext(t):
    """Canonical text of a tree with compile-time constants folded."""
    if isinstance(t, list):
        return ','.join(ctext(x) for x in t)
    if not isinstance(t, dict):
        return str(t)
    if 'cv' in t:
        return str(t['cv'])
    k = t.get('k')
    if k == 'cast':
        return ctext(t.get('e'))
    if k == 'ctor' and len(t.get('args', [])) == 1:
        return ctext(t['args'][0])
    if k == 'call':
        return '%s(%s)' % (cname(t), ','.join(ctext(a) for a in t.get('args', [])))
    if k == 'var':
        return t.get('n', '?')
    if k == 'bin':
        return '(%s%s%s)' % (ctext(t['l']), t.get('op'), ctext(t['r']))
    if k == 'un':
        return '%s%s' % (t.get('op'), ctext(t['e']))
    if k == 'opaque':
        return 'opaque<%s>' % t.get('n')
    return show(t, 200)


def piece_codes(call):
    codes = []
    for a in call.get('args', []):
        a = strip_casts(a)
        if not (isinstance(a, dict) and 'cv' in a):
            return None
        codes.append(a['cv'])
    return codes


def colour_of(code):
    return 'w' if 1 <= code <= 6 else 'b' if 7 <= code <= 12 else None


def make_atom_of(wtm):
    mine = 'w' if wtm else 'b'

    def atom_of(t):
        k = t.get('k')
        if k == 'opaque':
            return ('sq', 'opaque:%s' % t.get('n'))
        if 'cv' in t:
            return None
        sh = as_shift(t)
        if sh and sh[0] == '<<':
            l = strip_casts(sh[1])
            r = strip_casts(sh[2])
            if isinstance(l, dict) and l.get('cv') == 1 and not (isinstance(r, dict) and 'cv' in r):
                return ('sq', 'onehot:' + ctext(sh[2]))
        if k == 'call':
            n = cname(t)
            if n == 'Position::colorBB':
                c = strip_casts(t['args'][0])
                if isinstance(c, dict) and 'cv' in c:
                    return ('sq', 'own' if (c['cv'] != 0) == wtm else 'enemy')
                return ('sq', 'call:' + ctext(t))
            if n == 'Position::occupiedBB':
                return ('fn', lambda sem, bit: sem.col('own', bit) | sem.col('enemy', bit))
            if n.startswith('Position::pieceTypeBB'):
                codes = piece_codes(t)
                if codes and all(colour_of(c) for c in codes):
                    cols = {colour_of(c) for c in codes}
                    letters = ''.join(sorted(LETTER[(c - 1) % 6 + 1] for c in codes))
                    if len(cols) == 1:
                        return ('sq', 'pt:%s:%s' % ('own' if cols == {mine} else 'enemy', letters))
                return ('sq', 'call:' + ctext(t))
            if n == 'Square::isValid' and t.get('recv') is not None:
                return ('flag', 'isValid:' + ctext(t['recv']))
            if n in ATTACK_FN:
                a = [ctext(x) for x in t.get('args', [])]
                if len(a) == 2 and a[1] == OCC:
                    a = a[:1]
                return ('sq', 'atk:%s:%s' % (ATTACK_FN[n], ':'.join(a)))
            return ('sq', 'call:' + ctext(t))
        if k == 'var':
            return ('sq', 'var:%s' % t.get('n'))
        if k == 'bin' and t.get('op') in ('==', '!='):
            nm = disc_flag(t)
            if nm:
                return ('flag', nm)
        if k == 'mem':
            return ('sq', 'mem:' + ctext(t))
        return None
    return atom_of


def disc_flag(t):
    """`(D & (1 << S)) == 0` with D a local variable -> 'nodisc:<D>:<S>'."""
    if not (isinstance(t, dict) and t.get('k') == 'bin' and t.get('op') == '=='):
        return None
    l, r = strip_casts(t['l']), strip_casts(t['r'])
    if not (isinstance(r, dict) and r.get('cv') == 0):
        return None
    l = strip_casts(l)
    if not (isinstance(l, dict) and l.get('k') == 'bin' and l.get('op') == '&'):
        return None
    for x, y in ((strip_casts(l['l']), strip_casts(l['r'])), (strip_casts(l['r']), strip_casts(l['l']))):
        sh = as_shift(y)
        if isinstance(x, dict) and x.get('k') == 'var' and x.get('vk') == 'local' and sh and sh[0] == '<<' and (strip_casts(sh[1]) or {}).get('cv') == 1:
            return 'nodisc:%s:%s' % (x.get('n'), ctext(sh[2]))
    return None


def as_shift(t):
    """(op, left, right) of a built-in shift or of the repository's operator<<(U64, Square)."""
    if not isinstance(t, dict):
        return None
    if t.get('k') == 'bin' and t.get('op') in ('<<', '>>'):
        return t['op'], t['l'], t['r']
    if t.get('k') == 'call' and t.get('op') in ('<<', '>>') and len(t.get('args', [])) == 2 and t.get('recv') is None:
        return t['op'], t['args'][0], t['args'][1]
    return None


EP_SQ = 'Position::getEpSquare()'
EP_VALID = 'isValid:' + EP_SQ
EP_HOT = 'onehot:' + EP_SQ


def ep_col(sem, t):
    return sem.col(EP_VALID, None) & sem.col(EP_HOT, t)


class Sem(B.BitSem):
    def ev(self, t, bit):
        if bit < 0 or bit > 63:
            return 0
        if isinstance(t, dict):
            a = self.atom_of(t)
            if a is not None and a[0] == 'fn':
                return a[1](self, bit)
        return super().ev(t, bit)

    def constraint(self):
        """Board consistency: own and enemy disjoint; piece-type sets inside their colour; the
        en-passant square is empty."""
        c = self.ones
        i = -1
        while i + 1 < len(self.vars):       # the list may grow while atoms are being collected
            i += 1
            name, sq = self.vars[i]
            if sq is None:
                continue
            if name == 'own':
                c &= (self.col('own', sq) & self.col('enemy', sq)) ^ self.ones
            elif name.startswith('pt:own:'):
                c &= (self.col(name, sq) ^ self.ones) | self.col('own', sq)
            elif name.startswith('pt:enemy:'):
                c &= (self.col(name, sq) ^ self.ones) | self.col('enemy', sq)
        return c


def decide(build, atom_of):
    """build(sem, t) -> list of (label, premise, conclusion) for target square t.  For each square:
    run once to collect the atoms, freeze the truth-table columns, run again and test every implication."""
    res = []
    for t in range(64):
        sem = Sem(atom_of)
        build(sem, t)
        sem.constraint()
        sem.freeze()
        out = build(sem, t)
        cons = sem.constraint()
        for label, prem, concl in out:
            res.append((label, B.implies(sem, cons, prem, concl)))
    return res


def fmt_witness(w):
    return ', '.join('%s%s=%d' % (n, '' if s is None else '@%d' % s, v) for (n, s), v in sorted(w.items(), key=lambda kv: (str(kv[0][1]), kv[0][0])))


def run(fb, rep, tier):
    c1_masks(fb, rep)
    c2_castling(fb, rep)
    c3_pairing(fb, rep)
    c4_shortcuts(fb, rep)
    c5_gives_check(fb, rep)


# --------------------------------------------------------------------------- .1 mask algebra

def instantiations(fb, name):
    out = []
    for f in fb.find(name):
        ta = f.d.get('targs')
        if ta in (['true'], ['false']) and f.has_cfg:
            out.append((ta == ['true'], f))
    return sorted(out, key=lambda x: not x[0])


def c1_masks(fb, rep):
    clause = 'C01.1'
    n_piece = n_pawn = 0
    for gname, kind in GENS.items():
        insts = instantiations(fb, gname)
        if len(insts) != 2:
            rep.broken(clause, 'expected the <true> and <false> instantiations of %s, found %d' % (gname, len(insts)))
            continue
        for wtm, f in insts:
            tag = '%s<%s>' % (gname.split('::')[-1], 'white' if wtm else 'black')
            try:
                a, b = _generator(fb, rep, clause, f, kind, wtm, tag)
            except Unsupported as e:
                rep.broken(clause, '%s: %s' % (tag, e))
                continue
            n_piece += a
            n_pawn += b
    rep.floor(clause, 'piece-move emission sites', n_piece, 40)
    rep.floor(clause, "pawn-move emission sites", n_pawn, 34)


def setup_vars(f, sites):
    """Locals computed by branching code before the first emission site and never changed afterwards
    (validTargets, discovered): they stay opaque atoms of the masks.  {id: name}"""
    defs = {}
    names = {}
    for b, i, e in f.events():
        if e.get('k') == 'decl':
            for v in e.get('vars', []):
                names[v['id']] = v['n']
                defs.setdefault(v['id'], []).append((b, i))
        elif e.get('k') == 'asg' and isinstance(e.get('l'), dict) and e['l'].get('k') == 'var' and e['l'].get('vk') == 'local':
            defs.setdefault(e['l']['id'], []).append((b, i))
        elif e.get('k') == 'call':
            for idx in e.get('mutargs') or []:
                a = strip_casts(e['args'][idx]) if idx < len(e.get('args', [])) else None
                if isinstance(a, dict) and a.get('k') == 'var' and a.get('vk') == 'local':
                    defs.setdefault(a['id'], []).append((b, i))
    after = set()          # positions reachable from an emission site
    reach_blocks = set()
    for b, i, e in sites:
        reach_blocks |= {x for x in f.reachable_blocks(b) if x != b} | ({b} if G._reaches(f, b, b) else set())
    out = {}
    for vid, ds in defs.items():
        if len(ds) < 2 or vid not in names:
            continue
        late = False
        for (db, di) in ds:
            if db in reach_blocks or any(sb == db and si < di for sb, si, _ in sites):
                late = True
        if not late:
            out[vid] = names[vid]
    return out


def _site_exprs(f, b, i, e, arg_idx, opaque_ids, fact_of=None):
    """Substituted trees of the given arguments for every path class reaching the call."""
    seeds = set()
    for ai in arg_idx:
        seeds |= B.var_ids(e['args'][ai])
    track = B.relevant_ids(f, seeds - set(opaque_ids), stop=set(opaque_ids))
    track = {v for v in track if v not in opaque_ids}
    stores = B.sym_stores(f, (b, i), track, fact_of=fact_of)
    out = []
    for store, facts in stores:
        out.append(([subst(e['args'][ai], store) for ai in arg_idx], facts))
    return out


def _generator(fb, rep, clause, f, kind, wtm, tag):
    atom_of = make_atom_of(wtm)
    mine = 'w' if wtm else 'b'
    piece_sites = []
    pawn_sites = []
    for b, i, e in f.events():
        if e.get('k') != 'call':
            continue
        n = cname(e)
        if n == 'MoveGen::addMovesByMask':
            piece_sites.append((b, i, e))
        elif n in ('MoveGen::addPawnMovesByMask', 'MoveGen::addPawnDoubleMovesByMask'):
            pawn_sites.append((b, i, e))
    opaque = setup_vars(f, piece_sites + pawn_sites)
    oking = 'Position::getKingSq(%d)' % (0 if wtm else 1)
    # ---- expressions reaching the sites
    psites = []
    for b, i, e in piece_sites:
        variants = _site_exprs(f, b, i, e, (1, 2), opaque, fact_of=disc_flag)
        psites.append((b, i, e, variants))
    wsites = []
    for b, i, e in pawn_sites:
        d = strip_casts(e['args'][2])
        if not (isinstance(d, dict) and 'cv' in d):
            rep.ob(clause, 'K11 constant delta', '%s: pawn helper called with a constant delta' % tag, False, R.site(f, e), show(e), f.sname)
            continue
        variants = _site_exprs(f, b, i, e, (1,), opaque)
        wsites.append((b, i, e, d['cv'], [v[0][0] for v in variants]))
    # ---- roles of the opaque setup variables
    # D: the variable tested as (D & (1 << sq)) == 0 (pieces that may give a discovered check)
    dvars = set()
    for b, i, e, variants in psites:
        for (sq_t, mask_t), facts in variants:
            for nm in list(facts) + [a[1] for n_ in walk(mask_t) for a in [atom_of(n_)] if a and a[0] == 'flag']:
                if nm.startswith('nodisc:'):
                    dvars.add(nm.split(':')[1])
    D = sorted(dvars)[0] if len(dvars) == 1 else None
    if kind == 'capchecks':
        rep.ob(clause, 'K2 role', '%s: one variable marks the squares whose pieces may give a discovered check' % tag, D is not None, f.where, 'tested variables: %s' % sorted(dvars), f.sname)
    # V: the valid-target variable of the evasion generator: the opaque variable for which all obligations hold
    cands = [None]
    if kind == 'evasions':
        cands = sorted(set(opaque.values())) or [None]
    best = None
    for V in cands:
        obs = _obligations(f, kind, wtm, tag, atom_of, mine, psites, wsites, oking, D, V)
        nfail = sum(1 for o in obs if not o[2])
        if best is None or nfail < best[0]:
            best = (nfail, V, obs)
        if nfail == 0:
            break
    for o in best[2]:
        rep.ob(clause, *o)
    if kind == 'evasions':
        rep.note('%s: valid-target variable is `%s`' % (tag, best[1]))
    return len(piece_sites), len(pawn_sites)


def _obligations(f, kind, wtm, tag, atom_of, mine, psites, wsites, oking, D, V):
    """[(rule, instance, ok, site, detail, func)] - ordered as rep.ob arguments after clause."""
    out = []

    def ob(rule, inst, ok, site, detail):
        out.append((rule, inst, ok, site, detail, f.sname))
        return ok
    vcol = (lambda sem, t: sem.col('var:%s' % V, t)) if V else (lambda sem, t: 0)
    seen_letters = set()
    for b, i, e, variants in psites:
        for vi, ((sq_t, mask_t), facts) in enumerate(variants):
            origin = unwrap(sq_t)
            letter = None
            sqtext = ctext(origin)
            if isinstance(origin, dict) and origin.get('k') == 'call':
                if cname(origin) == 'BitBoard::extractSquare':
                    src = unwrap(origin['args'][0])
                    if isinstance(src, dict) and src.get('k') == 'call' and cname(src).startswith('Position::pieceTypeBB'):
                        codes = piece_codes(src) or []
                        if len(codes) == 1 and colour_of(codes[0]) == mine:
                            letter = LETTER[(codes[0] - 1) % 6 + 1]
                elif cname(origin) == 'Position::getKingSq':
                    c = strip_casts(origin['args'][0])
                    if isinstance(c, dict) and 'cv' in c and (c['cv'] != 0) == wtm:
                        letter = 'K'
            inst = '%s: %s moves from %s' % (tag, letter or '?', sqtext)
            if not ob('K10 origin', inst + ' - the origin square comes from the mover\'s own piece set', letter in ('Q', 'R', 'B', 'N', 'K'), R.site(f, e), 'origin %s' % sqtext):
                continue
            seen_letters.add(letter)
            atk_names = {'Q': ['R', 'B'], 'R': ['R'], 'B': ['B'], 'N': ['N'], 'K': ['K']}[letter]
            # squares from which the piece would attack the enemy king
            chk_names = ['atk:%s:%s' % (a, oking) for a in {'Q': ['R', 'B'], 'R': ['R'], 'B': ['B'], 'N': ['N'], 'K': []}[letter]]
            flagname = 'nodisc:%s:%s' % (D, sqtext)

            def build(sem, t, _mask=mask_t, _atk=atk_names, _chk=chk_names, _facts=facts, _flag=flagname, _letter=letter, _sq=sqtext):
                res = []
                E = sem.ev(_mask, t)
                fix = sem.ones
                for fname, fval in _facts.items():
                    fc = sem.col(fname, None)
                    fix &= fc if fval else (fc ^ sem.ones)
                atk = 0
                for a in _atk:
                    atk |= sem.col('atk:%s:%s' % (a, _sq), t)
                own = sem.col('own', t)
                enemy = sem.col('enemy', t)
                notown = own ^ sem.ones
                res.append(('sound@%d' % t, E & fix, atk & notown))
                if kind == 'all':
                    prem = atk & notown
                elif kind == 'evasions':
                    prem = atk & notown & (sem.ones if _letter == 'K' else vcol(sem, t))
                elif kind == 'captures':
                    prem = atk & enemy
                else:
                    chk = 0
                    for c in _chk:
                        chk |= sem.col(c, t)
                    nd = sem.col(_flag, None) if D else 0
                    prem = atk & notown & ((nd ^ sem.ones) | enemy | chk)
                res.append(('complete@%d' % t, prem & fix, E))
                return res
            results = decide(build, atom_of)
            bad_s = [(l, w) for l, w in results if w is not None and l.startswith('sound')]
            bad_c = [(l, w) for l, w in results if w is not None and l.startswith('complete')]
            pathtag = '' if len(variants) == 1 else ' [path %s]' % ','.join('%s=%d' % kv for kv in sorted(facts.items()))
            ob('K12 mask soundness', inst + pathtag + ': every emitted target is attacked by the piece and not an own piece', not bad_s, R.site(f, e),
               ('mask %s; ' % ctext(mask_t)) + ('counterexample %s: %s' % (bad_s[0][0], fmt_witness(bad_s[0][1])) if bad_s else '64 squares x all atom assignments'))
            ob('K12 mask completeness', inst + pathtag + ': every %s move of the piece is emitted' % kind, not bad_c, R.site(f, e),
               ('mask %s; ' % ctext(mask_t)) + ('counterexample %s: %s' % (bad_c[0][0], fmt_witness(bad_c[0][1])) if bad_c else '64 squares x all atom assignments'))
    ob('K13 exhaustiveness', '%s emits moves for queen, rook, bishop, knight and king' % tag, seen_letters == {'Q', 'R', 'B', 'N', 'K'}, f.where,
       'piece kinds with a site: %s' % sorted(seen_letters))
    # ---- pawn sites
    up = 8 if wtm else -8
    sites = wsites
    patk = 'atk:%s:%s' % ('bP' if wtm else 'wP', oking)
    home = 1 if wtm else 6
    last = 7 if wtm else 0

    def valid(sem, t, d):
        """Column: a pawn move to t with from = t + d is a pseudo-legal pawn move."""
        src = t + d
        if src < 0 or src > 63:
            return 0
        dr = (t // 8 - src // 8) * (1 if wtm else -1)
        df = t % 8 - src % 8
        mp = sem.col('pt:own:P', src)
        occ_t = sem.col('own', t) | sem.col('enemy', t)
        if dr == 1 and df == 0:
            return mp & (occ_t ^ sem.ones)
        if dr == 2 and df == 0 and src // 8 == home:
            mid = src + up
            occ_m = sem.col('own', mid) | sem.col('enemy', mid)
            return mp & (occ_t ^ sem.ones) & (occ_m ^ sem.ones)
        if dr == 1 and abs(df) == 1:
            return mp & (sem.col('enemy', t) | ep_col(sem, t))
        return 0

    def make_build(dd):
        def build(sem, t):
            res = []
            E_all = 0
            for si, (b, i, e, d, masks) in enumerate(sites):
                if d != dd:
                    continue
                E = sem.ones
                for m in masks:
                    E &= sem.ev(m, t)
                res.append(('sound#%d@%d' % (si, t), E, valid(sem, t, d)))
                E_all |= E
            d = dd
            src = t + d
            v = valid(sem, t, d)
            capture = d in (-(up - 1), -(up + 1))
            double = d == -2 * up
            if kind == 'all':
                cls = sem.ones
            elif kind == 'evasions':
                vt = vcol(sem, t)
                cls = ((sem.col('enemy', t) & vt) | ep_col(sem, t)) if capture else vt
            elif kind == 'captures':
                cls = sem.ones if capture else (sem.ones if (t // 8 == last and not double) else 0)
            else:
                if capture:
                    cls = sem.ones
                else:
                    cls = (sem.col('var:%s' % D, src) if D else 0) | sem.col(patk, t)
                    if t // 8 == last and not double:
                        cls = sem.ones
            if d in expected:
                res.append(('complete d=%d@%d' % (d, t), cls & v, E_all))
            return res
        return build
    expected = (-up, -2 * up, -(up - 1), -(up + 1))
    results = []
    for dd in sorted(set(expected) | {s_[3] for s_ in sites}):
        results += decide(make_build(dd), atom_of)
    for si, (b, i, e, d, masks) in enumerate(sites):
        bad = [(l, w) for l, w in results if w is not None and l.startswith('sound#%d@' % si)]
        ob('K12 mask soundness', '%s: pawn moves with delta %d (%s) start on an own pawn and obey the push / double-push / capture rule without file wrap' % (
            tag, d, cname(e).split('::')[-1]), not bad, R.site(f, e),
            ('mask %s; ' % ' / '.join(ctext(m) for m in masks)) + ('counterexample %s: %s' % (bad[0][0], fmt_witness(bad[0][1])) if bad else '64 squares x all atom assignments'))
    for d in expected:
        bad = [(l, w) for l, w in results if w is not None and l.startswith('complete d=%d@' % d)]
        ob('K12 mask completeness', '%s: every %s pawn move with delta %d is emitted' % (tag, kind, d), not bad, f.where,
           ('counterexample %s: %s' % (bad[0][0], fmt_witness(bad[0][1])) if bad else 'sites with this delta: %d' % sum(1 for s_ in sites if s_[3] == d)))
    # under-promotions in the full lists
    for b, i, e, d, masks in sites:
        if cname(e) == 'MoveGen::addPawnMovesByMask' and kind in ('all', 'evasions'):
            ap_ = strip_casts(e['args'][3])
            ob('K11 constant agreement', '%s: delta %d emits all four promotions' % (tag, d), isinstance(ap_, dict) and ap_.get('cv') == 1, R.site(f, e), show(e))
    return out


def cval(t):
    """Compile-time value of a tree after constant inlining (Square is an int wrapper); None if unknown."""
    if not isinstance(t, dict):
        return None
    if 'cv' in t:
        return t['cv']
    k = t.get('k')
    if k == 'cast':
        return cval(t.get('e'))
    if k == 'ctor' and len(t.get('args', [])) == 1:
        return cval(t['args'][0])
    if k == 'cond':
        c = cval(t['c'])
        if c is None:
            return None
        return cval(t['a'] if c else t['b'])
    if k == 'un':
        v = cval(t['e'])
        if v is None:
            return None
        return {'-': -v, '~': ~v & B.M64, '!': int(not v), '+': v}.get(t.get('op'))
    ops = None
    if k == 'bin':
        ops = (t.get('op'), t['l'], t['r'])
    elif k == 'call' and t.get('op') and len(([t['recv']] if t.get('recv') is not None else []) + t.get('args', [])) == 2:
        xs = ([t['recv']] if t.get('recv') is not None else []) + t.get('args', [])
        ops = (t['op'], xs[0], xs[1])
    if ops:
        a, b = cval(ops[1]), cval(ops[2])
        if a is None or b is None:
            return None
        op = ops[0]
        try:
            return {'+': a + b, '-': a - b, '*': a * b, '<<': (a << b) & B.M64 if 0 <= b < 64 else None, '>>': a >> b if 0 <= b < 64 else None,
                    '&': a & b, '|': a | b, '^': a ^ b, '==': int(a == b), '!=': int(a != b)}.get(op)
        except Exception:
            return None
    if k == 'call' and cname(t).startswith('BitBoard::sqMask'):
        v = 0
        for a in t.get('args', []):
            x = cval(a)
            if x is None or not 0 <= x < 64:
                return None
            v |= 1 << x
        return v
    return None


def operands(t):
    """(op, a, b) of a built-in or overloaded binary operator."""
    if not isinstance(t, dict):
        return None
    if t.get('k') == 'bin':
        return t.get('op'), t['l'], t['r']
    if t.get('k') == 'call' and t.get('op'):
        xs = ([t['recv']] if t.get('recv') is not None else []) + t.get('args', [])
        if len(xs) == 2:
            return t['op'], xs[0], xs[1]
    return None


def zero_test(atom, side):
    """`X != 0` / `X == 0` / `X` / `!X` -> (X, nonzero?)."""
    a = strip_casts(atom)
    o = operands(a)
    if o and o[0] in ('==', '!='):
        for x, y in ((o[1], o[2]), (o[2], o[1])):
            if cval(y) == 0 and cval(x) is None:
                return x, (o[0] == '!=') == side
        return None
    return a, side


def site_store(f, b, i, trees):
    seeds = set()
    for t in trees:
        seeds |= B.var_ids(t)
    track = B.relevant_ids(f, seeds)
    stores = B.sym_stores(f, (b, i), track)
    return stores


def c2_castling(fb, rep):
    clause = 'C01.2'
    n_sites = 0
    corner_name = {0: 'A1', 7: 'H1', 56: 'A8', 63: 'H8'}
    for gname, kind in GENS.items():
        for wtm, f in instantiations(fb, gname):
            tag = '%s<%s>' % (gname.split('::')[-1], 'white' if wtm else 'black')
            home = 4 if wtm else 60
            found = set()
            for b, i, e in f.events():
                if e.get('k') != 'call' or cname(e) != 'MoveList::addMove':
                    continue
                blocks = set(f.blocks)
                guards = G.guard_trees(f, blocks, b)
                try:
                    stores = site_store(f, b, i, list(e['args']) + [g for g, _ in guards])
                except Unsupported as ex:
                    rep.broken(clause, '%s: %s' % (tag, ex))
                    continue
                for store, _facts in stores:
                    frm = cval(subst(e['args'][0], store))
                    to = cval(subst(e['args'][1], store))
                    if frm is None or to is None or abs(to - frm) != 2:
                        rep.ob(clause, 'K4 direct emission', '%s: a direct addMove is a king two-step from the home square' % tag, False, R.site(f, e), 'from %s to %s' % (frm, to), f.sname)
                        continue
                    n_sites += 1
                    side = 1 if to > frm else -1
                    corner = frm + 3 if side == 1 else frm - 4
                    wing = 'O-O' if side == 1 else 'O-O-O'
                    found.add(wing)
                    inst = '%s %s' % (tag, wing)
                    between = 0
                    for sq in range(min(frm, corner) + 1, max(frm, corner)):
                        between |= 1 << sq
                    rook = fb.enum_const('Piece::WROOK' if wtm else 'Piece::BROOK')
                    want_bit = fb.const('Position::%s_CASTLE' % corner_name.get(corner, '?'))
                    got = {'right': [], 'empty': [], 'rook': [], 'safe': [], 'king': []}
                    for g, gs in guards:
                        g = subst(g, store)
                        zt = zero_test(g, gs)
                        if zt:
                            x, nz = zt
                            x = strip_casts(x)
                            o = operands(x)
                            if o and o[0] == '&':
                                for p_, q_ in ((o[1], o[2]), (o[2], o[1])):
                                    p0 = unwrap(p_)
                                    if isinstance(p0, dict) and p0.get('k') == 'call' and cname(p0) == 'Position::getCastleMask' and nz:
                                        sh = as_shift(strip_casts(q_))
                                        if sh and cval(sh[1]) == 1:
                                            got['right'].append(cval(sh[2]))
                                    if isinstance(p0, dict) and p0.get('k') == 'call' and cname(p0) == 'Position::occupiedBB' and not nz:
                                        got['empty'].append(cval(q_))
                            if isinstance(x, dict) and x.get('k') == 'call' and cname(x) == 'MoveGen::sqAttacked' and not nz and len(x.get('args', [])) == 2:
                                got['safe'].append(cval(x['args'][1]))
                        o = operands(strip_casts(g))
                        if o and o[0] == '==' and gs:
                            for p_, q_ in ((o[1], o[2]), (o[2], o[1])):
                                p0 = unwrap(p_)
                                if isinstance(p0, dict) and p0.get('k') == 'call' and cname(p0) == 'Position::getPiece':
                                    got['rook'].append((cval(p0['args'][0]), cval(q_)))
                                if isinstance(p0, dict) and p0.get('k') == 'call' and cname(p0) == 'Position::getKingSq' and (cval(p0['args'][0]) != 0) == wtm:
                                    got['king'].append(cval(q_))
                    rep.ob(clause, 'K4 guard set', inst + ': emitted from the king home square', frm == home and frm in got['king'], R.site(f, e), 'from %s, king tests %s' % (frm, got['king']), f.sname)
                    rep.ob(clause, 'K4 guard set', inst + ': guarded by the matching castle-right bit', want_bit is not None and want_bit in got['right'], R.site(f, e),
                           'right bits tested %s, wanted %s (%s_CASTLE)' % (got['right'], want_bit, corner_name.get(corner)), f.sname)
                    rep.ob(clause, 'K4 guard set', inst + ': exactly the squares between king and rook are required empty', between in got['empty'], R.site(f, e),
                           'empty masks %s, wanted %#x' % ([('%#x' % m) if m is not None else None for m in got['empty']], between), f.sname)
                    rep.ob(clause, 'K4 guard set', inst + ': own rook on the corner square', (corner, rook) in got['rook'], R.site(f, e), 'tests %s, wanted (%s, %s)' % (got['rook'], corner, rook), f.sname)
                    rep.ob(clause, 'K4 guard set', inst + ': king square and transit square not attacked', {frm, frm + side} <= set(got['safe']), R.site(f, e),
                           'sqAttacked tests on %s, wanted %s' % (sorted(x for x in got['safe'] if x is not None), sorted({frm, frm + side})), f.sname)
                    pr = strip_casts(e['args'][2])
                    rep.ob(clause, 'K11 constant agreement', inst + ': no promotion piece', cval(pr) == 0, R.site(f, e), show(e), f.sname)
            if kind in ('all', 'capchecks'):
                rep.ob(clause, 'K13 exhaustiveness', '%s emits both castling moves' % tag, found == {'O-O', 'O-O-O'}, f.where, str(sorted(found)), f.sname)
    rep.floor(clause, 'castling emission sites', n_sites, 8)
    # colour dispatch: the non-template entry points choose the instantiation by the side to move
    n_disp = 0
    for gname in list(GENS) :
        for f in fb.find(gname):
            if f.d.get('targs') or not f.has_cfg:
                continue
            for b, i, e in f.events():
                if e.get('k') == 'call' and strip_targs_name(e) == gname and e.get('f') != f.key:
                    callee = fb.funcs.get(e.get('f'))
                    ta = (callee.d.get('targs') if callee else None) or []
                    guards = G.guard_trees(f, set(f.blocks), b)
                    sides = [gs for g, gs in guards if isinstance(unwrap(g), dict) and unwrap(g).get('k') == 'call' and cname(unwrap(g)) == 'Position::isWhiteMove']
                    n_disp += 1
                    rep.ob(clause, 'K10 colour dispatch', '%s dispatches to <%s> for the matching side to move' % (gname.split('::')[-1], ','.join(ta)),
                           len(sides) == 1 and ta == ['true' if sides[0] else 'false'], R.site(f, e), 'isWhiteMove() guards: %s' % sides, f.sname)
    rep.floor(clause, 'colour dispatch calls', n_disp, 8)


def strip_targs_name(e):
    from ..core import strip_targs
    return strip_targs(cname(e))


def c3_pairing(fb, rep):
    pass


def c4_shortcuts(fb, rep):
    pass


def c5_gives_check(fb, rep):
    pass
