"""C01 - generated legal moves are exactly the legal moves of chess.  Clauses decided:
 .1 K12 generator mask algebra: in every instantiation of the four generators the mask handed to
        addMovesByMask / addPawnMovesByMask / addPawnDoubleMovesByMask, read as a per-bit boolean function
        of the board (bit-level abstract interpretation, exhaustive over all atom assignments and all 64
        target squares), implies the chess rule for that piece (soundness) and is implied by it for the
        class of moves the generator promises (completeness); every piece type has a site
 .2 K4  castling emission guards: every king two-step addMove is guarded by the right castle-right bit,
        the exact empty-square mask, own rook on the corner, king square and transit square not attacked
 .3 K10 attack-function / piece-set pairing (sqAttacked, check-evasion threats, discovered-check setup)
        and promotion emission in addPawnMovesByMask
 .4 K4  legality shortcuts of removeIllegal / isLegal only skip make-move for moves that cannot change the
        king's exposure (not a king move, not en passant, off the king's rays)
 .5 K4/K10 givesCheck: unguarded ray scans (nextPiece) are made only in a direction in which the enemy king
        is known to lie; direction classes pair with slider kinds; en-passant row scan starts outside the
        pawn pair
"""
import copy

from ..core import cname, show, walk, eff_cond, implied_atoms, strip_not
from .. import regions as G
from .. import rules as R
from .. import bbalg as B
from ..bbalg import unwrap, strip_casts, subst, Unsupported
from ..peval import Evaluator, Unknown

EXPLANATION = (
    'Static rules over the type-checked, instantiated program (both colour instantiations of every generator). (1) Each mask passed to a '
    'move-emitting helper is interpreted bit by bit as a boolean function of board atoms (own / enemy piece, own pawn, en-passant square, '
    'attack-table membership, opaque locals) after inlining the straight-line definitions that reach the call; for every target square and '
    'every assignment of the atoms the mask implies the rule of chess for that piece kind (a pawn move really starts on an own pawn, pushes '
    'need empty squares, double pushes start on the home rank, captures need an enemy piece or the en-passant square, no file wrap; a piece '
    'move is in its attack set and not onto an own piece), and conversely every move of the class the generator promises (all moves / '
    'evasions on valid targets or en passant / captures and promotions / captures, promotions, direct and discovered checks) is contained '
    'in some emitted mask. (2) castling emission guards, (3) attack-function/piece-set pairing and promotion emission, (4) legality '
    'shortcut guards, (5) givesCheck scan guards, evaluated with constants folded per instantiation. Added later; (2) no condition other than the castling rules or a givesCheck filter restricts a generated castling move. (7) nextPieceSafe reads the board for exactly the 64 (file, rank) pairs on it (100 pairs evaluated).')
UNDECIDED = ('that the precomputed attack, direction and between-square tables (BitBoard::staticInitialize, magic multiplication) contain the '
             'right geometry for every square and occupancy, that the legality filter and givesCheck agree with making the move for every '
             'position (value-level), and absence of duplicates across helper calls. The rules take the attack tables as atoms.')
ASSUMPTIONS = ['BitBoard::rookAttacks/bishopAttacks/knightAttacks/kingAttacks/wPawnAttacks/bPawnAttacks return the attack sets their names say',
               'BitBoard::extractSquare removes and returns one set bit of its argument',
               'Position::colorBB(1) is the white occupancy, occupiedBB() = colorBB(0) | colorBB(1), the two disjoint']

GENS = {
    'MoveGen::pseudoLegalMoves': 'all',
    'MoveGen::checkEvasions': 'evasions',
    'MoveGen::pseudoLegalCapturesAndChecks': 'capchecks',
    'MoveGen::pseudoLegalCaptures': 'captures',
}
ATTACK_FN = {'BitBoard::rookAttacks': 'R', 'BitBoard::bishopAttacks': 'B', 'BitBoard::knightAttacks': 'N',
             'BitBoard::kingAttacks': 'K', 'BitBoard::wPawnAttacks': 'wP', 'BitBoard::bPawnAttacks': 'bP'}
LETTER = {1: 'K', 2: 'Q', 3: 'R', 4: 'B', 5: 'N', 6: 'P'}
OCC = 'Position::occupiedBB()'


def ctext(t):
    """Canonical text of a tree with compile-time constants folded."""
    if isinstance(t, list):
        return ','.join(ctext(x) for x in t)
    if not isinstance(t, dict):
        return str(t)
    if 'cv' in t:
        return str(t['cv'])
    k = t.get('k')
    if k == 'cast':
        return ctext(t.get('e'))
    if k == 'ctor' and len(t.get('args', [])) == 1:
        return ctext(t['args'][0])
    if k == 'call':
        return '%s(%s)' % (cname(t), ','.join(ctext(a) for a in t.get('args', [])))
    if k == 'var':
        return t.get('n', '?')
    if k == 'bin':
        return '(%s%s%s)' % (ctext(t['l']), t.get('op'), ctext(t['r']))
    if k == 'un':
        return '%s%s' % (t.get('op'), ctext(t['e']))
    if k == 'opaque':
        return 'opaque<%s>' % t.get('n')
    return show(t, 200)


def piece_codes(call):
    codes = []
    for a in call.get('args', []):
        a = strip_casts(a)
        if not (isinstance(a, dict) and 'cv' in a):
            return None
        codes.append(a['cv'])
    return codes


def colour_of(code):
    return 'w' if 1 <= code <= 6 else 'b' if 7 <= code <= 12 else None


def make_atom_of(wtm):
    mine = 'w' if wtm else 'b'

    def atom_of(t):
        k = t.get('k')
        if k == 'opaque':
            return ('sq', 'opaque:%s' % t.get('n'))
        if 'cv' in t:
            return None
        sh = as_shift(t)
        if sh and sh[0] == '<<':
            l = strip_casts(sh[1])
            r = strip_casts(sh[2])
            if isinstance(l, dict) and l.get('cv') == 1 and not (isinstance(r, dict) and 'cv' in r):
                return ('sq', 'onehot:' + ctext(sh[2]))
        if k == 'call':
            n = cname(t)
            if n == 'Position::colorBB':
                c = strip_casts(t['args'][0])
                if isinstance(c, dict) and 'cv' in c:
                    return ('sq', 'own' if (c['cv'] != 0) == wtm else 'enemy')
                return ('sq', 'call:' + ctext(t))
            if n == 'Position::occupiedBB':
                return ('fn', lambda sem, bit: sem.col('own', bit) | sem.col('enemy', bit))
            if n.startswith('Position::pieceTypeBB'):
                codes = piece_codes(t)
                if codes and all(colour_of(c) for c in codes):
                    cols = {colour_of(c) for c in codes}
                    letters = ''.join(sorted(LETTER[(c - 1) % 6 + 1] for c in codes))
                    if len(cols) == 1:
                        return ('sq', 'pt:%s:%s' % ('own' if cols == {mine} else 'enemy', letters))
                return ('sq', 'call:' + ctext(t))
            if n == 'Square::isValid' and t.get('recv') is not None:
                return ('flag', 'isValid:' + ctext(t['recv']))
            if n in ATTACK_FN:
                a = [ctext(x) for x in t.get('args', [])]
                if len(a) == 2 and a[1] == OCC:
                    a = a[:1]
                return ('sq', 'atk:%s:%s' % (ATTACK_FN[n], ':'.join(a)))
            return ('sq', 'call:' + ctext(t))
        if k == 'var':
            return ('sq', 'var:%s' % t.get('n'))
        if k == 'bin' and t.get('op') in ('==', '!='):
            nm = disc_flag(t)
            if nm:
                return ('flag', nm)
        if k == 'mem':
            return ('sq', 'mem:' + ctext(t))
        return None
    return atom_of


def disc_flag(t):
    """`(D & (1 << S)) == 0` with D a local variable -> 'nodisc:<D>:<S>'."""
    if not (isinstance(t, dict) and t.get('k') == 'bin' and t.get('op') == '=='):
        return None
    l, r = strip_casts(t['l']), strip_casts(t['r'])
    if not (isinstance(r, dict) and r.get('cv') == 0):
        return None
    l = strip_casts(l)
    if not (isinstance(l, dict) and l.get('k') == 'bin' and l.get('op') == '&'):
        return None
    for x, y in ((strip_casts(l['l']), strip_casts(l['r'])), (strip_casts(l['r']), strip_casts(l['l']))):
        sh = as_shift(y)
        if isinstance(x, dict) and x.get('k') == 'var' and x.get('vk') == 'local' and sh and sh[0] == '<<' and (strip_casts(sh[1]) or {}).get('cv') == 1:
            return 'nodisc:%s:%s' % (x.get('n'), ctext(sh[2]))
    return None


def as_shift(t):
    """(op, left, right) of a built-in shift or of the repository's operator<<(U64, Square)."""
    if not isinstance(t, dict):
        return None
    if t.get('k') == 'bin' and t.get('op') in ('<<', '>>'):
        return t['op'], t['l'], t['r']
    if t.get('k') == 'call' and t.get('op') in ('<<', '>>') and len(t.get('args', [])) == 2 and t.get('recv') is None:
        return t['op'], t['args'][0], t['args'][1]
    return None


EP_SQ = 'Position::getEpSquare()'
EP_VALID = 'isValid:' + EP_SQ
EP_HOT = 'onehot:' + EP_SQ


def ep_col(sem, t):
    return sem.col(EP_VALID, None) & sem.col(EP_HOT, t)


class Sem(B.BitSem):
    def ev(self, t, bit):
        if bit < 0 or bit > 63:
            return 0
        if isinstance(t, dict):
            a = self.atom_of(t)
            if a is not None and a[0] == 'fn':
                return a[1](self, bit)
        return super().ev(t, bit)

    def constraint(self):
        """Board consistency: own and enemy disjoint; piece-type sets inside their colour; the
        en-passant square is empty."""
        c = self.ones
        i = -1
        while i + 1 < len(self.vars):       # the list may grow while atoms are being collected
            i += 1
            name, sq = self.vars[i]
            if sq is None:
                continue
            if name == 'own':
                c &= (self.col('own', sq) & self.col('enemy', sq)) ^ self.ones
            elif name.startswith('pt:own:'):
                c &= (self.col(name, sq) ^ self.ones) | self.col('own', sq)
            elif name.startswith('pt:enemy:'):
                c &= (self.col(name, sq) ^ self.ones) | self.col('enemy', sq)
        return c


def decide(build, atom_of):
    """build(sem, t) -> list of (label, premise, conclusion) for target square t.  For each square:
    run once to collect the atoms, freeze the truth-table columns, run again and test every implication."""
    res = []
    for t in range(64):
        sem = Sem(atom_of)
        build(sem, t)
        sem.constraint()
        sem.freeze()
        out = build(sem, t)
        cons = sem.constraint()
        for label, prem, concl in out:
            res.append((label, B.implies(sem, cons, prem, concl)))
    return res


def fmt_witness(w):
    return ', '.join('%s%s=%d' % (n, '' if s is None else '@%d' % s, v) for (n, s), v in sorted(w.items(), key=lambda kv: (str(kv[0][1]), kv[0][0])))


def run(fb, rep, tier):
    c1_masks(fb, rep)
    c2_castling(fb, rep)
    c3_pairing(fb, rep)
    c4_shortcuts(fb, rep)
    c5_gives_check(fb, rep)
    c6_tables(fb, rep)
    c7_ray_scan_bounds(fb, rep)


# --------------------------------------------------------------------------- .1 mask algebra

def instantiations(fb, name):
    out = []
    for f in fb.find(name):
        ta = f.d.get('targs')
        if ta in (['true'], ['false']) and f.has_cfg:
            out.append((ta == ['true'], f))
    return sorted(out, key=lambda x: not x[0])


def c1_masks(fb, rep, clause='C01.1', only=None):
    n_piece = n_pawn = 0
    for gname, kind in GENS.items():
        if only is not None and gname not in only:
            continue
        insts = instantiations(fb, gname)
        if len(insts) != 2:
            rep.broken(clause, 'expected the <true> and <false> instantiations of %s, found %d' % (gname, len(insts)))
            continue
        for wtm, f in insts:
            tag = '%s<%s>' % (gname.split('::')[-1], 'white' if wtm else 'black')
            try:
                a, b = _generator(fb, rep, clause, f, kind, wtm, tag)
            except Unsupported as e:
                rep.broken(clause, '%s: %s' % (tag, e))
                continue
            n_piece += a
            n_pawn += b
    if only is None:
        rep.floor(clause, 'piece-move emission sites', n_piece, 40)
        rep.floor(clause, "pawn-move emission sites", n_pawn, 34)
    else:
        rep.floor(clause, 'move emission sites of ' + ', '.join(x.split('::')[-1] for x in only), n_piece + n_pawn, 10 * len(only))


def setup_vars(f, sites):
    """Locals computed by branching code before the first emission site and never changed afterwards
    (validTargets, discovered): they stay opaque atoms of the masks.  {id: name}"""
    defs = {}
    names = {}
    for b, i, e in f.events():
        if e.get('k') == 'decl':
            for v in e.get('vars', []):
                names[v['id']] = v['n']
                defs.setdefault(v['id'], []).append((b, i))
        elif e.get('k') == 'asg' and isinstance(e.get('l'), dict) and e['l'].get('k') == 'var' and e['l'].get('vk') == 'local':
            defs.setdefault(e['l']['id'], []).append((b, i))
        elif e.get('k') == 'call':
            for idx in e.get('mutargs') or []:
                a = strip_casts(e['args'][idx]) if idx < len(e.get('args', [])) else None
                if isinstance(a, dict) and a.get('k') == 'var' and a.get('vk') == 'local':
                    defs.setdefault(a['id'], []).append((b, i))
    after = set()          # positions reachable from an emission site
    reach_blocks = set()
    for b, i, e in sites:
        reach_blocks |= {x for x in f.reachable_blocks(b) if x != b} | ({b} if G._reaches(f, b, b) else set())
    out = {}
    for vid, ds in defs.items():
        if len(ds) < 2 or vid not in names:
            continue
        late = False
        for (db, di) in ds:
            if db in reach_blocks or any(sb == db and si < di for sb, si, _ in sites):
                late = True
        if not late:
            out[vid] = names[vid]
    return out


def _site_exprs(f, b, i, e, arg_idx, opaque_ids, fact_of=None):
    """Substituted trees of the given arguments for every path class reaching the call."""
    seeds = set()
    for ai in arg_idx:
        seeds |= B.var_ids(e['args'][ai])
    track = B.relevant_ids(f, seeds - set(opaque_ids), stop=set(opaque_ids))
    track = {v for v in track if v not in opaque_ids}
    stores = B.sym_stores(f, (b, i), track, fact_of=fact_of)
    out = []
    for store, facts in stores:
        out.append(([subst(e['args'][ai], store) for ai in arg_idx], facts))
    return out


def _generator(fb, rep, clause, f, kind, wtm, tag):
    atom_of = make_atom_of(wtm)
    mine = 'w' if wtm else 'b'
    piece_sites = []
    pawn_sites = []
    for b, i, e in f.events():
        if e.get('k') != 'call':
            continue
        n = cname(e)
        if n == 'MoveGen::addMovesByMask':
            piece_sites.append((b, i, e))
        elif n in ('MoveGen::addPawnMovesByMask', 'MoveGen::addPawnDoubleMovesByMask'):
            pawn_sites.append((b, i, e))
    opaque = setup_vars(f, piece_sites + pawn_sites)
    oking = 'Position::getKingSq(%d)' % (0 if wtm else 1)
    # ---- expressions reaching the sites
    psites = []
    for b, i, e in piece_sites:
        variants = _site_exprs(f, b, i, e, (1, 2), opaque, fact_of=disc_flag)
        psites.append((b, i, e, variants))
    wsites = []
    for b, i, e in pawn_sites:
        d = strip_casts(e['args'][2])
        if not (isinstance(d, dict) and 'cv' in d):
            rep.ob(clause, 'K11 constant delta', '%s: pawn helper called with a constant delta' % tag, False, R.site(f, e), show(e), f.sname)
            continue
        variants = _site_exprs(f, b, i, e, (1,), opaque)
        wsites.append((b, i, e, d['cv'], [v[0][0] for v in variants]))
    # ---- roles of the opaque setup variables
    # D: the variable tested as (D & (1 << sq)) == 0 (pieces that may give a discovered check)
    dvars = set()
    for b, i, e, variants in psites:
        for (sq_t, mask_t), facts in variants:
            for nm in list(facts) + [a[1] for n_ in walk(mask_t) for a in [atom_of(n_)] if a and a[0] == 'flag']:
                if nm.startswith('nodisc:'):
                    dvars.add(nm.split(':')[1])
    D = sorted(dvars)[0] if len(dvars) == 1 else None
    if kind == 'capchecks':
        rep.ob(clause, 'K2 role', '%s: one variable marks the squares whose pieces may give a discovered check' % tag, D is not None, f.where, 'tested variables: %s' % sorted(dvars), f.sname)
    # V: the valid-target variable of the evasion generator: the opaque variable for which all obligations hold
    cands = [None]
    if kind == 'evasions':
        cands = sorted(set(opaque.values())) or [None]
    best = None
    for V in cands:
        obs = _obligations(f, kind, wtm, tag, atom_of, mine, psites, wsites, oking, D, V)
        nfail = sum(1 for o in obs if not o[2])
        if best is None or nfail < best[0]:
            best = (nfail, V, obs)
        if nfail == 0:
            break
    for o in best[2]:
        rep.ob(clause, *o)
    if kind == 'evasions':
        rep.note('%s: valid-target variable is `%s`' % (tag, best[1]))
    return len(piece_sites), len(pawn_sites)


def _obligations(f, kind, wtm, tag, atom_of, mine, psites, wsites, oking, D, V):
    """[(rule, instance, ok, site, detail, func)] - ordered as rep.ob arguments after clause."""
    out = []

    def ob(rule, inst, ok, site, detail):
        out.append((rule, inst, ok, site, detail, f.sname))
        return ok
    vcol = (lambda sem, t: sem.col('var:%s' % V, t)) if V else (lambda sem, t: 0)
    seen_letters = set()
    for b, i, e, variants in psites:
        for vi, ((sq_t, mask_t), facts) in enumerate(variants):
            origin = unwrap(sq_t)
            letter = None
            sqtext = ctext(origin)
            if isinstance(origin, dict) and origin.get('k') == 'call':
                if cname(origin) == 'BitBoard::extractSquare':
                    src = unwrap(origin['args'][0])
                    if isinstance(src, dict) and src.get('k') == 'call' and cname(src).startswith('Position::pieceTypeBB'):
                        codes = piece_codes(src) or []
                        if len(codes) == 1 and colour_of(codes[0]) == mine:
                            letter = LETTER[(codes[0] - 1) % 6 + 1]
                elif cname(origin) == 'Position::getKingSq':
                    c = strip_casts(origin['args'][0])
                    if isinstance(c, dict) and 'cv' in c and (c['cv'] != 0) == wtm:
                        letter = 'K'
            inst = '%s: %s moves from %s' % (tag, letter or '?', sqtext)
            if not ob('K10 origin', inst + ' - the origin square comes from the mover\'s own piece set', letter in ('Q', 'R', 'B', 'N', 'K'), R.site(f, e), 'origin %s' % sqtext):
                continue
            seen_letters.add(letter)
            atk_names = {'Q': ['R', 'B'], 'R': ['R'], 'B': ['B'], 'N': ['N'], 'K': ['K']}[letter]
            # squares from which the piece would attack the enemy king
            chk_names = ['atk:%s:%s' % (a, oking) for a in {'Q': ['R', 'B'], 'R': ['R'], 'B': ['B'], 'N': ['N'], 'K': []}[letter]]
            flagname = 'nodisc:%s:%s' % (D, sqtext)

            def build(sem, t, _mask=mask_t, _atk=atk_names, _chk=chk_names, _facts=facts, _flag=flagname, _letter=letter, _sq=sqtext):
                res = []
                E = sem.ev(_mask, t)
                fix = sem.ones
                for fname, fval in _facts.items():
                    fc = sem.col(fname, None)
                    fix &= fc if fval else (fc ^ sem.ones)
                atk = 0
                for a in _atk:
                    atk |= sem.col('atk:%s:%s' % (a, _sq), t)
                own = sem.col('own', t)
                enemy = sem.col('enemy', t)
                notown = own ^ sem.ones
                res.append(('sound@%d' % t, E & fix, atk & notown))
                if kind == 'all':
                    prem = atk & notown
                elif kind == 'evasions':
                    prem = atk & notown & (sem.ones if _letter == 'K' else vcol(sem, t))
                elif kind == 'captures':
                    prem = atk & enemy
                else:
                    chk = 0
                    for c in _chk:
                        chk |= sem.col(c, t)
                    nd = sem.col(_flag, None) if D else 0
                    prem = atk & notown & ((nd ^ sem.ones) | enemy | chk)
                res.append(('complete@%d' % t, prem & fix, E))
                return res
            results = decide(build, atom_of)
            bad_s = [(l, w) for l, w in results if w is not None and l.startswith('sound')]
            bad_c = [(l, w) for l, w in results if w is not None and l.startswith('complete')]
            pathtag = '' if len(variants) == 1 else ' [path %s]' % ','.join('%s=%d' % kv for kv in sorted(facts.items()))
            ob('K12 mask soundness', inst + pathtag + ': every emitted target is attacked by the piece and not an own piece', not bad_s, R.site(f, e),
               ('mask %s; ' % ctext(mask_t)) + ('counterexample %s: %s' % (bad_s[0][0], fmt_witness(bad_s[0][1])) if bad_s else '64 squares x all atom assignments'))
            ob('K12 mask completeness', inst + pathtag + ': every %s move of the piece is emitted' % kind, not bad_c, R.site(f, e),
               ('mask %s; ' % ctext(mask_t)) + ('counterexample %s: %s' % (bad_c[0][0], fmt_witness(bad_c[0][1])) if bad_c else '64 squares x all atom assignments'))
    ob('K13 exhaustiveness', '%s emits moves for queen, rook, bishop, knight and king' % tag, seen_letters == {'Q', 'R', 'B', 'N', 'K'}, f.where,
       'piece kinds with a site: %s' % sorted(seen_letters))
    # ---- pawn sites
    up = 8 if wtm else -8
    sites = wsites
    patk = 'atk:%s:%s' % ('bP' if wtm else 'wP', oking)
    home = 1 if wtm else 6
    last = 7 if wtm else 0

    def valid(sem, t, d):
        """Column: a pawn move to t with from = t + d is a pseudo-legal pawn move."""
        src = t + d
        if src < 0 or src > 63:
            return 0
        dr = (t // 8 - src // 8) * (1 if wtm else -1)
        df = t % 8 - src % 8
        mp = sem.col('pt:own:P', src)
        occ_t = sem.col('own', t) | sem.col('enemy', t)
        if dr == 1 and df == 0:
            return mp & (occ_t ^ sem.ones)
        if dr == 2 and df == 0 and src // 8 == home:
            mid = src + up
            occ_m = sem.col('own', mid) | sem.col('enemy', mid)
            return mp & (occ_t ^ sem.ones) & (occ_m ^ sem.ones)
        if dr == 1 and abs(df) == 1:
            return mp & (sem.col('enemy', t) | ep_col(sem, t))
        return 0

    def make_build(dd):
        def build(sem, t):
            res = []
            E_all = 0
            for si, (b, i, e, d, masks) in enumerate(sites):
                if d != dd:
                    continue
                E = sem.ones
                for m in masks:
                    E &= sem.ev(m, t)
                res.append(('sound#%d@%d' % (si, t), E, valid(sem, t, d)))
                E_all |= E
            d = dd
            src = t + d
            v = valid(sem, t, d)
            capture = d in (-(up - 1), -(up + 1))
            double = d == -2 * up
            if kind == 'all':
                cls = sem.ones
            elif kind == 'evasions':
                vt = vcol(sem, t)
                cls = ((sem.col('enemy', t) & vt) | ep_col(sem, t)) if capture else vt
            elif kind == 'captures':
                cls = sem.ones if capture else (sem.ones if (t // 8 == last and not double) else 0)
            else:
                if capture:
                    cls = sem.ones
                else:
                    cls = (sem.col('var:%s' % D, src) if D else 0) | sem.col(patk, t)
                    if t // 8 == last and not double:
                        cls = sem.ones
            if d in expected:
                res.append(('complete d=%d@%d' % (d, t), cls & v, E_all))
            return res
        return build
    expected = (-up, -2 * up, -(up - 1), -(up + 1))
    results = []
    for dd in sorted(set(expected) | {s_[3] for s_ in sites}):
        results += decide(make_build(dd), atom_of)
    for si, (b, i, e, d, masks) in enumerate(sites):
        bad = [(l, w) for l, w in results if w is not None and l.startswith('sound#%d@' % si)]
        ob('K12 mask soundness', '%s: pawn moves with delta %d (%s) start on an own pawn and obey the push / double-push / capture rule without file wrap' % (
            tag, d, cname(e).split('::')[-1]), not bad, R.site(f, e),
            ('mask %s; ' % ' / '.join(ctext(m) for m in masks)) + ('counterexample %s: %s' % (bad[0][0], fmt_witness(bad[0][1])) if bad else '64 squares x all atom assignments'))
    for d in expected:
        bad = [(l, w) for l, w in results if w is not None and l.startswith('complete d=%d@' % d)]
        ob('K12 mask completeness', '%s: every %s pawn move with delta %d is emitted' % (tag, kind, d), not bad, f.where,
           ('counterexample %s: %s' % (bad[0][0], fmt_witness(bad[0][1])) if bad else 'sites with this delta: %d' % sum(1 for s_ in sites if s_[3] == d)))
    # under-promotions in the full lists
    for b, i, e, d, masks in sites:
        if cname(e) == 'MoveGen::addPawnMovesByMask' and kind in ('all', 'evasions'):
            ap_ = strip_casts(e['args'][3])
            ob('K11 constant agreement', '%s: delta %d emits all four promotions' % (tag, d), isinstance(ap_, dict) and ap_.get('cv') == 1, R.site(f, e), show(e))
    return out


def cval(t):
    """Compile-time value of a tree after constant inlining (Square is an int wrapper); None if unknown."""
    if not isinstance(t, dict):
        return None
    if 'cv' in t:
        return t['cv']
    k = t.get('k')
    if k == 'cast':
        return cval(t.get('e'))
    if k == 'ctor' and len(t.get('args', [])) == 1:
        return cval(t['args'][0])
    if k == 'cond':
        c = cval(t['c'])
        if c is None:
            return None
        return cval(t['a'] if c else t['b'])
    if k == 'un':
        v = cval(t['e'])
        if v is None:
            return None
        return {'-': -v, '~': ~v & B.M64, '!': int(not v), '+': v}.get(t.get('op'))
    ops = None
    if k == 'bin':
        ops = (t.get('op'), t['l'], t['r'])
    elif k == 'call' and t.get('op') and len(([t['recv']] if t.get('recv') is not None else []) + t.get('args', [])) == 2:
        xs = ([t['recv']] if t.get('recv') is not None else []) + t.get('args', [])
        ops = (t['op'], xs[0], xs[1])
    if ops:
        a, b = cval(ops[1]), cval(ops[2])
        if a is None or b is None:
            return None
        op = ops[0]
        try:
            return {'+': a + b, '-': a - b, '*': a * b, '<<': (a << b) & B.M64 if 0 <= b < 64 else None, '>>': a >> b if 0 <= b < 64 else None,
                    '&': a & b, '|': a | b, '^': a ^ b, '==': int(a == b), '!=': int(a != b)}.get(op)
        except Exception:
            return None
    if k == 'call' and cname(t).startswith('BitBoard::sqMask'):
        v = 0
        for a in t.get('args', []):
            x = cval(a)
            if x is None or not 0 <= x < 64:
                return None
            v |= 1 << x
        return v
    return None


def operands(t):
    """(op, a, b) of a built-in or overloaded binary operator."""
    if not isinstance(t, dict):
        return None
    if t.get('k') == 'bin':
        return t.get('op'), t['l'], t['r']
    if t.get('k') == 'call' and t.get('op'):
        xs = ([t['recv']] if t.get('recv') is not None else []) + t.get('args', [])
        if len(xs) == 2:
            return t['op'], xs[0], xs[1]
    return None


def zero_test(atom, side):
    """`X != 0` / `X == 0` / `X` / `!X` -> (X, nonzero?)."""
    a = strip_casts(atom)
    o = operands(a)
    if o and o[0] in ('==', '!='):
        for x, y in ((o[1], o[2]), (o[2], o[1])):
            if cval(y) == 0 and cval(x) is None:
                return x, (o[0] == '!=') == side
        return None
    return a, side


def site_store(f, b, i, trees):
    seeds = set()
    for t in trees:
        seeds |= B.var_ids(t)
    track = B.relevant_ids(f, seeds)
    stores = B.sym_stores(f, (b, i), track)
    return stores


def c2_castling(fb, rep):
    clause = 'C01.2'
    n_sites = 0
    corner_name = {0: 'A1', 7: 'H1', 56: 'A8', 63: 'H8'}
    for gname, kind in GENS.items():
        for wtm, f in instantiations(fb, gname):
            tag = '%s<%s>' % (gname.split('::')[-1], 'white' if wtm else 'black')
            home = 4 if wtm else 60
            found = set()
            for b, i, e in f.events():
                if e.get('k') != 'call' or cname(e) != 'MoveList::addMove':
                    continue
                blocks = set(f.blocks)
                guards = G.guard_trees(f, blocks, b)
                try:
                    stores = site_store(f, b, i, list(e['args']) + [g for g, _ in guards])
                except Unsupported as ex:
                    rep.broken(clause, '%s: %s' % (tag, ex))
                    continue
                for store, _facts in stores:
                    frm = cval(subst(e['args'][0], store))
                    to = cval(subst(e['args'][1], store))
                    if frm is None or to is None or abs(to - frm) != 2:
                        rep.ob(clause, 'K4 direct emission', '%s: a direct addMove is a king two-step from the home square' % tag, False, R.site(f, e), 'from %s to %s' % (frm, to), f.sname)
                        continue
                    n_sites += 1
                    side = 1 if to > frm else -1
                    corner = frm + 3 if side == 1 else frm - 4
                    wing = 'O-O' if side == 1 else 'O-O-O'
                    found.add(wing)
                    inst = '%s %s' % (tag, wing)
                    between = 0
                    for sq in range(min(frm, corner) + 1, max(frm, corner)):
                        between |= 1 << sq
                    rook = fb.enum_const('Piece::WROOK' if wtm else 'Piece::BROOK')
                    want_bit = fb.const('Position::%s_CASTLE' % corner_name.get(corner, '?'))
                    got = {'right': [], 'empty': [], 'rook': [], 'safe': [], 'king': []}
                    unclassified = []
                    for g, gs in guards:
                        n_before = sum(len(v) for v in got.values())
                        g_orig = g
                        g = subst(g, store)
                        zt = zero_test(g, gs)
                        if zt:
                            x, nz = zt
                            x = strip_casts(x)
                            o = operands(x)
                            if o and o[0] == '&':
                                for p_, q_ in ((o[1], o[2]), (o[2], o[1])):
                                    p0 = unwrap(p_)
                                    if isinstance(p0, dict) and p0.get('k') == 'call' and cname(p0) == 'Position::getCastleMask' and nz:
                                        sh = as_shift(strip_casts(q_))
                                        if sh and cval(sh[1]) == 1:
                                            got['right'].append(cval(sh[2]))
                                    if isinstance(p0, dict) and p0.get('k') == 'call' and cname(p0) == 'Position::occupiedBB' and not nz:
                                        got['empty'].append(cval(q_))
                            if isinstance(x, dict) and x.get('k') == 'call' and cname(x) == 'MoveGen::sqAttacked' and not nz and len(x.get('args', [])) == 2:
                                got['safe'].append(cval(x['args'][1]))
                        o = operands(strip_casts(g))
                        if o and o[0] == '==' and gs:
                            for p_, q_ in ((o[1], o[2]), (o[2], o[1])):
                                p0 = unwrap(p_)
                                if isinstance(p0, dict) and p0.get('k') == 'call' and cname(p0) == 'Position::getPiece':
                                    got['rook'].append((cval(p0['args'][0]), cval(q_)))
                                if isinstance(p0, dict) and p0.get('k') == 'call' and cname(p0) == 'Position::getKingSq' and (cval(p0['args'][0]) != 0) == wtm:
                                    got['king'].append(cval(q_))
                        if sum(len(v) for v in got.values()) == n_before:
                            # the captures-and-checks list may leave out a castling move that does not give check, if it
                            # asks the verdict function that C01.5 checks; an ad-hoc attack-set test is not accepted
                            if kind == 'capchecks' and gs and any(n_.get('k') == 'call' and cname(n_) == 'MoveGen::givesCheck' for n_ in walk(g_orig)):
                                continue
                            unclassified.append(('' if gs else '!') + show(g_orig, 70))
                    rep.ob(clause, 'K4 guard set', inst + ': emitted from the king home square', frm == home and frm in got['king'], R.site(f, e), 'from %s, king tests %s' % (frm, got['king']), f.sname)
                    rep.ob(clause, 'K4 guard set', inst + ': guarded by the matching castle-right bit', want_bit is not None and want_bit in got['right'], R.site(f, e),
                           'right bits tested %s, wanted %s (%s_CASTLE)' % (got['right'], want_bit, corner_name.get(corner)), f.sname)
                    rep.ob(clause, 'K4 guard set', inst + ': exactly the squares between king and rook are required empty', between in got['empty'], R.site(f, e),
                           'empty masks %s, wanted %#x' % ([('%#x' % m) if m is not None else None for m in got['empty']], between), f.sname)
                    rep.ob(clause, 'K4 guard set', inst + ': own rook on the corner square', (corner, rook) in got['rook'], R.site(f, e), 'tests %s, wanted (%s, %s)' % (got['rook'], corner, rook), f.sname)
                    rep.ob(clause, 'K4 guard set', inst + ': king square and transit square not attacked', {frm, frm + side} <= set(got['safe']), R.site(f, e),
                           'sqAttacked tests on %s, wanted %s' % (sorted(x for x in got['safe'] if x is not None), sorted({frm, frm + side})), f.sname)
                    rep.ob(clause, 'K4 guard set', inst + ': no condition other than the castling rules restricts the move (every generator lists every legal castling move)',
                           not unclassified, R.site(f, e), 'conditions not among right / empty squares / rook / unattacked squares / king at home: %s' % unclassified, f.sname)
                    pr = strip_casts(e['args'][2])
                    rep.ob(clause, 'K11 constant agreement', inst + ': no promotion piece', cval(pr) == 0, R.site(f, e), show(e), f.sname)
            if kind in ('all', 'capchecks'):
                rep.ob(clause, 'K13 exhaustiveness', '%s emits both castling moves' % tag, found == {'O-O', 'O-O-O'}, f.where, str(sorted(found)), f.sname)
    rep.floor(clause, 'castling emission sites', n_sites, 8)
    # colour dispatch: the non-template entry points choose the instantiation by the side to move
    n_disp = 0
    for gname in list(GENS) :
        for f in fb.find(gname):
            if f.d.get('targs') or not f.has_cfg:
                continue
            for b, i, e in f.events():
                if e.get('k') == 'call' and strip_targs_name(e) == gname and e.get('f') != f.key:
                    callee = fb.funcs.get(e.get('f'))
                    ta = (callee.d.get('targs') if callee else None) or []
                    guards = G.guard_trees(f, set(f.blocks), b)
                    sides = [gs for g, gs in guards if isinstance(unwrap(g), dict) and unwrap(g).get('k') == 'call' and cname(unwrap(g)) == 'Position::isWhiteMove']
                    n_disp += 1
                    rep.ob(clause, 'K10 colour dispatch', '%s dispatches to <%s> for the matching side to move' % (gname.split('::')[-1], ','.join(ta)),
                           len(sides) == 1 and ta == ['true' if sides[0] else 'false'], R.site(f, e), 'isWhiteMove() guards: %s' % sides, f.sname)
    rep.floor(clause, 'colour dispatch calls', n_disp, 8)


def strip_targs_name(e):
    from ..core import strip_targs
    return strip_targs(cname(e))


def single_defs(f):
    """{var id: init tree} for locals with exactly one definition in the function."""
    defs = {}
    for b, i, e in f.events():
        if e.get('k') == 'decl':
            for v in e.get('vars', []):
                defs.setdefault(v['id'], []).append(v.get('init'))
        elif e.get('k') == 'asg' and isinstance(e.get('l'), dict) and e['l'].get('k') == 'var' and 'id' in e['l']:
            defs.setdefault(e['l']['id'], []).append(None)
        elif e.get('k') == 'incdec' and isinstance(e.get('e'), dict) and e['e'].get('k') == 'var' and 'id' in e['e']:
            defs.setdefault(e['e']['id'], []).append(None)
    return {k: v[0] for k, v in defs.items() if len(v) == 1 and v[0] is not None}


def resolve(t, sd, depth=0):
    """Strip wrappers, take the constant arm of conditionals, inline single-definition locals."""
    while isinstance(t, dict) and depth < 20:
        depth += 1
        if t.get('k') == 'cast' or (t.get('k') == 'ctor' and len(t.get('args', [])) == 1):
            t = unwrap(t)
            continue
        if t.get('k') == 'var' and 'cv' not in t and t.get('id') in sd:
            t = sd[t['id']]
            continue
        if t.get('k') == 'cond':
            c = cval(t['c'])
            if c is not None:
                t = t['a'] if c else t['b']
                continue
        break
    return t


def attack_kind(t, sd):
    t = resolve(t, sd)
    if isinstance(t, dict) and t.get('k') == 'call' and cname(t) in ATTACK_FN:
        return ATTACK_FN[cname(t)], t
    return None


def piece_set(t, sd):
    """Set of (colour, letter) of a pure piece-set expression, or None.  Colour is 'w'/'b', or
    'enemy'/'own' relative to the runtime side to move for `isWhiteMove() ? X : Y` selections."""
    t = resolve(t, sd)
    if not isinstance(t, dict):
        return None
    if t.get('k') == 'bin' and t.get('op') == '|':
        a, b = piece_set(t['l'], sd), piece_set(t['r'], sd)
        return None if a is None or b is None else a | b
    if t.get('k') == 'call' and cname(t).startswith('Position::pieceTypeBB'):
        out = set()
        for a in t.get('args', []):
            r = resolve(a, sd)
            v = cval(r)
            if v is not None and colour_of(v):
                out.add((colour_of(v), LETTER[(v - 1) % 6 + 1]))
                continue
            if isinstance(r, dict) and r.get('k') == 'cond':
                c = unwrap(r['c'])
                va, vb = cval(resolve(r['a'], sd)), cval(resolve(r['b'], sd))
                if isinstance(c, dict) and c.get('k') == 'call' and cname(c) == 'Position::isWhiteMove' and va and vb and colour_of(va) and colour_of(vb) \
                        and colour_of(va) != colour_of(vb) and (va - 1) % 6 == (vb - 1) % 6:
                    out.add(('own' if colour_of(va) == 'w' else 'enemy', LETTER[(va - 1) % 6 + 1]))
                    continue
            return None
        return out or None
    return None


PAIR = {'R': {'R', 'Q'}, 'B': {'B', 'Q'}, 'N': {'N'}, 'K': {'K'}, 'wP': {'P'}, 'bP': {'P'}}
# whose pieces the attack sets of these functions are intersected with (relative to the template colour)
PAIR_SIDE = {'MoveGen::sqAttacked': 'enemy', 'MoveGen::checkEvasions': 'enemy', 'MoveGen::pseudoLegalCapturesAndChecks': 'own',
             'MoveGen::isLegal': 'enemy', 'MoveGen::removeIllegal': 'enemy'}
PAIR_KINDS = {'MoveGen::sqAttacked': {'N', 'K', 'P', 'B', 'R'}, 'MoveGen::checkEvasions': {'N', 'P', 'B', 'R'}}


def c3_pairing(fb, rep):
    clause = 'C01.3'
    n = 0
    for f in sorted(fb.funcs.values(), key=lambda x: x.key):
        if not f.has_cfg or f.file not in ('lib/texellib/moveGen.cpp', 'lib/texellib/moveGen.hpp', 'lib/texellib/./moveGen.hpp'):
            continue
        ta = f.d.get('targs')
        if f.d.get('pattern') is None and ta is None and any(g.d.get('pattern') == f.key for g in fb.funcs.values()):
            continue        # the dependent pattern itself: its instantiations are analysed
        wtm = True if ta == ['true'] else False if ta == ['false'] else None
        sd = single_defs(f)
        trees = [e for _, _, e in f.events()]
        for bid, blk in f.blocks.items():
            if bid not in f.dead and (blk.get('term') or {}).get('cond') is not None:
                trees.append(blk['term']['cond'])
        seen = set()
        kinds = set()
        for tr in trees:
            for node in walk(tr):
                if node.get('k') != 'bin' or node.get('op') != '&' or id(node) in seen:
                    continue
                seen.add(id(node))
                for x, y in ((node['l'], node['r']), (node['r'], node['l'])):
                    ak = attack_kind(x, sd)
                    ps = piece_set(y, sd) if ak else None
                    if not ak or ps is None:
                        continue
                    kind, call = ak
                    n += 1
                    letters = {l for _, l in ps}
                    cols = {c for c, _ in ps}
                    tag = '%s%s' % (f.sname.split('::')[-1], '' if wtm is None else '<white>' if wtm else '<black>')
                    inst = '%s: %s intersected with %s' % (tag, cname(call).split('::')[-1], '+'.join(sorted('%s%s' % cl for cl in ps)))
                    ok = letters == PAIR[kind] and len(cols) == 1
                    col = next(iter(cols)) if len(cols) == 1 else None
                    if ok and kind in ('wP', 'bP') and col in ('w', 'b'):
                        ok = (kind == 'wP') == (col == 'b')     # squares a white pawn on sq attacks are where black pawns attack sq from
                    side = PAIR_SIDE.get(f.sname)
                    if ok and side and col in ('w', 'b') and wtm is not None:
                        ok = (col == ('w' if wtm else 'b')) == (side == 'own')
                    elif ok and side and col in ('own', 'enemy'):
                        ok = col == side
                    rep.ob(clause, 'K10 attack/piece pairing', inst, ok, '%s:%s' % (f.file, call.get('ln')), 'attack kind %s, piece set %s, expected types %s of the %s side' % (
                        kind, sorted(ps), sorted(PAIR[kind]), side or 'same'), f.sname)
                    if ok:
                        kinds.add('P' if kind in ('wP', 'bP') else kind)
        if f.sname in PAIR_KINDS and (wtm is not None):
            rep.ob(clause, 'K13 exhaustiveness', '%s<%s> tests every attacker kind' % (f.sname.split('::')[-1], 'white' if wtm else 'black'), kinds == PAIR_KINDS[f.sname], f.where,
                   'kinds %s, wanted %s' % (sorted(kinds), sorted(PAIR_KINDS[f.sname])), f.sname)
    rep.floor(clause, 'attack-set / piece-set intersections', n, 20)
    c3_promotions(fb, rep)
    c3_simple_helpers(fb, rep)


def c3_simple_helpers(fb, rep):
    clause = 'C01.3'
    for nm, want_from in (('MoveGen::addMovesByMask', 'sq0'), ('MoveGen::addPawnDoubleMovesByMask', '+delta')):
        f = fb.find1(nm)
        if rep.need(clause, f, nm) is None:
            continue
        sd = single_defs(f)
        pn = [p_['n'] for p_ in f.d.get('params', [])]
        if len(pn) < 3:
            rep.broken(clause, nm + ': unexpected parameter list')
            continue
        p_mask, p_other = (pn[2], pn[1]) if want_from == 'sq0' else (pn[1], pn[2])
        calls = [(b, i, e) for b, i, e in f.events() if e.get('k') == 'call' and cname(e) == 'MoveList::addMove']
        rep.floor(clause, nm + ' emission calls', len(calls), 1)
        for b, i, e in calls:
            frm = resolve(e['args'][0], sd)
            to = resolve(e['args'][1], sd)
            src_ok = isinstance(to, dict) and to.get('k') == 'call' and cname(to) == 'BitBoard::extractSquare' and ctext(to['args'][0]) == p_mask
            if want_from == 'sq0':
                ok = ctext(frm) == p_other
            else:
                o = operands(frm)
                ok = bool(o and o[0] == '+' and {ctext(resolve(o[1], sd)), ctext(resolve(o[2], sd))} == {ctext(to), p_other})
            rep.ob(clause, 'K10 from/to agreement', '%s: target from the mask, origin %s, no promotion piece' % (nm.split('::')[-1], 'the given square' if want_from == 'sq0' else 'delta away'),
                   ok and src_ok and cval(e['args'][2]) == 0, R.site(f, e), 'from %s, to %s' % (ctext(frm), ctext(to)), f.sname)


def c3_promotions(fb, rep):
    """addPawnMovesByMask: from = to + delta; promotion rank split; promotion pieces of the mover's colour."""
    clause = 'C01.3'
    insts = instantiations(fb, 'MoveGen::addPawnMovesByMask')
    if len(insts) != 2:
        rep.broken(clause, 'expected two instantiations of addPawnMovesByMask, found %d' % len(insts))
        return
    for wtm, f in insts:
        tag = 'addPawnMovesByMask<%s>' % ('white' if wtm else 'black')
        mine = 'w' if wtm else 'b'
        pl_ = f.d.get('params', [])
        if len(pl_) < 4:
            rep.broken(clause, tag + ': unexpected parameter list')
            continue
        params = {'mask': pl_[1]['id'], 'allprom': pl_[3]['id']}
        n_delta, n_allprom = pl_[2]['n'], pl_[3]['n']
        always, under = set(), set()
        n_emit = 0
        prom_ids = set()
        for b, i, e in f.events():
            if e.get('k') != 'call' or cname(e) != 'MoveList::addMove':
                continue
            n_emit += 1
            sd = single_defs(f)
            frm = resolve(e['args'][0], sd)
            to = resolve(e['args'][1], sd)
            o = operands(frm)
            ok_from = bool(o and o[0] == '+' and {ctext(resolve(o[1], sd)), ctext(resolve(o[2], sd))} == {ctext(to), n_delta})
            src_ok = isinstance(to, dict) and to.get('k') == 'call' and cname(to) == 'BitBoard::extractSquare'
            pv = cval(e['args'][2])
            src_var = strip_casts(to['args'][0]) if src_ok else None
            src_id = src_var.get('id') if isinstance(src_var, dict) and src_var.get('k') == 'var' else None
            want_id = params.get('mask') if not pv else 'promotion mask'
            if pv and src_id is not None and src_id != params.get('mask'):
                want_id = src_id
                prom_ids.add(src_id)
            rep.ob(clause, 'K10 from/to agreement', '%s: the %s move goes to a square of the %s mask and starts delta away from it' % (
                tag, ('%s-promotion' % LETTER[(pv - 1) % 6 + 1]) if pv else 'plain', 'promotion' if pv else 'remaining'), ok_from and src_ok and src_id == want_id, R.site(f, e),
                'from %s, to %s' % (ctext(frm), ctext(to)), f.sname)
            # under the all-promotions flag: unreachable with the flag false, reachable with it true (however it is tested)
            ap_id = params.get('allprom')
            if ap_id is not None:
                flag = lambda v_: (lambda t_: ('v', v_) if t_.get('k') == 'var' and t_.get('id') == ap_id else None)
                g_all = G.excluded_under(f, b, flag(0)) and not G.excluded_under(f, b, flag(1))
            else:
                guards = G.guards_of(f, set(f.blocks), b)
                g_all = any(g == n_allprom for g in guards)
            if pv:
                (under if g_all else always).add((colour_of(pv), LETTER[(pv - 1) % 6 + 1]))
        rep.ob(clause, 'K11 constant agreement', '%s: queen and knight promotions always, rook and bishop under allPromotions, all of the mover\'s colour' % tag,
               always == {(mine, 'Q'), (mine, 'N')} and under == {(mine, 'R'), (mine, 'B')}, f.where, 'always %s, under allPromotions %s' % (sorted(always), sorted(under)), f.sname)
        rep.floor(clause, tag + ' emission calls', n_emit, 5)
        # rank split: promotions exactly for targets on rank 1/8, everything else without promotion
        atom_of = make_atom_of(wtm)
        prom_id = sorted(prom_ids)[0] if len(prom_ids) == 1 else None
        last = None
        for b, i, e in f.events():
            if e.get('k') == 'call' and cname(e) == 'MoveList::addMove':
                last = (b, i, e)
        if last is None or prom_id is None:
            rep.broken(clause, tag + ': promotion split not found')
            continue
        b, i, e = last
        stores = B.sym_stores(f, (b, i), {prom_id, params.get('mask')})
        ok = True
        detail = ''
        for store, _ in stores:
            pm = store.get(prom_id)
            rest = store.get(params.get('mask'))
            if pm is None or rest is None:
                ok = False
                detail = 'no straight-line definition'
                break

            def build(sem, t, _pm=pm, _rest=rest, _mn=pl_[1]['n']):
                m = sem.col('var:' + _mn, t)
                r18 = sem.ones if t // 8 in (0, 7) else 0
                return [('prom@%d' % t, sem.ev(_pm, t), m & r18), ('prom-c@%d' % t, m & r18, sem.ev(_pm, t)),
                        ('rest@%d' % t, sem.ev(_rest, t), m & (r18 ^ sem.ones)), ('rest-c@%d' % t, m & (r18 ^ sem.ones), sem.ev(_rest, t))]
            bad = [(l, w) for l, w in decide(build, atom_of) if w is not None]
            if bad:
                ok = False
                detail = 'promotion mask %s, remaining mask %s; counterexample %s' % (ctext(pm), ctext(rest), bad[0][0])
        rep.ob(clause, 'K12 mask algebra', '%s: targets on the first/last rank are emitted as promotions and only those' % tag, ok, f.where, detail, f.sname)


KSQ = 'Position::getKingSq(Position::isWhiteMove())'


def runtime_atom_of(t):
    """Atoms for functions that take the colour from the position at run time."""
    k = t.get('k')
    if k == 'opaque':
        return ('sq', 'opaque:%s' % t.get('n'))
    if 'cv' in t:
        return None
    sh = as_shift(t)
    if sh and sh[0] == '<<':
        l, r = strip_casts(sh[1]), strip_casts(sh[2])
        if isinstance(l, dict) and l.get('cv') == 1 and not (isinstance(r, dict) and 'cv' in r):
            return ('sq', 'onehot:' + ctext(sh[2]))
    if k == 'call':
        n = cname(t)
        if n == 'Position::occupiedBB':
            return ('sq', 'occ')
        if n.startswith('Position::pieceTypeBB'):
            ps = piece_set(t, {})
            if ps and len({c for c, _ in ps}) == 1:
                return ('sq', 'pt:%s:%s' % (next(iter(ps))[0], ''.join(sorted(l for _, l in ps))))
            return ('sq', 'call:' + ctext(t))
        if n in ATTACK_FN:
            a = [ctext(x) for x in t.get('args', [])]
            if len(a) == 2 and a[1] == OCC:
                a = a[:1]
            return ('sq', 'atk:%s:%s' % (ATTACK_FN[n], ':'.join(a)))
        return ('sq', 'call:' + ctext(t))
    if k == 'var':
        return ('sq', 'var:%s' % t.get('n'))
    if k == 'mem':
        return ('sq', 'mem:' + ctext(t))
    return None


def is_call(t, name, recv_param=None):
    t = unwrap(t)
    if not (isinstance(t, dict) and t.get('k') == 'call' and cname(t) == name):
        return False
    return True


def classify_guard(g, side, move_param):
    """Semantic tag of one guard atom of the legality tests (after inlining of locals)."""
    g0 = strip_casts(g)
    if isinstance(g0, dict) and g0.get('k') == 'var' and g0.get('vk') == 'param' and g0.get('t') == 'bool':
        return ('incheck', side)
    if is_call(g0, 'MoveGen::inCheck'):
        return ('incheck', side)
    o = operands(g0)
    if o and o[0] in ('==', '!='):
        ne = (o[0] == '!=') == side
        for x, y in ((o[1], o[2]), (o[2], o[1])):
            if is_call(x, 'Move::from', move_param) and ctext(unwrap(y)) == KSQ:
                return ('notking', ne)
            if is_call(x, 'Move::to', move_param) and ctext(unwrap(y)) == 'Position::getEpSquare()':
                return ('notep', ne)
        dx, dy = unwrap(o[1]), unwrap(o[2])
        if is_call(dx, 'BitBoard::getDirection') and is_call(dy, 'BitBoard::getDirection'):
            ax = [ctext(a) for a in dx['args']]
            ay = [ctext(a) for a in dy['args']]
            if ax[0] == ay[0] == KSQ and {ax[1], ay[1]} == {'Move::from()', 'Move::to()'} and (o[0] == '==') == side:
                return ('samedir', True)
    zt = zero_test(g0, side)
    if zt and not zt[1]:
        x = strip_casts(zt[0])
        # conjunction chain: one conjunct is onehot(Move::to/from), the rest is the tested set
        conj = []

        def flat(t):
            t = strip_casts(t)
            oo = operands(t)
            if oo and oo[0] == '&' and t.get('k') == 'bin':
                flat(oo[1])
                flat(oo[2])
            else:
                conj.append(t)
        flat(x)
        which = None
        rest = []
        for c in conj:
            sh = as_shift(c)
            if sh and sh[0] == '<<' and cval(sh[1]) == 1 and which is None and ctext(sh[2]) in ('Move::to()', 'Move::from()'):
                which = 'to' if ctext(sh[2]) == 'Move::to()' else 'from'
            else:
                rest.append(c)
        if which and rest:
            tree = rest[0]
            for c in rest[1:]:
                tree = {'k': 'bin', 'op': '&', 'l': tree, 'r': c}
            return ('offray', which, tree)
    return None


def c4_shortcuts(fb, rep):
    clause = 'C01.4'
    n_short = 0
    for nm in ('MoveGen::removeIllegal', 'MoveGen::isLegal'):
        f = fb.find1(nm)
        if rep.need(clause, f, nm) is None:
            continue
        short = nm.split('::')[-1]
        mv = 'm'
        exits = []
        for b, i, e in f.events():
            if nm.endswith('removeIllegal') and e.get('k') == 'asg' and isinstance(e.get('l'), dict) and e['l'].get('k') == 'var' and e['l'].get('t') == 'bool':
                exits.append((b, i, e, e.get('r')))
            elif nm.endswith('isLegal') and e.get('k') == 'ret' and e.get('e') is not None:
                exits.append((b, i, e, e.get('e')))
        rep.floor(clause, short + ' verdict sites', len(exits), 4 if short == 'removeIllegal' else 6)
        for b, i, e, val in exits:
            guards = G.guard_trees(f, set(f.blocks), b)
            try:
                stores = site_store(f, b, i, [val] + [g for g, _ in guards])
            except Unsupported as ex:
                rep.broken(clause, '%s: %s' % (short, ex))
                continue
            for store, _ in stores:
                v = subst(val, store)
                sg = [subst(g, store) for g, gs in guards]
                tags = [classify_guard(g2, gs, mv) for g2, (g, gs) in zip(sg, guards)]
                tags = [t for t in tags if t]
                movers = {show(unwrap(n_.get('recv'))) for g2 in sg + [v] for n_ in walk(g2) if n_.get('k') == 'call' and cname(n_) in ('Move::from', 'Move::to')}
                if len(movers) > 1:
                    rep.ob(clause, 'K10 one move', '%s: the guards of a verdict all speak about the same move' % short, False, R.site(f, e), 'receivers: %s' % sorted(movers), f.sname)
                incheck = [t[1] for t in tags if t[0] == 'incheck']
                cv = cval(v)
                neg = strip_not(v)
                where = R.site(f, e)
                # (1) the make-move path: verdict is !inCheck after make / unmake
                if cv is None and is_call(neg[0], 'MoveGen::inCheck') and not neg[1]:
                    mk = [c for _, _, c in f.events() if c.get('k') == 'call' and cname(c) in ('Position::makeMove', 'Position::makeMoveB')]
                    rep.ob(clause, 'K2 full test', '%s: the verdict `%s` is computed from the position after making the move' % (short, show(val)),
                           bool(mk), where, 'make-move calls in function: %d' % len(mk), f.sname)
                    continue
                n_short += 1
                offrays = [t for t in tags if t[0] == 'offray']
                base_ok = ('notking', True) in tags and ('notep', True) in tags
                if cv == 0:
                    need_which, need = 'to', 'incheck-reject'
                    inst = '%s: a move is rejected without being made only when in check, not a king move, not en passant, and its target is off every king ray and not a checking knight' % short
                    ok = base_ok and incheck == [True]
                elif cv == 1 and ('samedir', True) in tags:
                    inst = '%s: a move along the line through the king is accepted without being made only when not in check, not a king move, not en passant' % short
                    rep.ob(clause, 'K4 shortcut guards', inst, base_ok and incheck == [False], where, 'guards: %s' % [t[:2] for t in tags], f.sname)
                    continue
                elif cv == 1:
                    need_which, need = 'from', 'free-accept'
                    inst = '%s: a move is accepted without being made only when not in check, not a king move, not en passant, and its origin is off every king ray' % short
                    ok = base_ok and incheck == [False]
                elif is_call(neg[0], 'MoveGen::sqAttacked') and not neg[1] and ('notking', False) in tags:
                    call = unwrap(neg[0])
                    args = call.get('args', [])
                    inst = '%s: a king move is judged by the attack test of its target with the king lifted off the board' % short
                    ok = incheck == [False] and len(args) == 3 and ctext(args[1]) == 'Move::to()'
                    detail = 'args %s' % [ctext(a) for a in args]
                    if ok:
                        def build(sem, t, _occ=args[2]):
                            E = sem.ev(_occ, t)
                            return [('lifted@%d' % t, E, sem.col('occ', t) & (sem.col('onehot:Move::from()', t) ^ sem.ones)),
                                    ('rest@%d' % t, sem.col('occ', t) & (sem.col('onehot:Move::from()', t) ^ sem.ones), E)]
                        bad = [l for l, w in decide(build, runtime_atom_of) if w is not None]
                        ok = not bad
                        detail += '; occupancy %s%s' % (ctext(args[2]), ' counterexample ' + bad[0] if bad else '')
                    rep.ob(clause, 'K4 shortcut guards', inst, ok, where, detail, f.sname)
                    continue
                else:
                    rep.ob(clause, 'K13 known shortcut', '%s: every verdict not computed by making the move matches a justified shortcut' % short, False, where,
                           'verdict %s under guards %s' % (show(val), [t[:2] for t in tags]), f.sname)
                    continue
                # ray coverage of the off-ray tests
                sets = [t[2] for t in offrays if t[1] == need_which]
                cover_ok = bool(sets)
                detail = 'guards: %s; tested sets: %s' % ([t[:2] for t in tags if t[0] != 'offray'], [ctext(x) for x in sets])
                if sets:
                    def build(sem, t, _sets=sets, _need=need):
                        U = 0
                        for x in _sets:
                            U |= sem.ev(x, t)
                        req = sem.col('atk:R:' + KSQ, t) | sem.col('atk:B:' + KSQ, t)
                        if _need == 'incheck-reject':
                            req |= sem.col('atk:N:' + KSQ, t) & sem.col('pt:enemy:N', t)
                        return [('cover@%d' % t, req, U)]
                    bad = [(l, w) for l, w in decide(build, runtime_atom_of) if w is not None]
                    cover_ok = not bad
                    if bad:
                        detail += '; not covered: %s' % fmt_witness(bad[0][1])
                rep.ob(clause, 'K4 shortcut guards', inst, ok and cover_ok, where, detail, f.sname)
    rep.floor(clause, 'legality shortcuts', n_short, 6)


OKSQ = 'Position::getKingSq(!Position::isWhiteMove())'
ROOK_DIRS = {1, -1, 8, -8}
BISHOP_DIRS = {7, -7, 9, -9}


def switch_body(f, sw, _depth=0):
    """(blocks of the body of switch block sw, its exit block): the body ends at the target of its
    own break statements (nested switches are stepped over)."""
    body = set()
    exits = set()
    unl = [s_ for s_ in f.blocks[sw]['succ'] if (f.blocks[s_].get('label') or {}).get('k') not in ('case', 'default')]
    st = [s_ for s_ in f.blocks[sw]['succ'] if s_ not in unl]
    while st:
        x = st.pop()
        if x in body or x in unl or x == f.exit:
            continue
        body.add(x)
        t = f.blocks[x].get('term') or {}
        if t.get('c') == 'BreakStmt':
            exits.update(f.blocks[x]['succ'])
            continue
        if t.get('c') == 'SwitchStmt' and x != sw and _depth < 4:
            b2, e2 = switch_body(f, x, _depth + 1)
            body |= b2
            if e2 is not None:
                st.append(e2)
            continue
        st.extend(f.blocks[x]['succ'])
    ex = unl[0] if unl else (sorted(exits)[0] if len(exits) == 1 else None)
    body.discard(ex)
    # blocks reached only through the exit are not part of the body
    if ex is not None:
        keep = set()
        st = [s_ for s_ in f.blocks[sw]['succ'] if s_ != ex]
        while st:
            x = st.pop()
            if x in keep or x == ex or x == f.exit or x not in body:
                continue
            keep.add(x)
            st.extend(f.blocks[x]['succ'])
        body = keep
    return body, ex


def switch_labels(f, sw, b):
    """Case labels (ints, or 'default') of the arms of switch block `sw` from which block b is reachable
    inside the switch body."""
    body, ex = switch_body(f, sw)
    if b not in body:
        return set()
    out = set()
    for s_ in f.blocks[sw]['succ']:
        lb = f.blocks[s_].get('label') or {}
        if lb.get('k') not in ('case', 'default'):
            continue
        seen = {s_}
        st = [s_]
        hit = s_ == b
        while st and not hit:
            x = st.pop()
            for y in f.blocks[x]['succ']:
                if y == b:
                    hit = True
                    break
                if y in body and y not in seen:
                    seen.add(y)
                    st.append(y)
        if hit:
            out.add(lb.get('v') if lb.get('k') == 'case' else 'default')
    return out


def dominating_switches(f, b):
    """Switch blocks whose body contains b, innermost first."""
    doms = f.dominators().get(b, set())
    out = []
    for d in sorted(doms, reverse=True):
        t = f.blocks[d].get('term') or {}
        if t.get('c') == 'SwitchStmt' and d != b and b in switch_body(f, d)[0]:
            out.append(d)
    out.sort(key=lambda d: len(switch_body(f, d)[0]))
    return out


def cval2(t, env):
    """cval with an environment keyed by canonical text, std::min/max and Square::asInt."""
    if not isinstance(t, dict):
        return None
    key = ctext(t)
    if key in env:
        return env[key]
    if 'cv' in t:
        return t['cv']
    k = t.get('k')
    if k == 'cast' or (k == 'ctor' and len(t.get('args', [])) == 1):
        return cval2(unwrap(t), env) if unwrap(t) is not t else None
    if k == 'call':
        n = cname(t)
        if n in ('std::max', 'std::min') and len(t.get('args', [])) == 2:
            a, b = cval2(t['args'][0], env), cval2(t['args'][1], env)
            if a is None or b is None:
                return None
            return max(a, b) if n == 'std::max' else min(a, b)
        if n == 'Square::asInt' and t.get('recv') is not None:
            return cval2(t['recv'], env)
    if k == 'un':
        v = cval2(t['e'], env)
        return None if v is None else {'-': -v, '+': v, '!': int(not v)}.get(t.get('op'))
    o = operands(t)
    if o:
        a, b = cval2(o[1], env), cval2(o[2], env)
        if a is None or b is None:
            return None
        return {'+': a + b, '-': a - b, '*': a * b}.get(o[0])
    if k == 'cond':
        c = cval2(t['c'], env)
        return None if c is None else cval2(t['a'] if c else t['b'], env)
    return None


def c5_promotion_rescan(fb, rep, f, clause):
    """K13 coverage of the promotion re-scan.  A promoting pawn that moves straight away from the enemy king vacates the
    square between the new piece and the king; the scan from the to-square stops at the pawn itself, so givesCheck
    re-scans from the from-square.  A pawn moves along a file (push) or a diagonal (capture): the re-scan must grant the
    check for file directions with queen / rook and for all four diagonals with queen / bishop - whatever the control
    structure (switch arms, if-chains) - and for nothing else."""
    wq, wr, wb, wn = (fb.const('Piece::' + n) for n in ('WQUEEN', 'WROOK', 'WBISHOP', 'WKNIGHT'))
    empty = fb.const('Piece::EMPTY')
    if None in (wq, wr, wb, wn, empty):
        rep.broken(clause, 'piece enumerators not found')
        return
    names = {wq: 'Q', wr: 'R', wb: 'B', wn: 'N'}

    def is_prom_guard(c, side):
        c = strip_casts(c)
        if not (isinstance(c, dict) and c.get('k') == 'bin' and c.get('op') in ('!=', '==')):
            return False
        l, r = strip_casts(c.get('l')), strip_casts(c.get('r'))
        for x, y in ((l, r), (r, l)):
            if is_call(x, 'Move::promoteTo') and isinstance(y, dict) and y.get('cv') == empty:
                return (c['op'] == '!=') == bool(side)
        return False
    sites = []
    for b, i, e in f.events():
        if e.get('k') == 'ret' and (strip_casts(e.get('e')) or {}).get('cv') == 1:
            guards = G.guard_trees(f, set(f.blocks), b)
            if any(is_prom_guard(c, side) for c, side in guards):
                sites.append((b, i, e, guards))
    # the direction variable: third argument of the from-square scans that guard these sites
    if rep.need(clause, sites, 'check grants of the promotion re-scan in givesCheck') is None:
        return

    sd_ = single_defs(f)

    def tv(t, env, depth=0):
        t = strip_casts(t)
        if not isinstance(t, dict):
            return None
        if t.get('k') == 'var' and t.get('id') not in env and t.get('id') in sd_ and depth < 4:
            return tv(sd_[t['id']], env, depth + 1)
        if t.get('k') == 'un' and t.get('op') == '!':
            x = tv(t.get('e'), env)
            return None if x is None else (not x)
        if t.get('k') == 'bin' and t.get('op') in ('&&', '||'):
            a, b_ = tv(t.get('l'), env), tv(t.get('r'), env)
            if t['op'] == '&&':
                return False if (a is False or b_ is False) else (True if (a is True and b_ is True) else None)
            return True if (a is True or b_ is True) else (False if (a is False and b_ is False) else None)
        if t.get('k') == 'bin' and t.get('op') in ('==', '!=', '<', '>', '<=', '>='):
            def val(x):
                x = strip_casts(x)
                if isinstance(x, dict) and 'cv' in x:
                    return x['cv']
                if isinstance(x, dict) and x.get('k') == 'var' and x.get('id') in env:
                    return env[x['id']]
                if isinstance(x, dict) and x.get('k') == 'un' and x.get('op') == '-':
                    v_ = val(x.get('e'))
                    return None if v_ is None else -v_
                return None
            a, b_ = val(t.get('l')), val(t.get('r'))
            if a is None or b_ is None:
                return None
            return {'==': a == b_, '!=': a != b_, '<': a < b_, '>': a > b_, '<=': a <= b_, '>=': a >= b_}[t['op']]
        return None
    covered = set()
    for b, i, e, guards in sites:
        dvars, pvars = set(), set()
        for c, side in guards:
            for n in walk(c):
                if n.get('k') == 'call' and cname(n) == 'MoveGen::nextPiece' and len(n.get('args', [])) >= 3:
                    d_ = strip_casts(n['args'][2])
                    if isinstance(d_, dict) and d_.get('k') == 'var':
                        dvars.add(d_['id'])
                if n.get('k') == 'bin' and n.get('op') == '==':
                    for x, y in ((n.get('l'), n.get('r')), (n.get('r'), n.get('l'))):
                        x, y = strip_casts(x), strip_casts(y)
                        if isinstance(x, dict) and x.get('k') == 'var' and isinstance(y, dict) and y.get('cv') in names and 'Piece' in str(y.get('t', '')) + str(y.get('q', '')) + str(y.get('n', '')):
                            pvars.add(x['id'])
        sws = dominating_switches(f, b)
        for d in sorted(ROOK_DIRS | BISHOP_DIRS):
            for q in names:
                env = {}
                for v_ in dvars:
                    env[v_] = d
                for v_ in pvars:
                    env[v_] = q
                feas = bool(dvars)
                for c, side in guards:
                    r_ = tv(c, env)
                    if r_ is not None and r_ != bool(side):
                        feas = False
                for sw in sws:
                    scr = strip_casts((f.blocks[sw].get('term') or {}).get('cond'))
                    labels = switch_labels(f, sw, b)
                    if isinstance(scr, dict) and scr.get('k') == 'var' and scr.get('id') in env and 'default' not in labels and env[scr['id']] not in labels:
                        feas = False
                if feas:
                    covered.add((d, names[q]))
    need = {(d, x) for d in (8, -8) for x in 'QR'} | {(d, x) for d in BISHOP_DIRS for x in 'QB'}
    allowed = {(d, x) for d in ROOK_DIRS for x in 'QR'} | {(d, x) for d in BISHOP_DIRS for x in 'QB'}
    miss = sorted(need - covered)
    pawn_dirs = {8, -8} | BISHOP_DIRS          # the block is entered with the direction of the pawn move itself
    extra = sorted(x for x in covered - allowed if x[0] in pawn_dirs)
    rep.ob(clause, 'K13 coverage', 'givesCheck: the promotion re-scan grants the check along the file for queen / rook and along all four diagonals for queen / bishop', not miss,
           R.site(f, sites[0][2]), '%d grant site(s); missing (direction, piece): %s' % (len(sites), miss), f.sname)
    rep.ob(clause, 'K13 coverage', 'givesCheck: the promotion re-scan grants no check to a piece that does not move in the scanned direction', not extra,
           R.site(f, sites[0][2]), 'granted outside the slider table: %s' % extra, f.sname)


def c5_gives_check(fb, rep):
    clause = 'C01.5'
    f = fb.find1('MoveGen::givesCheck')
    if rep.need(clause, f, 'MoveGen::givesCheck') is None:
        return
    sd = single_defs(f)
    # ---- (a) unbounded ray scans
    scans = [(b, i, e) for b, i, e in f.events() if e.get('k') == 'call' and cname(e) == 'MoveGen::nextPiece']
    others = [g for g in fb.funcs.values() if g.has_cfg and g.key != f.key and g.sname != 'MoveGen::nextPiece' and
              any(e.get('k') == 'call' and cname(e) == 'MoveGen::nextPiece' for _, _, e in g.events())]
    rep.ob(clause, 'K5 who-may-call', 'the unbounded ray scan nextPiece is used only by givesCheck', not others, f.where, 'other callers: %s' % [g.sname for g in others], f.sname)
    rep.floor(clause, 'unbounded ray scans', len(scans), 5)
    row_sites = []
    for b, i, e in scans:
        guards = G.guard_trees(f, set(f.blocks), b)
        S = ctext(resolve(e['args'][1], sd))
        Dv = strip_casts(e['args'][2])
        Ddef = resolve(Dv, sd)
        dname = Dv.get('n') if isinstance(Dv, dict) and Dv.get('k') == 'var' else None
        ok_dir = False
        how = ''

        def dir_from(tree, want_from):
            tree = resolve(tree, sd)
            if not is_call(tree, 'BitBoard::getDirection'):
                return False
            a = [ctext(resolve(x, sd)) for x in tree['args']]
            k_ = ctext(subst_defs(tree['args'][1], sd))
            return a[0] == want_from and k_ == OKSQ
        if dname and dir_from(Dv, S):
            ok_dir, how = True, 'direction from the scan start to the enemy king'
        elif dname:
            for g, gs in guards:
                o = operands(strip_casts(g))
                if o and o[0] == '==' and gs:
                    for x, y in ((o[1], o[2]), (o[2], o[1])):
                        x0 = strip_casts(x)
                        if isinstance(x0, dict) and x0.get('k') == 'var' and x0.get('n') == dname and dir_from(y, S):
                            ok_dir, how = True, 'equal to the direction from the scan start to the enemy king'
        # non-zero direction
        nz = any(zero_test(g, gs) and isinstance(strip_casts(zero_test(g, gs)[0]), dict) and strip_casts(zero_test(g, gs)[0]).get('n') == dname and zero_test(g, gs)[1] for g, gs in guards)
        labels = None
        for sw in dominating_switches(f, b):
            c = strip_casts(f.blocks[sw]['term'].get('cond'))
            if isinstance(c, dict) and c.get('k') == 'var' and c.get('n') == dname:
                labels = switch_labels(f, sw, b)
                break
        if labels and 'default' not in labels and 0 not in labels:
            nz = True
        inst = 'givesCheck: scan from %s along %s' % (S, dname)
        if not ok_dir and labels and labels <= {1, -1} and dname and is_call(Ddef, 'BitBoard::getDirection'):
            row_sites.append((b, i, e, labels))
            rep.ob(clause, 'K4 scan guard', inst + ' runs in a non-zero direction', nz, R.site(f, e), 'case labels %s' % sorted(labels), f.sname)
            continue
        rep.ob(clause, 'K4 scan guard', inst + ' runs in a non-zero direction in which the enemy king is known to lie', ok_dir and nz, R.site(f, e),
               '%s; non-zero: %s%s' % (how or 'direction variable is not tied to the scan start', nz, '' if labels is None else ', case labels %s' % sorted(labels, key=str)), f.sname)
    # ---- (b) direction class / slider pairing
    n_cmp = 0
    per_switch = {}
    seen_cmp = set()
    sw_blocks = sorted((bid for bid, blk in f.blocks.items() if (blk.get('term') or {}).get('c') == 'SwitchStmt'), key=lambda b_: f.blocks[b_]['term'].get('ln') or 0)
    sw_ord = {b_: k_ + 1 for k_, b_ in enumerate(sw_blocks)}
    for bid, blk in f.blocks.items():
        if bid in f.dead:
            continue
        t = blk.get('term') or {}
        c = t.get('cond')
        if c is None or t.get('c') == 'SwitchStmt':
            continue
        sws = [sw for sw in dominating_switches(f, bid) if is_call(resolve(f.blocks[sw]['term'].get('cond'), sd), 'BitBoard::getDirection')]
        if not sws:
            continue
        sw = sws[0]
        labels = switch_labels(f, sw, bid)
        if not labels:
            continue
        leaves = []

        def flat(x):
            x = strip_casts(x)
            if isinstance(x, dict) and x.get('k') == 'bin' and x.get('op') in ('&&', '||'):
                flat(x['l'])
                flat(x['r'])
            elif isinstance(x, dict):
                leaves.append(x)
        flat(c)
        for cc in leaves:
            o = operands(cc)
            if not (o and o[0] == '=='):
                continue
            for x, y in ((o[1], o[2]), (o[2], o[1])):
                x0 = strip_casts(x)
                ps = _piece_const(y)
                if not (isinstance(x0, dict) and x0.get('k') == 'var' and ps):
                    continue
                colour, letter = ps
                key = (cc.get('ln') or t.get('ln'), x0.get('n'), colour, letter, tuple(sorted(labels, key=str)))
                if key in seen_cmp:
                    continue
                seen_cmp.add(key)
                n_cmp += 1
                cls = 'rook' if labels <= ROOK_DIRS else 'bishop' if labels <= BISHOP_DIRS else 'other' if labels == {'default'} else 'mixed'
                allowed = {'rook': {'Q', 'R'}, 'bishop': {'Q', 'B', 'P'}, 'other': {'N'}, 'mixed': set()}[cls]
                per_switch.setdefault(sw, {}).setdefault(cls, set()).add(letter)
                per_switch[sw].setdefault('labels:' + cls, set()).update(labels)
                # colour: the moving piece is normalised to white, a revealed attacker is the mover's own piece
                xdef = resolve(x0, sd)
                if is_call(xdef, 'Piece::makeWhite'):
                    col_ok = colour == 'w'
                else:
                    col_ok = colour == 'own'
                rep.ob(clause, 'K10 direction/slider pairing', 'givesCheck: in the %s-direction arm %s of direction switch #%d, the %s is compared with a %s %s' % (
                    cls, sorted(labels, key=str), sw_ord[sw], 'moving piece' if is_call(xdef, 'Piece::makeWhite') else 'piece behind the line', colour, letter),
                    letter in allowed and col_ok, '%s:%s' % (f.file, t.get('ln')),
                    'allowed pieces %s' % sorted(allowed), f.sname)
    rep.floor(clause, 'slider comparisons inside direction switches', n_cmp, 12)
    c5_promotion_rescan(fb, rep, f, clause)
    for sw, d in sorted(per_switch.items()):
        ln = f.blocks[sw]['term'].get('ln')
        rl = d.get('labels:rook', set())
        bl = d.get('labels:bishop', set())
        rep.ob(clause, 'K13 exhaustiveness', 'givesCheck: direction switch #%d has a rook arm for queen+rook and a bishop arm for queen+bishop covering all four diagonals' % sw_ord[sw],
               d.get('rook') == {'Q', 'R'} and {'Q', 'B'} <= d.get('bishop', set()) and bl == BISHOP_DIRS and (rl == ROOK_DIRS or rl == {1, -1}),
               '%s:%s' % (f.file, ln), 'rook arm %s labels %s; bishop arm %s labels %s' % (sorted(d.get('rook', [])), sorted(rl), sorted(d.get('bishop', [])), sorted(bl)), f.sname)
    # ---- (c) en-passant row case: both pawns leave the row, so the scans start outside the pawn pair
    rep.floor(clause, 'en-passant row scans', len(row_sites), 2)
    for b, i, e, labels in row_sites:
        # the far-side scan in the same arm
        far = [(b2, i2, e2) for b2, i2, e2 in f.events() if e2.get('k') == 'call' and cname(e2) == 'MoveGen::nextPieceSafe' and
               any(switch_labels(f, sw, b2) == labels for sw in dominating_switches(f, b2)[:1]) and (b == b2 or G._reaches(f, b, b2))]
        for L in sorted(labels):
            for dx in (1, -1):
                F = 28
                dn = ctext(strip_casts(e['args'][2]))
                # the file-difference variable (to.getX() - from.getX()) keeps its name; everything else is inlined
                dxn = None
                for vid, init in sd.items():
                    it_ = strip_casts(init)
                    if isinstance(it_, dict) and it_.get('k') == 'bin' and it_.get('op') == '-' and all(
                            any(c_.get('k') == 'call' and cname(c_) == 'Square::getX' for c_ in walk(x_)) for x_ in (it_['l'], it_['r'])):
                        dxn = next((v_['n'] for _, _, ev_ in f.events() if ev_.get('k') == 'decl' for v_ in ev_['vars'] if v_['id'] == vid), None)
                keep_ = tuple(x_ for x_ in (dxn, dn) if x_)
                env = {'Move::from()': F, dn: L}
                if dxn:
                    env[dxn] = dx
                near = cval2(subst_defs(e['args'][1], sd, keep=keep_), env)
                want_near = max(F, F + dx) if L > 0 else min(F, F + dx)
                dirv = cval2(e['args'][2], env)
                ok = near == want_near and dirv == L
                detail = 'from=%d ep-pawn=%d king direction %+d: scan towards the king starts at %s (wanted %d)' % (F, F + dx, L, near, want_near)
                okf = bool(far)
                for b2, i2, e2 in far:
                    fs = cval2(subst_defs(e2['args'][1], sd, keep=keep_), env)
                    fd = cval2(subst_defs(e2['args'][2], sd, keep=keep_), env)
                    want_far = min(F, F + dx) if L > 0 else max(F, F + dx)
                    okf = okf and fs == want_far and fd == -L
                    detail += '; scan away from the king starts at %s direction %s (wanted %d, %+d)' % (fs, fd, want_far, -L)
                rep.ob(clause, 'K12 finite evaluation', 'givesCheck en-passant row case, king direction %+d, captured pawn %s of the capturing pawn: both scans start outside the pawn pair' % (
                    L, 'right' if dx > 0 else 'left'), ok and okf, R.site(f, e), detail, f.sname)


def subst_defs(t, sd, keep=(), depth=0):
    """Inline single-definition locals everywhere in a tree (except the names in `keep`)."""
    if isinstance(t, list):
        return [subst_defs(x, sd, keep, depth) for x in t]
    if not isinstance(t, dict):
        return t
    if t.get('k') == 'var' and 'cv' not in t and t.get('id') in sd and t.get('n') not in keep and depth < 12:
        return subst_defs(sd[t['id']], sd, keep, depth + 1)
    return {k: (subst_defs(v, sd, keep, depth) if isinstance(v, (dict, list)) else v) for k, v in t.items()}


def _piece_const(t):
    """('w'|'b', letter) of a piece constant, ('own', letter) for `wtm ? W : B` selections."""
    t = strip_casts(t)
    v = cval(t)
    if v is not None and colour_of(v):
        return colour_of(v), LETTER[(v - 1) % 6 + 1]
    if isinstance(t, dict) and t.get('k') == 'cond':
        va, vb = cval(t['a']), cval(t['b'])
        if va and vb and colour_of(va) == 'w' and colour_of(vb) == 'b' and (va - 1) % 6 == (vb - 1) % 6:
            return 'own', LETTER[(va - 1) % 6 + 1]
        if va and vb and colour_of(va) == 'b' and colour_of(vb) == 'w' and (va - 1) % 6 == (vb - 1) % 6:
            return 'enemy', LETTER[(va - 1) % 6 + 1]
    return None


# --------------------------------------------------------------------------- .6 geometry tables

INF = 10 ** 9


def _var_range(f, vid, sd, incdec, depth=0):
    """Interval of a local of a table initialiser from its definition: file / rank accessors are 0..7, a
    loop counter starts at its initial value and moves one way."""
    if depth > 6:
        return (-INF, INF)
    inits = [v.get('init') for _, _, e in f.events() if e.get('k') == 'decl' for v in e.get('vars', []) if v['id'] == vid]
    if len(inits) != 1 or inits[0] is None:
        return (-INF, INF)
    lo, hi = _expr_range(f, inits[0], sd, incdec, {}, depth + 1)
    dirs = incdec.get(vid, set())
    asg = any(e.get('k') == 'asg' and isinstance(e.get('l'), dict) and e['l'].get('id') == vid for _, _, e in f.events())
    if asg or dirs == {'++', '--'}:
        return (-INF, INF)
    if dirs == {'++'}:
        return (lo, INF)
    if dirs == {'--'}:
        return (-INF, hi)
    return (lo, hi)


def _expr_range(f, t, sd, incdec, guards, depth=0):
    t = unwrap(t)
    if not isinstance(t, dict):
        return (-INF, INF)
    if 'cv' in t:
        return (t['cv'], t['cv'])
    if t.get('k') == 'var' and 'id' in t:
        lo, hi = _var_range(f, t['id'], sd, incdec, depth)
        glo, ghi = guards.get(t['id'], (-INF, INF))
        return (max(lo, glo), min(hi, ghi))
    if t.get('k') == 'call' and cname(t) in ('Square::getX', 'Square::getY'):
        return (0, 7)
    if t.get('k') == 'bin' and t.get('op') in ('+', '-'):
        a = _expr_range(f, t['l'], sd, incdec, guards, depth)
        b = _expr_range(f, t['r'], sd, incdec, guards, depth)
        if t['op'] == '+':
            return (max(-INF, a[0] + b[0]), min(INF, a[1] + b[1]))
        return (max(-INF, a[0] - b[1]), min(INF, a[1] - b[0]))
    return (-INF, INF)


def _guard_ranges(f, b):
    """{var id: (lo, hi)} implied by the relational guards (incl. enclosing loop conditions) of block b."""
    out = {}
    for g, side in G.guard_trees(f, set(f.blocks), b, skip_loops=False):
        g = strip_casts(g)
        if not (isinstance(g, dict) and g.get('k') == 'bin' and g.get('op') in ('<', '<=', '>', '>=')):
            continue
        l, r = strip_casts(g['l']), strip_casts(g['r'])
        op = g['op']
        if isinstance(r, dict) and r.get('k') == 'var' and isinstance(l, dict) and 'cv' in l:
            l, r = r, l
            op = {'<': '>', '<=': '>=', '>': '<', '>=': '<='}[op]
        if not (isinstance(l, dict) and l.get('k') == 'var' and 'id' in l and isinstance(r, dict) and 'cv' in r):
            continue
        if not side:
            op = {'<': '>=', '<=': '>', '>': '<=', '>=': '<'}[op]
        c = r['cv']
        lo, hi = out.get(l['id'], (-INF, INF))
        if op == '<':
            hi = min(hi, c - 1)
        elif op == '<=':
            hi = min(hi, c)
        elif op == '>':
            lo = max(lo, c + 1)
        else:
            lo = max(lo, c)
        out[l['id']] = (lo, hi)
    return out


def square_ctor_ranges(fb, rep, clause, only_tables=None):
    """K12: every Square(file, rank) built in BitBoard::staticInitialize has both coordinates in 0..7
    (a file of 8 or -1 silently wraps into the neighbouring rank)."""
    f = fb.find1('BitBoard::staticInitialize')
    if rep.need(clause, f, 'BitBoard::staticInitialize') is None:
        return
    sd = single_defs(f)
    incdec = {}
    for _, _, e in f.events():
        if e.get('k') == 'incdec' and isinstance(e.get('e'), dict) and 'id' in e['e']:
            incdec.setdefault(e['e']['id'], set()).add(e.get('op'))
    n = 0
    seen = {}
    for b, i, e in f.events():
        if not (e.get('k') == 'ctor' and e.get('cls') == 'Square' and len(e.get('args', [])) == 2):
            continue
        # which table the square goes into: the next array store reachable in the same loop body
        tables = set()
        st = [b]
        vis = set()
        while st:
            x = st.pop()
            if x in vis:
                continue
            vis.add(x)
            for ev in f.blocks[x]['ev']:
                if ev.get('k') == 'asg' and isinstance(strip_casts(ev.get('l')), dict) and strip_casts(ev['l']).get('k') == 'idx':
                    nm = ctext(strip_casts(ev['l']).get('b') or strip_casts(ev['l']).get('a') or {})
                    tables.add(nm)
            if not tables:
                st.extend(s_ for s_ in f.blocks[x]['succ'] if s_ != f.exit)
        if only_tables is not None and not (tables & set(only_tables)):
            continue
        guards = _guard_ranges(f, b)
        rs = [_expr_range(f, a, sd, incdec, guards) for a in e['args']]
        ok = all(0 <= lo and hi <= 7 for lo, hi in rs)
        n += 1
        key = (show(e, 60), tuple(sorted(tables)))
        seen[key] = seen.get(key, 0) + 1
        rep.ob(clause, 'K12 coordinate range', 'staticInitialize: %s feeding %s (#%d) has file and rank inside 0..7' % (show(e, 60), '/'.join(sorted(tables)) or 'a table', seen[key]), ok,
               R.site(f, e), 'file %s, rank %s' % (rs[0], rs[1]), f.sname)
    return n


def _leaper_targets(kind):
    """{origin square: set of attacked squares} for the non-sliding attack tables."""
    out = {}
    steps = {'K': [(dx, dy) for dx in (-1, 0, 1) for dy in (-1, 0, 1) if (dx, dy) != (0, 0)],
             'N': [(1, 2), (2, 1), (-1, 2), (-2, 1), (1, -2), (2, -1), (-1, -2), (-2, -1)],
             'wP': [(-1, 1), (1, 1)], 'bP': [(-1, -1), (1, -1)]}[kind]
    for s in range(64):
        x, y = s % 8, s // 8
        out[s] = {(y + dy) * 8 + x + dx for dx, dy in steps if 0 <= x + dx <= 7 and 0 <= y + dy <= 7}
    return out


LEAPER_TABLES = {'BitBoard::kingAttacksTable': 'K', 'BitBoard::knightAttacksTable': 'N',
                 'BitBoard::wPawnAttacksTable': 'wP', 'BitBoard::bPawnAttacksTable': 'bP'}


def leaper_tables(fb, rep, clause):
    """K12 bit-level: the shift-and-mask formulas that fill the king / knight / pawn attack tables produce,
    for every origin square, exactly the squares a king / knight / pawn attacks from there."""
    f = fb.find1('BitBoard::staticInitialize')
    if rep.need(clause, f, 'BitBoard::staticInitialize') is None:
        return 0
    n = 0
    for b, i, e in f.events():
        if e.get('k') != 'asg' or e.get('op') != '=':
            continue
        l = strip_casts(e.get('l'))
        if not (isinstance(l, dict) and l.get('k') == 'call' and l.get('op') == '[]' and isinstance(l.get('recv'), dict) and l['recv'].get('q') in LEAPER_TABLES):
            continue
        kind = LEAPER_TABLES[l['recv']['q']]
        idx = ctext(l['args'][0])
        track = B.relevant_ids(f, B.var_ids(e.get('r')))
        # the loop variable holding the origin square stays symbolic
        track = {v for v in track if v not in B.var_ids(l['args'][0])}
        try:
            stores = B.sym_stores(f, (b, i), track)
        except Unsupported as ex:
            rep.broken(clause, str(ex))
            continue
        n += 1
        targets = _leaper_targets(kind)
        hot = 'onehot:' + idx
        ok = True
        detail = ''
        for store, _ in stores:
            val = subst(e['r'], store)

            def build(sem, t, _val=val):
                want = 0
                for s_ in range(64):
                    if t in targets[s_]:
                        want |= sem.col(hot, s_)
                E = sem.ev(_val, t)
                return [('sound@%d' % t, E, want), ('complete@%d' % t, want, E)]
            try:
                bad = [(lbl, w) for lbl, w in decide(build, runtime_atom_of) if w is not None]
            except Unsupported as ex:
                bad = [('unsupported: %s' % ex, {})]
            if bad:
                ok = False
                detail = 'formula %s; %s %s' % (ctext(val), bad[0][0], fmt_witness(bad[0][1]) if bad[0][1] else '')
        rep.ob(clause, 'K12 table formula', 'staticInitialize: %s[sq] is exactly the %s attack set of sq for all 64 squares' % (
            l['recv']['q'].split('::')[-1], {'K': 'king', 'N': 'knight', 'wP': 'white pawn', 'bP': 'black pawn'}[kind]), ok, R.site(f, e), detail, f.sname)
    return n


def c6_tables(fb, rep):
    clause = 'C01.6'
    n = square_ctor_ranges(fb, rep, clause)
    rep.floor(clause, 'Square(file, rank) constructions in the table initialiser', n or 0, 10)
    m = leaper_tables(fb, rep, clause)
    rep.floor(clause, 'non-sliding attack tables filled by shift formulas', m, 4)
    k = ep_tables(fb, rep, clause)
    rep.floor(clause, 'en-passant mask tables', k, 2)


def _ceval(t, env):
    """Concrete value of a tree of the table initialiser (ints, Square(file, rank) = file + 8*rank, shifts,
    bit operations); env maps var ids to ints.  Raises Unsupported."""
    t = strip_casts(t)
    if not isinstance(t, dict):
        raise Unsupported('no tree')
    if 'cv' in t:
        return t['cv']
    k = t.get('k')
    if k == 'var' and t.get('id') in env:
        return env[t['id']]
    if k == 'ctor' and t.get('cls') == 'Square' and len(t.get('args', [])) == 2:
        return _ceval(t['args'][0], env) + 8 * _ceval(t['args'][1], env)
    if k == 'ctor' and len(t.get('args', [])) == 1:
        return _ceval(t['args'][0], env)
    if k == 'un' and t.get('op') in ('~', '-'):
        v = _ceval(t['e'], env)
        return (~v) & B.M64 if t['op'] == '~' else -v
    o = operands(t)
    if o:
        a, b = _ceval(o[1], env), _ceval(o[2], env)
        op = o[0]
        if op in ('<<', '>>') and not 0 <= b < 64:
            raise Unsupported('shift by %d' % b)
        fn = {'+': lambda: a + b, '-': lambda: a - b, '*': lambda: a * b, '|': lambda: a | b, '&': lambda: a & b, '^': lambda: a ^ b,
              '<<': lambda: (a << b) & B.M64, '>>': lambda: a >> b}.get(op)
        if fn is None:
            raise Unsupported('operator ' + str(op))
        return fn()
    raise Unsupported('node %s: %s' % (k, show(t, 80)))


def ep_tables(fb, rep, clause):
    """K12 finite evaluation: for each of the 8 files the value stored into epMaskW / epMaskB is exactly the set
    of squares next to that file on the rank where a pawn that can capture en passant stands (4th rank for a
    white double push, 5th for a black one) - however the initialiser computes it (explicit squares under
    guards, or shifts).  makeMove records an en-passant square exactly when this mask meets an enemy pawn."""
    f = fb.find1('BitBoard::staticInitialize')
    if rep.need(clause, f, 'BitBoard::staticInitialize') is None:
        return 0
    n = 0
    for b, i, e in f.events():
        if e.get('k') != 'asg' or e.get('op') != '=':
            continue
        l = strip_casts(e.get('l'))
        if not (isinstance(l, dict) and l.get('k') == 'idx' and any(x.get('q') in ('BitBoard::epMaskW', 'BitBoard::epMaskB') for x in walk(l))):
            continue
        tbl = next(x.get('q') for x in walk(l) if x.get('q') in ('BitBoard::epMaskW', 'BitBoard::epMaskB'))
        ivars = [x for x in walk(l.get('i') or {}) if x.get('k') == 'var' and 'id' in x] or \
                [x for x in walk(l) if x.get('k') == 'var' and 'id' in x and x.get('vk') == 'local']
        if len({x['id'] for x in ivars}) != 1:
            rep.broken(clause, 'index of %s is not a single loop variable' % tbl)
            continue
        fid = ivars[0]['id']
        n += 1
        rank = 3 if tbl.endswith('W') else 4

        def fact_of(atom, _fid=fid):
            a = strip_casts(atom)
            if isinstance(a, dict) and a.get('k') == 'bin' and a.get('op') in ('<', '<=', '>', '>=', '==', '!='):
                lv, rv = strip_casts(a['l']), strip_casts(a['r'])
                if isinstance(lv, dict) and lv.get('id') == _fid and isinstance(rv, dict) and 'cv' in rv:
                    return 'f %s %d' % (a['op'], rv['cv'])
            return None
        track = B.relevant_ids(f, B.var_ids(e.get('r')), stop={fid}) - {fid}
        try:
            stores = B.sym_stores(f, (b, i), track, fact_of=fact_of)
        except Unsupported as ex:
            rep.broken(clause, '%s: %s' % (tbl, ex))
            continue
        bad = []
        for fv in range(8):
            want = 0
            for nf in (fv - 1, fv + 1):
                if 0 <= nf <= 7:
                    want |= 1 << (nf + 8 * rank)
            vals = set()
            for store, facts in stores:
                if not all(eval('%d %s' % (fv, k_[2:])) == v_ for k_, v_ in facts.items()):
                    continue
                try:
                    vals.add(_ceval(subst(e['r'], store), {fid: fv}))
                except Unsupported as ex:
                    vals.add('? ' + str(ex))
            if vals != {want}:
                bad.append('file %d: %s, wanted %#x' % (fv, sorted(('%#x' % v) if isinstance(v, int) else v for v in vals), want))
        rep.ob(clause, 'K12 table contents', 'staticInitialize: %s[file] is exactly the two (at the edge: one) squares beside that file on rank %d, for all 8 files' % (tbl.split('::')[-1], rank + 1),
               not bad, R.site(f, e), '; '.join(bad[:3]), f.sname)
    return n


# ----------------------------------------------------------------------------- .7

def c7_ray_scan_bounds(fb, rep):
    """K12 the bounds of the unguarded ray walk.  givesCheck() looks for the first piece behind a square with nextPieceSafe(), which
    steps a (file, rank) pair and must stop exactly when it leaves the board: the read of the board is evaluated for every
    pair in [-1, 8] x [-1, 8]; it must be reachable for the 64 pairs on the board and unreachable for the 36 off it.  A
    test that stops one rank early never sees a piece on the 8th rank: discovered checks by a slider there, castling and
    en-passant checks against a king there are reported as "no check" and the child node is searched with the wrong flag."""
    clause = 'C01.7'
    f = fb.find1('MoveGen::nextPieceSafe')
    if rep.need(clause, f, 'MoveGen::nextPieceSafe') is None:
        return
    coord = {}
    for b, i, e in f.events():
        if e.get('k') == 'decl':
            for v in e.get('vars', []):
                init = strip_casts(v.get('init'))
                if isinstance(init, dict) and init.get('k') == 'call' and cname(init) in ('Square::getX', 'Square::getY'):
                    coord[cname(init)[-1]] = v['id']
    if rep.need(clause, None if set(coord) != {'X', 'Y'} else 1, 'the file / rank locals of nextPieceSafe') is None:
        return
    reads = [(b, i, e) for b, i, e in f.events() if e.get('k') == 'call' and cname(e) == 'Position::getPiece']
    if rep.floor(clause, 'board reads in nextPieceSafe', len(reads), 1) is False or not reads:
        return
    from .. import regions as G2
    b0 = reads[0][0]
    bad = []
    for x in range(-1, 9):
        for y in range(-1, 9):
            leaf = lambda t, _x=x, _y=y: ('v', _x) if t.get('k') == 'var' and t.get('id') == coord['X'] else (('v', _y) if t.get('k') == 'var' and t.get('id') == coord['Y'] else None)
            excl = G2.excluded_under(f, b0, leaf)
            inside = 0 <= x <= 7 and 0 <= y <= 7
            if excl == inside:
                bad.append('(%d,%d) %s' % (x, y, 'on the board but never read' if inside else 'off the board but read'))
    rep.ob(clause, 'K12 index bound', 'nextPieceSafe reads the board for exactly the 64 (file, rank) pairs on it (100 pairs evaluated)', not bad, R.site(f, reads[0][2]),
           '; '.join(bad[:4]) + (' (%d in all)' % len(bad) if bad else 'all 100 as wanted'), f.sname)
