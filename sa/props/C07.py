"""C07 - static evaluation is a pure, symmetric function of the position.  Clauses decided:
 .1 K5/K2 incremental-state notification: every writer of the board either notifies the connected
        network evaluator, forces a full refresh, or is a temporary variant reachable only from
        paired make/unmake helpers; make/unmake push/pop the evaluator state
 .2 K12 bounded incremental queues and refresh buffer
 .3 K16/K11 cache-key completeness of Evaluate::evalPos (every non-position input that flows into
        the cached score is mixed into the key exactly when it matters); half-move buckets of the
        key refine the buckets the evaluation uses; material-hash key arithmetic unsigned
 .4 K10 colour symmetry of the endgame rules: case labels closed under MatId::mirror; mirrored
        helper calls are sigma-images (arguments colour-swapped, squares rotated, score negated)
"""
import re

from ..core import cname, ap, walk, show, strip_not, eff_cond, strip_targs
from .. import regions as G
from .. import rules as R
from . import common

EXPLANATION = (
    'Static rules over the resolved program. Decided: (1) every function that writes PositionBase::squares either calls '
    'NNEvaluator::setPiece for the same square under the connected-evaluator test (setPiece, clearPiece, movePieceNotPawn), forces a '
    'full refresh (copy/assignment/deSerialize), or is a temporary variant (setPieceB, movePieceNotPawnB, setSEEPiece) called only '
    'from makeMoveB/unMakeMoveB/makeSEEMove/unMakeSEEMove, whose call sites are paired on all paths (C02.7); makeMove must-calls '
    'pushState, unMakeMove disconnects the evaluator, restores it and must-calls popState; (2) every append to the toAdd/toSub '
    'queues is guarded by length < maxIncr with maxIncr equal to the array extent, and the full-refresh buffer holds 32 >= 30 non-king '
    'men per side view; (3) Evaluate::evalPos: the only non-position input flowing into the cached score is whiteContempt, it is '
    'mixed into the key by a term that depends on it, and the guard of the mixing is exactly the guard under which contempt can '
    'change the score (contempt != 0); the half-move thresholds of Position::historyHash refine the evaluation\'s /10 buckets and the '
    'un-keyed clock range only spans table entries that are fixed and equal; the material-hash slot key is computed in unsigned '
    'arithmetic; (4) the case labels of the material switch in endGameEval are closed under MatId::mirror, and for every mirrored pair '
    'that ends in a helper call the black call is the sigma-image of the white call (same helper, negated result, colour-swapped '
    'arguments with squares rotated by 180 degrees, side to move inverted, score negated).'
    ' (5) addSubWeights only loads, stores and applies wrapping 16-bit add / subtract in matching numbers (no clamp, no saturating intrinsic) in every build variant, and the full refresh uses the same routine as the incremental update.'
    ' Added later; (7) the classification pass endGameEval<false>, whose result is cached under the material signature alone, branches only on functions of the material (signature, sums, piece counts, presence tests; sums of square-restricted counts over a partition of the board count as piece counts).'
    ' Added later; (8) no right shift of a signed value that may be negative in Evaluate / EndGameEval (reaching definitions prove non-negativity).'
    ' Added later; (9) computeL1WB keeps an accumulator only while the king square is unchanged, or under a key that is as fine as getIndex (both interpreted for all 64 x 10 x 64 x 2 arguments). (3, strengthened) no lossy operator (abs, division, shift, mask, narrowing conversion) stands between the contempt and the key term. (10) NNEvaluator::popState pops a level or invalidates the remaining one (forceFullEval) on every path. (11) computeMaterialScore changes sign when the piece counts of the two colours are exchanged (interpreted for 25 count tables, the correction function uninterpreted).')
UNDECIDED = ('numerical equality of incremental and from-scratch network outputs and of the SIMD kernels beyond the group-structure clause 5 (value-level), '
             'left-right mirror symmetry of the network, endgame cases that are written inline rather than as helper calls (listed as not covered).')
ASSUMPTIONS = ['position domain: at most 30 non-king men', 'the helper evaluations (k*Eval) themselves are written from white\'s point of view']

P = 'Position'
NOTIFY = ('setPiece', 'clearPiece', 'movePieceNotPawn')
TEMP = {'setPieceB': {'makeMoveB', 'unMakeMoveB'}, 'movePieceNotPawnB': {'makeMoveB', 'unMakeMoveB'}, 'setSEEPiece': {'makeSEEMove', 'unMakeSEEMove'}}
REFRESH = ('deSerialize',)


def run(fb, rep, tier):
    c1_notify(fb, rep)
    c2_queues(fb, rep)
    c3_cache(fb, rep)
    c4_symmetry(fb, rep)
    c5_accumulator(fb, rep)
    c6_invalidate_current(fb, rep)
    c7_classification_is_material(fb, rep)
    c8_odd_arithmetic(fb, rep)
    c9_accumulator_reuse(fb, rep)
    c10_pop_restores_or_invalidates(fb, rep)
    c11_material_score_antisymmetric(fb, rep)


# SIMD kernels are selected by compile definitions: the thorough tier re-runs the rules on these builds too
EXTRA_VARIANTS = [
    ('ssse3', ['-DUSE_SSSE3', '-mssse3']),
    ('avx2', ['-DUSE_SSSE3', '-DUSE_AVX2', '-mssse3', '-mavx2']),
    ('avx512', ['-DUSE_SSSE3', '-DUSE_AVX2', '-DUSE_AVX512', '-mssse3', '-mavx2', '-mavx512f', '-mavx512bw']),
]


def _strip(t):
    while isinstance(t, dict) and t.get('k') == 'cast':
        t = t.get('e')
    return t


# ----------------------------------------------------------------------------- .1

def c1_notify(fb, rep):
    clause = 'C07.1'
    writers = {}
    for m in fb.funcs.values():
        if not m.has_cfg or m.d.get('cls') != P:
            continue
        for b, i, e in m.events():
            if e.get('k') == 'asg' and (ap(e.get('l')) or '').startswith('this.squares['):
                writers.setdefault(m.sname.split('::')[-1], []).append((m, b, i, e))
    rep.floor(clause, 'functions writing the board array', len(writers), 7)
    for name in sorted(writers):
        m = writers[name][0][0]
        if name in NOTIFY:
            for (_, b, i, e) in writers[name]:
                # every path through the function either sees nnEval == null or calls nnEval->setPiece
                def notified(ev):
                    return ev is not None and ev.get('k') == 'call' and cname(ev) == 'NNEvaluator::setPiece'
                from ..flow import Flow

                def tr(ev, c, pos):
                    if notified(ev):
                        return ['notified']
                    return [c]

                def rf(cond, truth, c):
                    ce, pol = strip_not(cond)
                    if ap(ce) == 'this.nnEval' and (truth == pol) is False:
                        return ['noeval'] if c == 'open' else [c]
                    return [c]
                fl = Flow(m, tr, rf).run({'open'})
                ok = bool(fl.at_exit) and fl.at_exit <= {'notified', 'noeval'}
                rep.ob(clause, 'K2 must-pass-through', 'Position::%s notifies the connected evaluator on every path' % name, ok, R.site(m, e),
                       'exit states %s' % sorted(fl.at_exit), m.sname)
                break
            # the notification names the same square(s) the function writes
            sqs_written = {show(_idx(e.get('l'))) for (_, b, i, e) in writers[name]}
            sqs_notified = {show(_strip(ev['args'][0])) for _, _, ev in m.events() if ev.get('k') == 'call' and cname(ev) == 'NNEvaluator::setPiece' and ev.get('args')}
            rep.ob(clause, 'K10 sibling agreement', 'Position::%s notifies exactly the squares it writes' % name, sqs_written == sqs_notified and bool(sqs_written), m.where,
                   'written %s, notified %s' % (sorted(sqs_written), sorted(sqs_notified)), m.sname)
        elif name in TEMP:
            callers = set()
            for f in fb.funcs.values():
                if f.has_cfg and R.in_prog(f):
                    for b, i, e in f.events():
                        if e.get('k') == 'call' and cname(e) == P + '::' + name:
                            callers.add(f.sname.split('::')[-1])
            rep.ob(clause, 'K5 who-may-call', 'temporary board writer Position::%s is called only from %s' % (name, sorted(TEMP[name])), callers <= TEMP[name] and bool(callers),
                   m.where, 'callers: %s' % sorted(callers), m.sname)
        elif name in REFRESH or name == 'Position':
            refreshed = any(ev.get('k') == 'call' and cname(ev) in (P + '::forceFullEval', 'NNEvaluator::forceFullEval') for _, _, ev in m.events())
            is_default_ctor = name == 'Position' and not m.d.get('params')
            rep.ob(clause, 'K2 must-pass-through', 'Position::%s forces a full evaluator refresh (or no evaluator can be connected yet)' % name, refreshed or is_default_ctor,
                   m.where, '', m.sname)
        else:
            rep.ob(clause, 'K5 who-may-write', 'Position::%s writes the board: it must notify, refresh, or be a temporary variant' % name, False, m.where,
                   'new board writer without evaluator notification: the incremental network state goes stale', m.sname)
    # copy / assignment refresh
    n = 0
    for f in fb.funcs.values():
        if f.has_cfg and f.d.get('cls') == P and (f.sname.endswith('::operator=') or (f.d.get('ctor') and f.d.get('params'))):
            n += 1
            ok = any(e.get('k') == 'call' and cname(e) == P + '::forceFullEval' for _, _, e in f.events())
            rep.ob(clause, 'K2 must-pass-through', '%s forces a full refresh' % f.key.split('(')[0] + '(' + ', '.join(p['t'] for p in f.d.get('params', [])) + ')', ok, f.where, '', f.sname)
    rep.floor(clause, 'copy/move constructors and assignments of Position', n, 4)
    # temp movers' callers are paired: makeMoveB/unMakeMoveB only in MoveGen::isLegal; SEE moves only in Search::SEE
    for pair, owners in ((('makeMoveB', 'unMakeMoveB'), {'MoveGen::isLegal'}), (('makeSEEMove', 'unMakeSEEMove'), {'Search::SEE'})):
        for nm in pair:
            callers = {f.sname for f in fb.funcs.values() if f.has_cfg and R.in_engine(f) for _, _, e in f.events() if e.get('k') == 'call' and cname(e) == P + '::' + nm}
            rep.ob(clause, 'K5 who-may-call', 'Position::%s (no evaluator notification) is used only by %s' % (nm, sorted(owners)), callers <= owners and bool(callers), '',
                   'callers %s' % sorted(callers), '')
    mm = fb.find1(P + '::makeMove')
    um = fb.find1(P + '::unMakeMove')
    if rep.need(clause, mm, 'Position::makeMove') and rep.need(clause, um, 'Position::unMakeMove'):
        from ..flow import Flow

        def mk(callee):
            def tr(ev, c, pos):
                if ev.get('k') == 'call' and cname(ev) == callee:
                    return ['done']
                return [c]

            def rf(cond, truth, c):
                ce, pol = strip_not(cond)
                if ap(ce) == 'this.nnEval' and (truth == pol) is False and c == 'open':
                    return ['noeval']
                return [c]
            return tr, rf
        tr, rf = mk('NNEvaluator::pushState')
        fl = Flow(mm, tr, rf).run({'open'})
        rep.ob(clause, 'K2 must-pass-through', 'makeMove saves the evaluator state (pushState) before it moves pieces', fl.at_exit <= {'done', 'noeval'} and bool(fl.at_exit), mm.where,
               str(sorted(fl.at_exit)), mm.sname)
        first_write = None
        for b, i, e in mm.events():
            if e.get('k') == 'call' and cname(e) in (P + '::setPiece', P + '::clearPiece', P + '::movePieceNotPawn'):
                w = mm.path_avoiding((mm.entry, -1), lambda x, _e=e: x is _e, lambda x: x is not None and ((x.get('k') == 'call' and cname(x) == 'NNEvaluator::pushState')))
                if w is not None:
                    # allowed only through the nnEval == null branch
                    pass
        tr, rf = mk('NNEvaluator::popState')
        fl = Flow(um, tr, rf).run({'open'})
        rep.ob(clause, 'K2 must-pass-through', 'unMakeMove restores the evaluator state (popState)', fl.at_exit <= {'done', 'noeval'} and bool(fl.at_exit), um.where, str(sorted(fl.at_exit)), um.sname)
        # notifications are disabled while unMakeMove moves pieces back
        disable = [(b, i) for b, i, e in um.events() if e.get('k') == 'asg' and ap(e.get('l')) == 'this.nnEval' and (e.get('r') or {}).get('k') == 'null']
        restore = [(b, i) for b, i, e in um.events() if e.get('k') == 'asg' and ap(e.get('l')) == 'this.nnEval' and (e.get('r') or {}).get('k') != 'null']
        movers = [(b, i) for b, i, e in um.events() if e.get('k') == 'call' and cname(e) in (P + '::setPiece', P + '::clearPiece', P + '::movePieceNotPawn')]
        ok = len(disable) == 1 and len(restore) == 1 and all(um.pos_dominates(disable[0], m_) and not um.pos_dominates(restore[0], m_) for m_ in movers) and bool(movers)
        pops = [(b, i) for b, i, e in um.events() if e.get('k') == 'call' and cname(e) == 'NNEvaluator::popState']
        ok = ok and bool(pops) and all(um.pos_dominates(restore[0], p) for p in pops)
        rep.ob(clause, 'K2 must-precede', 'unMakeMove disconnects the evaluator while it moves pieces back and reconnects it before popState', ok, um.where, '', um.sname)


def _idx(l):
    if isinstance(l, dict) and l.get('k') == 'call' and l.get('args'):
        return _strip(l['args'][0])
    if isinstance(l, dict) and l.get('k') == 'idx':
        return _strip(l.get('i'))
    return l


# ----------------------------------------------------------------------------- .2

def c2_queues(fb, rep):
    clause = 'C07.2'
    sp = fb.find1('NNEvaluator::setPiece')
    rec = fb.record('NNEvaluator::FirstLayerState')
    if rep.need(clause, sp, 'NNEvaluator::setPiece') is None or rep.need(clause, rec, 'record NNEvaluator::FirstLayerState') is None:
        return
    maxincr = fb.const('NNEvaluator::maxIncr')
    ext = {}
    for f in rec['fields']:
        m = re.search(r'\[(\d+)\]', f['ct'])
        if m:
            ext[f['n']] = int(m.group(1))
    rep.ob(clause, 'K11 constant agreement', 'maxIncr equals the extent of the toAdd / toSub arrays', maxincr is not None and ext.get('toAdd') == maxincr and ext.get('toSub') == maxincr,
           '%s:%s' % (rec['file'], rec['line']), 'maxIncr %s, extents %s' % (maxincr, ext), '')
    n = 0
    for b, i, e in sp.events():
        if e.get('k') != 'asg':
            continue
        l = e.get('l')
        if not (isinstance(l, dict) and l.get('k') == 'idx'):
            continue
        arr = (ap(l.get('b')) or '').split('.')[-1]
        if arr not in ('toAdd', 'toSub'):
            continue
        n += 1
        ix = _strip(l.get('i'))
        lenf = (ap(ix.get('e')) or '').split('.')[-1] if isinstance(ix, dict) and ix.get('k') == 'incdec' else None
        g = G.guards_of(sp, set(sp.blocks), b)
        mx = fb.const('NNEvaluator::maxIncr')
        full = lambda v: (lambda t: ('v', v) if t.get('k') == 'mem' and (ap(t) or '').split('.')[-1] == lenf else None)
        ok = lenf == arr + 'Len' and mx is not None and G.excluded_under(sp, b, full(mx)) and G.excluded_under(sp, b, full(mx + 1)) and not G.excluded_under(sp, b, full(mx - 1))
        rep.ob(clause, 'K12 bounded write', 'NNEvaluator::setPiece: append to %s is guarded by %sLen < maxIncr' % (arr, arr), ok, R.site(sp, e), 'guards %s' % g, sp.sname)
    rep.floor(clause, 'queue appends in NNEvaluator::setPiece', n, 2)
    # overflow path forces a full refresh
    resets = [e for _, _, e in sp.events() if e.get('k') == 'call' and cname(e).endswith('Square::operator=') and (ap(e.get('recv')) or '').endswith('.kingSqComputed')]
    rep.ob(clause, 'K2 must-pass-through', 'NNEvaluator::setPiece: a full queue invalidates the accumulator (forces a full refresh)', len(resets) >= 2, sp.where, '%d invalidations' % len(resets), sp.sname)
    cw = fb.find1('NNEvaluator::computeL1WB')
    if rep.need(clause, cw, 'NNEvaluator::computeL1WB'):
        dims = None
        for b, i, e in cw.events():
            if e.get('k') == 'decl':
                for v in e.get('vars', []):
                    if len(re.findall(r'\[(\d+)\]', v.get('ct') or '')) == 2 and (v.get('ct') or '').startswith('int'):
                        dims = [int(x) for x in re.findall(r'\[(\d+)\]', v.get('ct') or '')]
        rep.ob(clause, 'K12 bounded write', 'full-refresh feature buffer holds every non-king man of a legal position (>= 30)', bool(dims) and dims == [2, 32] or (bool(dims) and dims[-1] >= 30),
               cw.where, 'dimensions %s' % dims, cw.sname)
        # kings are excluded from the refresh loop
        ext_ids = {(_strip(e['args'][0]) or {}).get('id') for _, _, e in cw.events() if e.get('k') == 'call' and cname(e) == 'BitBoard::extractSquare' and e.get('args')}
        excl = any(e.get('k') == 'decl' and any(v.get('id') in ext_ids and 'WKING' in show(v.get('init'), 400) and 'BKING' in show(v.get('init'), 400) and '~' in show(v.get('init'), 400)
                                                for v in e.get('vars', [])) for _, _, e in cw.events())
        rep.ob(clause, 'K12 bounded write', 'the refresh loop excludes both kings (so at most 30 features per view)', excl, cw.where, '', cw.sname)
    ps = fb.find1('NNEvaluator::pushState')
    if rep.need(clause, ps, 'NNEvaluator::pushState'):
        ms = fb.const('NNEvaluator::maxStackSize')
        msd = fb.const('SearchConst::MAX_SEARCH_DEPTH')
        rep.ob(clause, 'K11 constant agreement', 'evaluator state stack is sized for the deepest search line (2 x MAX_SEARCH_DEPTH)', ms is not None and msd is not None and ms >= 2 * msd,
               ps.where, 'maxStackSize %s, MAX_SEARCH_DEPTH %s' % (ms, msd), ps.sname)
        pp = fb.find1('NNEvaluator::popState')
        if pp is not None:
            # with the level at 0, some guard of every decrement is false (the conditions are evaluated with stackTop = 0,
            # so `> 0`, `!= 0`, `>= 1` and an early return under `== 0` are all recognised)
            def at_bottom(t):
                t = _strip(t)
                if not isinstance(t, dict):
                    return None
                if 'cv' in t:
                    return t['cv']
                if t.get('k') == 'mem' and (ap(t) or '').endswith('.stackTop'):
                    return 0
                if t.get('k') == 'un' and t.get('op') == '!':
                    v = at_bottom(t.get('e'))
                    return None if v is None else (not v)
                if t.get('k') == 'bin':
                    a, b_ = at_bottom(t.get('l')), at_bottom(t.get('r'))
                    if a is None or b_ is None:
                        return None
                    return {'>': a > b_, '>=': a >= b_, '<': a < b_, '<=': a <= b_, '==': a == b_, '!=': a != b_, '-': a - b_, '+': a + b_}.get(t.get('op'))
                return None
            decs = [(b, e) for b, i, e in pp.events() if e.get('k') == 'incdec' and e.get('op') == '--' and (ap(e.get('e')) or '').endswith('.stackTop')]
            g_ok = bool(decs) and all(any(at_bottom(c) is not None and bool(at_bottom(c)) != side for c, side in G.guard_trees(pp, set(pp.blocks), b)) for b, e in decs)
            rep.ob(clause, 'K12 bounded write', 'popState never moves below the bottom of the stack (underflow forces a full refresh)', g_ok, pp.where, '', pp.sname)


# ----------------------------------------------------------------------------- .3

_WIDE = ('int', 'unsigned int', 'long', 'unsigned long', 'long long', 'unsigned long long', 'S64', 'U64', 'S32', 'U32')


def _lossy_steps(tree, inp):
    """operators between the field `inp` and the root of `tree` that are not injective in it (empty list = injective)"""
    out = []

    def has(t):
        return any(isinstance(n, dict) and n.get('k') == 'mem' and (n.get('f') or '').endswith('::' + inp) for n in walk(t))

    def go(t):
        if not isinstance(t, dict) or not has(t):
            return
        k = t.get('k')
        if k == 'mem':
            return
        if k in ('cast', 'paren'):
            if k == 'cast' and (t.get('t') or '').replace('const ', '') not in _WIDE:
                out.append('conversion to ' + str(t.get('t')))
            return go(t.get('e'))
        if k == 'un' and t.get('op') in ('-', '~', '+'):
            return go(t.get('e'))
        if k == 'bin':
            l, r = t.get('l'), t.get('r')
            a, b = (l, r) if has(l) else (r, l)
            if has(l) and has(r):
                out.append('`%s` of two terms that both depend on it' % t.get('op'))
                return
            c = _strip(b)
            const = isinstance(c, dict) and 'cv' in c
            if t.get('op') == '*' and const and c['cv'] % 2 == 1:
                return go(a)
            if t.get('op') in ('^', '+') and const:
                return go(a)
            if t.get('op') == '-' and const:
                return go(a)
            out.append('`%s`' % show(t, 60))
            return
        out.append('`%s`' % show(t, 60))
    go(tree)
    return out


def _halfmove_buckets_evaluated(fb, rep, clause, f, hh, vals):
    """The same agreement judged by evaluation (added after seed C07k, which shifted the evaluation's bucket by one clock and
    kept every constant the older obligation looks at): for every pair of half-move clocks 0..150 that Position::historyHash
    maps to the same key, the index evalPos uses into halfMoveFactor selects the same parameter (or the same fixed value)."""
    from ..peval import Evaluator, Unknown
    if len(vals) != 2 or len(vals[0]) != 10 or len(vals[1]) != 10:
        rep.broken(clause, 'halfMoveFactor: table and parameter rows not found')
        return
    idx_trees = []
    for b, i, e in f.events():
        if e.get('k') == 'call' and e.get('op') == '[]' and (ap(e.get('recv')) or '') == '::halfMoveFactor' and e.get('args'):
            idx_trees.append((b, i, e, e['args'][0]))
    rep.floor(clause, 'reads of halfMoveFactor in evalPos', len(idx_trees), 1)
    decls = {}
    for b, i, e in f.events():
        if e.get('k') == 'decl':
            for v in e.get('vars', []):
                decls.setdefault(v.get('id'), []).append(v.get('init'))
    written = {e['l'].get('id') for _, _, e in f.events() if e.get('k') == 'asg' and isinstance(e.get('l'), dict) and e['l'].get('k') == 'var'}

    def cls(ix):
        return ('param', vals[1][ix]) if vals[1][ix] else ('fixed', vals[0][ix])

    def key_of(c, np):
        ev = Evaluator(fb, stubs={'Position::nPieces': lambda e_, t_, env_, d_: np})
        env = {'this.halfMoveClock': c, 'this.hashKey': 0, ('g', 'Position::moveCntKeys'): [((k + 1) * 0x9E3779B97F4A7C15) & 0xFFFFFFFFFFFFFFFF for k in range(101)],   # distinct, non-zero, 64 bits
               ('g', 'TBProbeData::maxPieces'): 6}
        return ev.run(hh, env)['ret']

    for b, i, e, tree in idx_trees:
        def inline(x, depth=0):
            # single-definition locals that are never assigned again stand for their initialiser
            if isinstance(x, list):
                return [inline(y, depth) for y in x]
            if not isinstance(x, dict):
                return x
            if x.get('k') == 'var' and x.get('vk') == 'local' and len(decls.get(x.get('id'), [])) == 1 and x.get('id') not in written and \
                    decls[x['id']][0] is not None and depth < 6:
                return inline(decls[x['id']][0], depth + 1)
            return {k2: inline(v2, depth) for k2, v2 in x.items()}
        t = inline(tree)
        bad = []
        try:
            for np in (32, 5):
                st = {}
                ev = Evaluator(fb, stubs={'Position::getHalfMoveClock': lambda e_, t_, env_, d_: st['c']})
                seen = {}
                for c in range(0, 151):
                    st['c'] = c
                    ix = ev.eval(t, {})
                    if not (isinstance(ix, int) and 0 <= ix < 10):
                        bad.append('clock %d indexes halfMoveFactor[%s]' % (c, ix))
                        break
                    k = key_of(c, np)
                    if k in seen and cls(seen[k][1]) != cls(ix):
                        bad.append('clocks %d and %d share a history key (%d men) but scale by halfMoveFactor[%d] and [%d]' % (seen[k][0], c, np, seen[k][1], ix))
                        break
                    seen.setdefault(k, (c, ix))
        except (Unknown, KeyError, TypeError, IndexError) as ex:
            rep.broken(clause, 'half-move bucket evaluation left its fragment: %r' % (ex,))
            return
        rep.ob(clause, 'K11 finite evaluation', 'clocks 0..150: two clocks under one history key select the same halfMoveFactor parameter', not bad, R.site(f, e),
               '; '.join(bad), f.sname)


def c3_cache(fb, rep, clause='C07.3'):
    evs = [f for f in fb.find('Evaluate::evalPos') if f.d.get('targs')]
    f = next((x for x in evs if x.d.get('targs') == ['false']), None)
    if rep.need(clause, f, 'Evaluate::evalPos<false>') is None:
        return
    # inputs: fields of Evaluate read in evalPos (and the helpers it calls on `this`) other than position-derived state
    pos_derived = {'posP', 'nnEval', 'mhd', 'evalHash', 'materialHash', 'et'}
    inputs = {}
    todo = [f]
    seen = set()
    while todo:
        g = todo.pop()
        if g.key in seen:
            continue
        seen.add(g.key)
        for b, i, e in g.events():
            if e.get('k') == 'acc' and isinstance(e.get('e'), dict) and e['e'].get('k') == 'mem' and (e['e'].get('f') or '').startswith('Evaluate::') and \
                    isinstance(e['e'].get('b'), dict) and e['e']['b'].get('k') == 'this':
                fl = e['e']['f'].split('::')[-1]
                if fl not in pos_derived:
                    inputs.setdefault(fl, []).append((g, b, i, e))
            if e.get('k') == 'call' and e.get('recv') is not None and e['recv'].get('k') == 'this' and e.get('f') in fb.funcs and fb.funcs[e['f']].d.get('cls') == 'Evaluate':
                todo.append(fb.funcs[e['f']])
    rep.extra['evalPos_non_position_inputs'] = sorted(inputs)
    rep.floor(clause, 'non-position inputs of evalPos', len(inputs), 1)
    # key definitions
    keydefs = [(b, i, e) for b, i, e in f.events() if (e.get('k') == 'asg' and isinstance(e.get('l'), dict) and e['l'].get('n') == 'key') or
               (e.get('k') == 'decl' and any(v.get('n') == 'key' for v in e.get('vars', [])))]
    base_ok = any(e.get('k') == 'decl' and any(v.get('n') == 'key' and 'historyHash' in show(v.get('init')) for v in e.get('vars', [])) for _, _, e in keydefs)
    rep.ob(clause, 'K16 cache key', 'the cache key starts from Position::historyHash()', base_ok, f.where, '', f.sname)
    lookup = [(b, i, e) for b, i, e in f.events() if e.get('k') == 'call' and cname(e) == 'Evaluate::getEvalHashEntry']
    for inp in sorted(inputs):
        # where does the input influence the score?  guards of the statements that read it (outside the key computation)
        score_guards = []
        for (g, b, i, e) in inputs[inp]:
            if g is not f:
                score_guards.append(None)
                continue
            # reads inside a key definition do not count
            in_keydef = any(kb == b and any(n is e['e'] or (n.get('k') == 'mem' and n.get('f') == e['e'].get('f')) for n in walk(ke)) for kb, ki, ke in keydefs)
            # reads that are branch conditions
            gs = G.guards_of(f, set(f.blocks), b)
            score_guards.append((in_keydef, gs, e))
        mixes = [(b, i, e) for b, i, e in keydefs if e.get('k') == 'asg' and any(n.get('k') == 'mem' and (n.get('f') or '').endswith('::' + inp) for n in walk(e.get('r')))]
        ok_mix = bool(mixes)
        detail = ''
        if ok_mix:
            mb, mi_, me = mixes[0]
            mg = [x for x in G.guards_of(f, set(f.blocks), mb) if 'print' not in x and 'useHashTable' not in x]
            # admissible guards: none, or exactly `input != 0`
            ok_guard = mg == [] or mg == ['(%s != 0)' % inp] or mg == [inp]
            # the mixing precedes the lookup and the store uses the same key
            before = all(f.pos_dominates((mb, mi_), (lb, li)) or _guard_dom(f, mb, lb) for lb, li, le in lookup)
            ok_mix = ok_guard and before and me.get('op') in ('^=', '+=')
            detail = 'mixing guard %s; op %s' % (mg, me.get('op'))
            # injective in the input: multiplication by an odd constant
            odd = any(n.get('k') == 'bin' and n.get('op') == '*' and any(('cv' in (_strip(s) or {})) and (_strip(s)['cv'] % 2 == 1) for s in (n.get('l'), n.get('r'))) for n in walk(me.get('r')))
            ok_mix = ok_mix and odd
            # ... and nothing on the way from the input to the key term loses information: only widening / same-width
            # integer conversions, multiplication by an odd constant, xor / add / subtract of a constant, negation
            lossy = _lossy_steps(me.get('r'), inp)
            if lossy:
                ok_mix = False
                detail += '; not injective in %s: %s' % (inp, lossy[:3])
        rep.ob(clause, 'K16 cache key', 'evalPos: %s (not a function of the position) is mixed into the cache key whenever it can change the score' % inp, ok_mix,
               R.site(f, mixes[0][2]) if mixes else f.where, detail or 'no key term depends on %s although the cached score does' % inp, f.sname)
    # store uses the key that was looked up
    stores = [(b, i, e) for b, i, e in f.events() if e.get('k') == 'asg' and (ap(e.get('l')) or '').split('#')[0] == 'ehd' and (ap(e.get('l')) or '').endswith('.data')]
    oks = bool(stores) and all(any(n.get('k') == 'var' and n.get('n') == 'key' for n in walk(e.get('r'))) for b, i, e in stores)
    rep.ob(clause, 'K16 cache key', 'evalPos stores under the key it looked up', oks, f.where, '', f.sname)
    # no write to `key` between lookup and store
    for lb, li, le in lookup:
        w = f.path_avoiding((lb, li), lambda ev: ev is not None and ev.get('k') == 'asg' and isinstance(ev.get('l'), dict) and ev['l'].get('n') == 'key', R.never)
        rep.ob(clause, 'K16 cache key', 'the key is not modified between lookup and store', w is None, R.site(f, le), '', f.sname)
    # half-move buckets
    hh = fb.find1('Position::historyHash')
    tbl = fb.globals.get('halfMoveFactor')
    if rep.need(clause, hh, 'Position::historyHash') and rep.need(clause, tbl, 'global halfMoveFactor'):
        lists = [n for n in walk(tbl.get('init')) if n.get('k') == 'init' and n.get('n') == 10]
        vals = [[(_strip(x) or {}).get('cv') for x in l.get('elems', [])] for l in lists]
        # (an older obligation compared the thresholds, divisors and caps of the two functions as constants; it reported a
        # behaviour-preserving rewording of the index - variant halfmove_bucket_via_locals - and is subsumed by the evaluation)
        _halfmove_buckets_evaluated(fb, rep, clause, f, hh, vals)
    # material hash key arithmetic
    ms = fb.find1('Evaluate::materialScore')
    if rep.need(clause, ms, 'Evaluate::materialScore'):
        okt = True
        detail = []
        idx_ids = set()
        for b, i, e in ms.events():
            for n in walk(e):
                if (n.get('k') == 'call' and n.get('op') == '[]' and (ap(n.get('recv')) or '') == 'this.materialHash') or (n.get('k') == 'idx' and (ap(n.get('b')) or '') == 'this.materialHash'):
                    for x in walk(n.get('args', [{}])[0] if n.get('k') == 'call' else n.get('i')):
                        if x.get('k') == 'var' and x.get('vk') == 'local':
                            idx_ids.add(x['id'])
        for b, i, e in ms.events():
            if e.get('k') == 'decl':
                for v in e.get('vars', []):
                    if v.get('id') in idx_ids:
                        for n in walk(v.get('init')):
                            if n.get('k') == 'bin' and n.get('op') in ('*', '+'):
                                detail.append((n['op'], n.get('t')))
                                if not (n.get('t') or '').startswith('unsigned'):
                                    okt = False
        rep.ob(clause, 'K12 range', 'materialScore computes the material-hash slot key in unsigned arithmetic', okt and bool(detail), ms.where, str(detail), ms.sname)
        id_ids = {v['id'] for _, _, e in ms.events() if e.get('k') == 'decl' for v in e.get('vars', [])
                  if any(n.get('k') == 'call' and cname(n) == 'Position::materialId' for n in walk(v.get('init') or {}))}

        def full_id_cmp(c):
            for n in walk(c or {}):
                if n.get('k') == 'bin' and n.get('op') in ('!=', '=='):
                    sides = [_strip(n.get('l')), _strip(n.get('r'))]
                    if any(isinstance(x, dict) and x.get('k') == 'mem' and x.get('f', '').endswith('MaterialHashData::id') for x in sides) and \
                            any(isinstance(x, dict) and x.get('k') == 'var' and x.get('id') in id_ids for x in sides):
                        return True
            return False
        cmp_ok = any(full_id_cmp((blk.get('term') or {}).get('cond')) for blk in ms.blocks.values())
        rep.ob(clause, 'K16 cache key', 'the material cache compares the full material id before it trusts an entry', cmp_ok, ms.where, '', ms.sname)


def _guard_dom(f, mb, lb):
    """The (guarded) mixing block lies between the key declaration and the lookup: every path to the lookup that can
    reach the mixing passes it before the lookup."""
    return not G._reaches(f, lb, mb)


# ----------------------------------------------------------------------------- .4

def mirror_id(v):
    v &= 0xffffffff
    return ((v >> 16) | ((v & 0xffff) << 16)) & 0xffffffff


SIGMA_NAMES = [('wk', 'bk'), ('wq', 'bq'), ('wr', 'br'), ('wb', 'bb'), ('wn', 'bn'), ('wp', 'bp')]


def c4_symmetry(fb, rep):
    clause = 'C07.4'
    fs = [f for f in fb.find('EndGameEval::endGameEval') if f.d.get('targs')]
    rep.floor(clause, 'endGameEval instantiations', len(fs), 1)
    for f in fs[:1] if len(fs) else []:
        pass
    for f in fs:
        tag = f.name
        sw = [bid for bid, blk in f.blocks.items() if (blk.get('term') or {}).get('c') == 'SwitchStmt' and 'materialId' in show((blk['term'].get('cond') or {}))]
        if not sw:
            rep.broken(clause, 'material switch not found in ' + tag)
            continue
        labels = {}
        for s in f.blocks[sw[0]]['succ']:
            lb = f.blocks[s].get('label')
            if lb and lb.get('k') == 'case' and 'v' in lb:
                labels[lb['v'] & 0xffffffff] = s
        # fall-through labels: blocks with a case label that are reached from another case block
        for bid, blk in f.blocks.items():
            lb = blk.get('label')
            if lb and lb.get('k') == 'case' and 'v' in lb:
                labels.setdefault(lb['v'] & 0xffffffff, bid)
        rep.floor(clause, 'material cases in ' + tag, len(labels), 25)
        missing = sorted(v for v in labels if mirror_id(v) not in labels)
        rep.ob(clause, 'K10 colour symmetry', '%s: the set of material cases is closed under MatId::mirror' % tag, not missing, f.where,
               'cases without a mirrored case: %s' % [hex(v) for v in missing], f.sname)
        if not f.d.get('targs') == ['true']:
            continue
        # helper-call pairs
        covered = 0
        inline = []
        done = set()
        for v, blk_id in sorted(labels.items()):
            mv = mirror_id(v)
            if mv == v or mv not in labels or v in done:
                continue
            white, black = (v, mv) if (v & 0xffff) >= (v >> 16) else (mv, v)
            done.add(v)
            done.add(mv)
            cw = _case_call(fb, f, labels[white])
            cb = _case_call(fb, f, labels[black])
            if cw is None or cb is None:
                inline.append(hex(white))
                continue
            covered += 1
            if cw[1] and not cb[1]:
                cw, cb = cb, cw         # the non-negated call is the white-to-win orientation
            ok, why = _sigma_image(fb, f, cw, cb)
            rep.ob(clause, 'K10 colour symmetry', '%s: case %s and its mirror call %s as sigma-images' % (tag, hex(white), cname(cw[0]).split('::')[-1]), ok,
                   R.site(f, cb[0]), why, f.sname)
        rep.floor(clause, 'mirrored helper-call pairs', covered, 8)
        rep.extra['endgame_cases_not_covered_by_sigma_check'] = inline


def _case_call(fb, f, start):
    """(call, negated, local-def map) when the case region's value flow ends in `return [-]helper(args)`."""
    blocks = _case_region(f, start)
    defs = {}
    call = None
    neg = False
    for b in sorted(blocks, reverse=True):
        for e in f.blocks[b]['ev']:
            if e.get('k') == 'decl':
                for v in e.get('vars', []):
                    if v.get('init') is not None:
                        defs[v['id']] = v['init']
            if e.get('k') == 'ret' and isinstance(e.get('e'), dict):
                r = _strip(e['e'])
                n = False
                if isinstance(r, dict) and r.get('k') == 'un' and r.get('op') == '-':
                    n = True
                    r = _strip(r.get('e'))
                if isinstance(r, dict) and r.get('k') == 'call' and cname(r).startswith('EndGameEval::') and cname(r).endswith('Eval'):
                    if call is not None:
                        return None
                    call, neg = r, n
    if call is None:
        return None
    return call, neg, defs


def _case_region(f, start):
    """Blocks of one case: from the case label until the next case label / switch exit."""
    seen = set()
    st = [start]
    while st:
        b = st.pop()
        if b in seen or b not in f.blocks:
            continue
        lb = f.blocks[b].get('label')
        if b != start and lb and lb.get('k') in ('case', 'default'):
            continue
        seen.add(b)
        if len(seen) > 40:
            break
        st.extend(f.blocks[b]['succ'])
    return seen


def _inline(t, defs, depth=0):
    """Replace single-definition locals by their initialisers."""
    if not isinstance(t, dict) or depth > 6:
        return t
    if t.get('k') == 'var' and t.get('id') in defs and t.get('vk') == 'local':
        return _inline(defs[t['id']], defs, depth + 1)
    out = {}
    for k, v in t.items():
        if isinstance(v, dict):
            out[k] = _inline(v, defs, depth + 1)
        elif isinstance(v, list):
            out[k] = [_inline(x, defs, depth + 1) if isinstance(x, dict) else x for x in v]
        else:
            out[k] = v
    return out


def _render(t):
    s = show(t, 600)
    s = s.replace('Piece::', '')
    return s


def _swap_colours(s):
    s = G.colour_swap(s)
    s = re.sub(r'getKingSq\((0|1|true|false)\)', lambda m: 'getKingSq(%s)' % {'0': '1', '1': '0', 'true': 'false', 'false': 'true'}[m.group(1)], s)
    return s


def _sigma_image(fb, f, cw, cb):
    (wcall, wneg, wdefs), (bcall, bneg, bdefs) = cw, cb
    if cname(wcall) != cname(bcall):
        return False, 'different helpers: %s vs %s' % (cname(wcall), cname(bcall))
    if wneg or not bneg:
        return False, 'the white case must return +helper(...), the black case -helper(...)'
    wa, ba = wcall.get('args', []), bcall.get('args', [])
    if len(wa) != len(ba):
        return False, 'different argument counts'
    callee = fb.funcs.get(wcall.get('f'))
    ptypes = [p.get('t') for p in callee.d.get('params', [])] if callee is not None else [None] * len(wa)
    for k, (x, y) in enumerate(zip(wa, ba)):
        xs = _swap_colours(_render(_inline(_strip(x), wdefs)))
        ys = _render(_inline(_strip(y), bdefs))
        pt = (ptypes[k] or '').replace('const ', '')
        if pt.startswith('Square'):
            want = xs + '.rot180()'
        elif pt == 'bool' and 'isWhiteMove' in xs:
            want = '!' + xs
        elif pt == 'int' and xs.strip() == 'score':
            want = '-score'
        else:
            want = xs
        if _norm(want) != _norm(ys):
            return False, 'argument %d: expected the sigma-image %s of the white argument, found %s' % (k + 1, want, ys)
    return True, '%d arguments' % len(wa)


def _norm(s):
    return s.replace(' ', '').replace('(', '').replace(')', '')


# --------------------------------------------------------------------------- .5 accumulator arithmetic

WRAP_ADD = {'_mm_add_epi16', '_mm256_add_epi16', '_mm512_add_epi16', 'vaddq_s16'}
WRAP_SUB = {'_mm_sub_epi16', '_mm256_sub_epi16', '_mm512_sub_epi16', 'vsubq_s16'}
MOVES = {'_mm_load_si128', '_mm256_load_si256', '_mm512_load_si512', 'vld1q_s16', '_mm_store_si128', '_mm256_store_si256', '_mm512_store_si512', 'vst1q_s16',
         '_mm_loadu_si128', '_mm256_loadu_si256', '_mm512_loadu_si512', '_mm_storeu_si128', '_mm256_storeu_si256', '_mm512_storeu_si512'}
ELEM = {'Vector::operator()', 'Matrix::operator()'}


def c5_accumulator(fb, rep):
    """K10 group structure of the first-layer accumulator: incremental updates (add the rows of the pieces that
    appeared, subtract the rows of those that vanished) agree with a from-scratch sum, in every order and after
    take-backs, exactly when the update is an action of an abelian group - wrap-around 16-bit addition.  So in
    every build variant the only operations on the data path of addSubWeights are element / vector loads and
    stores and *wrapping* 16-bit add and subtract: no clamping, no saturating intrinsic (they are not
    invertible and not associative), and the from-scratch path goes through the same routine."""
    clause = 'C07.5'
    fs = [f for f in fb.funcs.values() if f.has_cfg and f.sname == 'addSubWeights' and f.d.get('targs')]
    rep.floor(clause, 'instantiations of addSubWeights', len(fs), 1)
    for f in sorted(fs, key=lambda x: x.key):
        tag = 'addSubWeights<%s>' % ','.join(f.d['targs'])
        acc = f.d['params'][0]['id']
        wgt = f.d['params'][1]['id']
        other = []
        n_add = n_sub = 0
        bad_upd = []
        for b, i, e in f.events():
            if e.get('k') == 'call':
                n = cname(e)
                if n in WRAP_ADD:
                    n_add += 1
                elif n in WRAP_SUB:
                    n_sub += 1
                elif n in MOVES or n in ELEM:
                    pass
                else:
                    other.append((n, e.get('ln')))
            elif e.get('k') == 'asg':
                l = _strip(e.get('l'))
                if isinstance(l, dict) and l.get('k') == 'call' and cname(l) == 'Vector::operator()' and isinstance(_strip(l.get('recv')), dict) and _strip(l['recv']).get('id') == acc:
                    r = _strip(e.get('r'))
                    is_w = isinstance(r, dict) and r.get('k') == 'call' and cname(r) == 'Matrix::operator()' and _strip(r.get('recv')).get('id') == wgt
                    if e.get('op') == '+=' and is_w:
                        n_add += 1
                    elif e.get('op') == '-=' and is_w:
                        n_sub += 1
                    elif e.get('op') == '=' and isinstance(r, dict) and r.get('k') == 'bin' and r.get('op') in ('+', '-') and \
                            all(n_.get('k') != 'call' or cname(n_) in ELEM for n_ in walk(r)):
                        if r['op'] == '+':
                            n_add += 1
                        else:
                            n_sub += 1
                    else:
                        bad_upd.append((show(e, 120), e.get('ln')))
        rep.ob(clause, 'K10 group structure', '%s: the accumulator is only loaded, stored, and combined with weight rows by wrapping 16-bit add / subtract' % tag,
               not other and not bad_upd, f.where, ('other operations on the data path: %s; ' % other if other else '') + ('non-wrapping updates: %s' % bad_upd if bad_upd else '') or
               '%d wrapping additions, %d wrapping subtractions' % (n_add, n_sub), f.sname)
        rep.ob(clause, 'K10 inverse pair', '%s: additions and subtractions come in matching numbers (every add kernel has its subtract twin)' % tag, n_add == n_sub and n_add > 0, f.where,
               '%d / %d' % (n_add, n_sub), f.sname)
    # incremental and from-scratch computation share the routine
    cw = [f for f in fb.funcs.values() if f.has_cfg and f.sname == 'NNEvaluator::computeL1WB']
    rep.floor(clause, 'NNEvaluator::computeL1WB', len(cw), 1)
    for f in cw:
        calls = [e for _, _, e in f.events() if e.get('k') == 'call' and fb.funcs.get(e.get('f')) is not None and fb.funcs[e['f']].sname == 'addSubWeights']
        full = [e for e in calls if (_strip(e['args'][5]) or {}).get('cv') == 0]
        rep.ob(clause, 'K10 sibling agreement', 'computeL1WB: the incremental update and the full refresh both go through addSubWeights (the refresh with an empty subtract list)',
               len(calls) >= 2 and len(full) >= 1 and len(full) < len(calls), f.where, '%d calls, %d with a constant-empty subtract list' % (len(calls), len(full)), f.sname)


# --------------------------------------------------------------------------- .6 invalidation addresses the state in use

def c6_invalidate_current(fb, rep):
    """K2 order: the first-layer state is addressed through the stack index (getLinState reads stackTop).  A
    method that invalidates "the current state" and also moves the index must move the index first: an
    invalidation followed by an index write clears an entry that is no longer current and leaves the entry that
    will be used with stale accumulators and a king square that still looks computed."""
    clause = 'C07.6'
    n = 0
    for f in sorted(fb.funcs.values(), key=lambda x: x.key):
        if not f.has_cfg or strip_t(f.d.get('cls') or '') != 'NNEvaluator':
            continue
        clears = [(b, i, e) for b, i, e in f.events() if e.get('k') == 'call' and cname(e).endswith('FirstLayerState::clear') and
                  any(n_.get('k') == 'call' and cname(n_) == 'NNEvaluator::getLinState' for n_ in walk(e.get('recv') or {}))]
        if not clears:
            continue

        def writes_index(ev):
            if ev is None:
                return False
            tgt = ev.get('l') if ev.get('k') == 'asg' else ev.get('e') if ev.get('k') == 'incdec' else None
            return tgt is not None and (ap(tgt) or '').endswith('stack.stackTop')
        for b, i, e in clears:
            n += 1
            w = f.path_avoiding((b, i), writes_index, R.never)
            rep.ob(clause, 'K2 order', '%s: the state it invalidates is still the current one when it returns (no stack-index write after the invalidation)' % f.sname, w is None,
                   R.site(f, e), '' if w is None else 'the stack index is written afterwards at %s' % (w[-1],), f.sname)
    rep.floor(clause, 'invalidations of the current first-layer state', n, 1)


def strip_t(s):
    from ..core import strip_targs
    return strip_targs(s)


# ----------------------------------------------------------------------------- .7

MATERIAL_GETTERS = ('Position::materialId', 'Position::wMtrl', 'Position::bMtrl', 'Position::wMtrlPawns', 'Position::bMtrlPawns')


def _strip77(t):
    while isinstance(t, dict) and (t.get('k') == 'cast' or t.get('k') == 'paren'):
        t = t.get('e')
    return t


def c7_classification_is_material(fb, rep, clause='C07.7'):
    """Cache-key completeness of the material hash: Evaluate::computeMaterialScore stores the result of the classification
    pass `endGameEval<false>` under the material signature alone, and evalPos uses that cached flag for every later position
    with the same signature.  So everything the classification pass branches on must be a function of the material: the
    signature, the material sums, piece counts (bitCount of a piece set) and presence tests of piece sets - never squares,
    masks, the side to move or the running score."""
    cands = [f for f in fb.funcs.values() if f.has_cfg and f.name.replace(' ', '') == 'EndGameEval::endGameEval<false>']
    if rep.need(clause, cands, 'EndGameEval::endGameEval<false>') is None:
        return
    f = cands[0]
    # the classification result is cached under the material signature: the call site stores it into the material hash entry
    cs = fb.find1('Evaluate::computeMaterialScore')
    stored = False
    if cs is not None:
        for _, _, e in cs.events():
            if e.get('k') == 'asg' and any(n.get('k') == 'call' and cname(n).startswith('EndGameEval::endGameEval') for n in walk(e.get('r') or {})) and \
                    any(n.get('k') == 'mem' for n in walk(e.get('l') or {})):
                stored = True
    rep.ob(clause, 'K2 premise', 'the classification result is stored in the material hash entry by computeMaterialScore', stored, cs.where if cs else '', '', 'Evaluate::computeMaterialScore')
    params = f.d.get('params', [])
    pos_id = params[0].get('id') if params else None
    decls = {}
    assigned = set()
    for _, _, e in f.events():
        if e.get('k') == 'decl':
            for v in e.get('vars', []):
                decls[v['id']] = v
        for n in walk(e):
            if n.get('k') in ('asg', 'incdec'):
                tgt = _strip77(n.get('l') if n.get('k') == 'asg' else n.get('e'))
                if isinstance(tgt, dict) and tgt.get('k') == 'var':
                    assigned.add(tgt.get('id'))

    def piece_set(t):
        t = _strip77(t)
        return isinstance(t, dict) and t.get('k') == 'call' and cname(t) == 'Position::pieceTypeBB' and (_strip77(t.get('recv')) or {}).get('id') == pos_id and \
            all(isinstance(_strip77(a), dict) and 'cv' in _strip77(a) for a in t.get('args', []))

    def count_atom(t):
        """(piece-set text, mask) if t is bitCount(pieceSet & constant mask)"""
        t = _strip77(t)
        if isinstance(t, dict) and t.get('k') == 'call' and cname(t) == 'BitBoard::bitCount' and len(t.get('args', [])) == 1:
            a = _strip77(t['args'][0])
            if isinstance(a, dict) and a.get('k') == 'bin' and a.get('op') == '&':
                for x, y in ((a.get('l'), a.get('r')), (a.get('r'), a.get('l'))):
                    y = _strip77(y)
                    if piece_set(x) and isinstance(y, dict) and 'cv' in y:
                        return (show(_strip77(x), 200), int(y['cv']) & ((1 << 64) - 1))
        return None

    def lin(t, sign, depth):
        """linear form {atom: coefficient} of t over square-restricted piece counts; the material part is dropped;
        None if t contains anything else that is not material"""
        t = _strip77(t)
        if not isinstance(t, dict) or depth > 8:
            return None
        a = count_atom(t)
        if a is not None:
            return {a: sign}
        if t.get('k') == 'var' and t.get('id') in decls and t.get('id') not in assigned and decls[t['id']].get('init') is not None and 'cv' not in t:
            return lin(decls[t['id']]['init'], sign, depth + 1)
        if t.get('k') == 'bin' and t.get('op') in ('+', '-'):
            l = lin(t.get('l'), sign, depth + 1)
            r = lin(t.get('r'), sign if t['op'] == '+' else -sign, depth + 1)
            if l is None or r is None:
                return None
            out = dict(l)
            for a_, c_ in r.items():
                out[a_] = out.get(a_, 0) + c_
            return out
        return {} if material(t, depth + 1) is None else None

    def partitioned(tot):
        """every piece set occurs with one coefficient over masks that partition the board (then the sum is a piece count)"""
        groups = {}
        for (ps, mask), c in tot.items():
            if c != 0:
                groups.setdefault(ps, []).append((mask, c))
        for ps, lst in groups.items():
            if len({c for _, c in lst}) != 1:
                return False
            acc = 0
            for m_, _ in lst:
                if acc & m_:
                    return False
                acc |= m_
            if acc != (1 << 64) - 1:
                return False
        return True

    def material(t, depth=0):
        """None if t is a function of the material, else the first offending sub-expression"""
        t = _strip77(t)
        if not isinstance(t, dict):
            return None
        k = t.get('k')
        if 'cv' in t and k != 'var':
            return None
        if k == 'var':
            if 'cv' in t or t.get('vk') in ('enum', 'tparam', 'global') or t.get('q'):
                return None          # constants, enumerators, template parameters, global evaluation parameters: not position state
            d = decls.get(t.get('id'))
            if d is not None and d.get('init') is not None and t.get('id') not in assigned and depth < 6:
                return material(d['init'], depth + 1)
            return t
        if k == 'call':
            n = cname(t)
            if n in MATERIAL_GETTERS and (_strip77(t.get('recv')) or {}).get('id') == pos_id:
                return None
            if n == 'BitBoard::bitCount' and len(t.get('args', [])) == 1 and piece_set(t['args'][0]):
                return None
            if piece_set(t):
                return None          # only reached below a presence test (see bin / un)
            if n in ('std::max', 'std::min', 'std::abs', 'abs'):
                for a in t.get('args', []):
                    r = material(a, depth + 1)
                    if r is not None:
                        return r
                return None
            if t.get('recv') is not None and not t.get('args') and 'operator' in n and material(t.get('recv'), depth + 1) is None:
                return None          # conversion of a global evaluation parameter
            if t.get('op') in ('+', '-', '==', '!=', '<', '>', '<=', '>=') and not t.get('repo'):
                for a in ([t.get('recv')] if t.get('recv') is not None else []) + t.get('args', []):
                    r = material(a, depth + 1)
                    if r is not None:
                        return r
                return None
            return t
        if k == 'bin':
            if t.get('op') in ('+', '-', '<', '<=', '>', '>=', '==', '!='):
                L = lin(t.get('l'), 1, depth)
                R_ = lin(t.get('r'), -1 if t['op'] != '+' else 1, depth)
                if L is not None and R_ is not None:
                    tot = dict(L)
                    for a_, c_ in R_.items():
                        tot[a_] = tot.get(a_, 0) + c_
                    if partitioned(tot):
                        return None
            if t.get('op') in ('==', '!='):
                l, r = _strip77(t.get('l')), _strip77(t.get('r'))
                for x, y in ((l, r), (r, l)):
                    if piece_set(x) and isinstance(y, dict) and y.get('cv') == 0:
                        return None
            if t.get('op') in ('&', '|', '^', '<<', '>>') and (piece_set(t.get('l')) or piece_set(t.get('r'))):
                return t             # a piece set combined with a mask is about squares
            for x in (t.get('l'), t.get('r')):
                if piece_set(x):
                    return x         # a bare piece set used as a number
                r = material(x, depth + 1)
                if r is not None:
                    return r
            return None
        if k == 'un':
            return material(t.get('e'), depth + 1)
        if k == 'cond':
            for x in (t.get('c'), t.get('t'), t.get('f')):
                r = material(x, depth + 1)
                if r is not None:
                    return r
            return None
        return t
    n_cond = 0
    bad = []
    for bid, blk in sorted(f.blocks.items()):
        if bid in f.dead:
            continue
        t = blk.get('term') or {}
        c = t.get('cond')
        if c is None:
            continue
        c = eff_cond(t) if t.get('c') != 'SwitchStmt' else c
        n_cond += 1
        cc = _strip77(c)
        r = None if piece_set(cc) else material(cc)      # `if (pos.pieceTypeBB(..))` is a presence test
        if r is not None:
            bad.append((t.get('ln') or blk.get('ln'), show(c, 80), show(r, 60)))
    rep.floor(clause, 'live branch conditions of the classification pass', n_cond, 20)
    rep.ob(clause, 'K13 cache-key completeness', 'every live branch condition of endGameEval<false> is a function of the material (signature, sums, piece counts, presence tests)',
           not bad, '%s:%s' % (f.file, bad[0][0]) if bad else f.where, '%d conditions; not material: %s' % (n_cond, bad[:3]), f.sname)


# ----------------------------------------------------------------------------- .8

def c8_odd_arithmetic(fb, rep):
    """K10 colour symmetry of the score arithmetic.  The evaluation works on a white-point-of-view score; the colour-swapped
    position must get exactly the negated score, so every operation applied to it must be an odd function.  Integer
    division truncates towards zero (odd); an arithmetic right shift rounds towards minus infinity (not odd): a negative
    score that does not divide exactly comes out one lower than the negated positive one.  So in the evaluation a right
    shift of a signed value is allowed only where the value is provably non-negative (built from abs(), counts and
    non-negative constants)."""
    clause = 'C07.8'
    funcs = [f for f in fb.funcs.values() if f.has_cfg and (f.d.get('cls') in ('Evaluate', 'EndGameEval') or f.sname.startswith(('Evaluate::', 'EndGameEval::')))]
    rep.floor(clause, 'evaluation functions scanned for shifts of signed scores', len(funcs), 10)
    UNSIGNED = ('U64', 'U32', 'U16', 'U8', 'unsigned', 'size_t', 'uint')
    n = 0
    bad = []
    for f in sorted(funcs, key=lambda x: x.key):
        inits, assigned = {}, set()
        for _, _, e in f.events():
            if e.get('k') == 'decl':
                for v in e.get('vars', []):
                    if v.get('init') is not None:
                        inits[v['id']] = v['init']
            for x in walk(e):
                if x.get('k') in ('asg', 'incdec'):
                    tgt = _strip77(x.get('l') if x.get('k') == 'asg' else x.get('e'))
                    if isinstance(tgt, dict) and tgt.get('k') == 'var':
                        assigned.add(tgt.get('id'))

        def nonneg(t, depth=0):
            t = _strip77(t)
            if not isinstance(t, dict) or depth > 6:
                return False
            if 'cv' in t and t.get('k') != 'var':
                return t['cv'] >= 0
            if any(u in str(t.get('t', '')) for u in UNSIGNED):
                return True
            if t.get('k') == 'call':
                nm = cname(t)
                if nm in ('std::abs', 'abs', 'BitBoard::bitCount', 'BitUtil::lastBit', 'BitUtil::bitCount'):
                    return True
                if nm in ('std::min', 'std::max'):
                    return all(nonneg(a, depth + 1) for a in t.get('args', [])) if nm == 'std::min' else any(nonneg(a, depth + 1) for a in t.get('args', []))
                return False
            if t.get('k') == 'bin' and t.get('op') in ('+', '*', '>>', '/', '&'):
                return nonneg(t.get('l'), depth + 1) and (nonneg(t.get('r'), depth + 1) or t['op'] in ('>>', '&'))
            if t.get('k') == 'var':
                if 'cv' in t:
                    return t['cv'] >= 0
                # every definition of the variable that reaches this use is non-negative
                vid = t.get('id')

                def is_def(ev_):
                    if ev_ is None:
                        return False
                    if ev_.get('k') == 'decl' and any(v_.get('id') == vid for v_ in ev_.get('vars', [])):
                        return True
                    return any((x_.get('k') == 'asg' and (_strip77(x_.get('l')) or {}).get('id') == vid) or
                               (x_.get('k') == 'incdec' and (_strip77(x_.get('e')) or {}).get('id') == vid) for x_ in walk(ev_))
                defs = []
                for b2, i2, e2 in f.events():
                    if not is_def(e2):
                        continue
                    if e2 is cur_event[0]:
                        reach = f.path_avoiding((b2, i2), lambda z: z is cur_event[0], lambda z: z is not e2 and is_def(z)) is not None
                    else:
                        reach = f.path_avoiding((b2, i2), lambda z: z is cur_event[0], lambda z: z is not cur_event[0] and is_def(z)) is not None
                    if not reach:
                        continue
                    if e2.get('k') == 'decl':
                        defs += [v_.get('init') for v_ in e2.get('vars', []) if v_.get('id') == vid]
                    else:
                        for x_ in walk(e2):
                            if x_.get('k') == 'asg' and (_strip77(x_.get('l')) or {}).get('id') == vid:
                                defs.append(x_.get('r') if x_.get('op') == '=' else None)
                            if x_.get('k') == 'incdec' and (_strip77(x_.get('e')) or {}).get('id') == vid:
                                defs.append(None)
                if t.get('vk') == 'param' or not defs or None in defs or depth >= 4:
                    return False
                return all(nonneg(d, depth + 2) for d in defs)
            return False
        cur_event = [None]
        for b, i, e in f.events():
            cur_event[0] = e
            for x in walk(e):
                if (x.get('k') == 'bin' and x.get('op') == '>>') or (x.get('k') == 'asg' and x.get('op') == '>>='):
                    l = x.get('l')
                    lt = str((_strip77(l) or {}).get('t', ''))
                    if any(u in lt for u in UNSIGNED) or any(u in str(x.get('t', '')) for u in UNSIGNED):
                        continue
                    n += 1
                    if not nonneg(l):
                        bad.append((f.sname, '%s:%s' % (f.file, e.get('ln') or f.line), show(x, 70)))
    rep.ob(clause, 'K10 odd arithmetic', 'the evaluation never right-shifts a signed value that may be negative (a shift rounds towards minus infinity: colour-swapped positions would differ)',
           not bad, '%s' % (bad[0][1] if bad else ''), '%d shift(s) of signed values; possibly negative: %s' % (n, bad[:3]), bad[0][0] if bad else 'Evaluate')
    rep.counts['%s signed right shifts in the evaluation' % clause] = (n, 0)


# ----------------------------------------------------------------------------- .9

def c9_accumulator_reuse(fb, rep):
    """K10 agreement between the reuse test and the index function.  The first-layer accumulator of a side is a sum of weight
    rows getIndex(kingSq, piece, square, side); it may be kept and updated incrementally only while *every* row index is
    unchanged by the king's move, i.e. while getIndex(k_old, p, s) == getIndex(k_new, p, s) for all pieces and squares.
    Comparing the king squares themselves is trivially sufficient.  If computeL1WB compares them through a function g
    instead (a "bucket"), g must be at least as fine as getIndex: for every two squares g cannot tell apart, getIndex is
    evaluated for every piece type, square and side and must agree (the mirror flag of the e-h files is part of it)."""
    from ..peval import Evaluator, Unknown
    clause = 'C07.9'
    f = fb.find1('NNEvaluator::computeL1WB')
    gi = [g for g in fb.funcs.values() if g.has_cfg and g.sname == 'getIndex' and (g.file or '').endswith('nneval.cpp')]
    if rep.need(clause, f, 'NNEvaluator::computeL1WB') is None or rep.need(clause, gi, 'getIndex in nneval.cpp') is None:
        return
    gi = gi[0]
    decisions = []
    for b, i, e in f.events():
        if e.get('k') == 'asg' and e.get('op') == '=' and e.get('t') == 'bool' and any(n.get('k') == 'mem' and (n.get('f') or '').endswith('kingSqComputed') for n in walk(e.get('r') or {})):
            decisions.append((b, i, e))
    rep.floor(clause, 'reuse decisions on the stored king square', len(decisions), 1)
    sq_field = ((fb.record('Square') or {}).get('fields') or [{}])[0].get('n', 'sq')

    def square_method(ev, t, env, depth):
        callee = fb.funcs.get(t.get('f'))
        if callee is None or not callee.has_cfg:
            raise Unknown('Square method ' + cname(t))
        recv = ev.eval(t.get('recv'), env, depth)
        cenv = {'this.' + sq_field: recv}
        for p_, a_ in zip(callee.d.get('params', []), t.get('args', [])):
            cenv[('v', p_['id'])] = ev.eval(a_, env, depth)
        return ev.run(callee, cenv, depth + 1)['ret']
    stubs = {}
    for g in fb.funcs.values():
        if g.has_cfg and g.d.get('cls') == 'Square' and not g.d.get('ctor'):
            stubs[g.sname] = square_method
    ev = Evaluator(fb, stubs=stubs)

    def run_fn(fn, args):
        env = {}
        for p_, a_ in zip(fn.d.get('params', []), args):
            env[('v', p_['id'])] = a_
        return ev.run(fn, env)['ret']
    for b, i, e in decisions:
        # functions of the repo applied to a king square inside the decision (other than Square's own comparison / validity)
        gs = []
        for n in walk(e.get('r')):
            if n.get('k') == 'call' and n.get('repo') and fb.funcs.get(n.get('f')) is not None and (fb.funcs[n['f']].d.get('cls') != 'Square') and \
                    any(x.get('k') in ('mem', 'idx', 'var') and 'Square' in str(x.get('t', '')) for a in n.get('args', []) for x in walk(a)):
                gs.append(fb.funcs[n['f']])
        if not gs:
            direct = any(n.get('k') == 'call' and cname(n) in ('Square::operator!=', 'Square::operator==') for n in walk(e.get('r')))
            rep.ob(clause, 'K10 reuse/index agreement', 'computeL1WB keeps an accumulator only while the king square itself is unchanged', direct, R.site(f, e),
                   'decision: %s' % show(e.get('r'), 90), f.sname)
            continue
        g = gs[0]
        bad = []
        try:
            n_par = len(g.d.get('params', []))
            for white in (1, 0):
                cls = {}
                for sq in range(64):
                    key = run_fn(g, [sq, white][:n_par])
                    cls.setdefault(key, []).append(sq)
                for key, sqs in cls.items():
                    for a in sqs[1:]:
                        for pt in range(10):
                            for s_ in range(64):
                                if run_fn(gi, [sqs[0], pt, s_, white]) != run_fn(gi, [a, pt, s_, white]):
                                    if len(bad) < 2:
                                        bad.append('king %d vs %d (%s): getIndex differs for piece %d on square %d' % (sqs[0], a, 'white' if white else 'black', pt, s_))
                                    break
                            else:
                                continue
                            break
        except Unknown as ex:
            rep.broken(clause, 'the reuse test %s / getIndex are not evaluable: %s' % (g.sname, ex))
            return
        rep.ob(clause, 'K10 reuse/index agreement', 'computeL1WB keeps an accumulator only while every weight-row index is unchanged by the king\'s move', not bad, R.site(f, e),
               'reuse test through %s; %s' % (g.sname, bad or 'as fine as getIndex for all 64 x 10 x 64 x 2 arguments'), f.sname)


# ----------------------------------------------------------------------------- .10

def c10_pop_restores_or_invalidates(fb, rep):
    """K2 take-back of the incremental state.  The accumulator stack has one level per move made since the evaluator was last
    (re)connected or the position was assigned; a take-back pops one level.  A take-back of a move made *before* that point
    finds the stack empty: the level that remains describes the position after that move, not the one now on the board, so
    it has to be invalidated (recomputed from scratch at the next evaluation).  On every path through popState() the stack
    level is decremented or the full recomputation is requested - never neither."""
    clause = 'C07.10'
    f = fb.find1('NNEvaluator::popState')
    if rep.need(clause, f, 'NNEvaluator::popState') is None:
        return

    def restores(e):
        if e is None:
            return False
        if e.get('k') == 'incdec' and e.get('op') == '--' and (ap(e.get('e')) or '').endswith('.stackTop'):
            return True
        if e.get('k') == 'asg' and (ap(e.get('l')) or '').endswith('.stackTop'):
            return True
        return e.get('k') == 'call' and cname(e) == 'NNEvaluator::forceFullEval'
    n = sum(1 for _, _, e in f.events() if restores(e))
    rep.floor(clause, 'level decrements / invalidations in popState', n, 1)
    w = f.path_avoiding((f.entry, -1), R.at_exit, restores)
    rep.ob(clause, 'K2 must-pass-through', 'popState: every path pops a level or invalidates the remaining one (forceFullEval)', w is None, f.where,
           '' if w is None else 'path that does neither: ' + ' -> '.join('B%s@%s' % x for x in w[-6:]), f.sname)


# ----------------------------------------------------------------------------- .11

def c11_material_score_antisymmetric(fb, rep):
    """K10 colour symmetry of the material correction.  Evaluate::computeMaterialScore() is the one hand-written, colour-specific
    term that is added to the network's value (the network itself is fed a colour-normalised view, C07.4): it must change
    sign when the colours are swapped.  The function is interpreted statement by statement with the piece counts given by
    a table (`bitCount(pieceTypeBB(X))` -> count[X]) and the repo's correction function taken as an uninterpreted
    two-argument function; for several count tables the score must be the negative of the score for the colour-swapped
    table.  A count read from the wrong colour's piece set (a copy-paste slip among the declarations) breaks it for
    positions with three knights and unequal queen counts only."""
    clause = 'C07.11'
    f = fb.find1('Evaluate::computeMaterialScore')
    if rep.need(clause, f, 'Evaluate::computeMaterialScore') is None:
        return
    from ..peval import Evaluator, Unknown
    npt = fb.const('Piece::nPieceTypes')
    bking = fb.const('Piece::BKING')
    if rep.need(clause, None if None in (npt, bking) else 1, 'Piece constants') is None:
        return
    swap = lambda p: p if p == 0 else (p + (bking - 1) if p < bking else p - (bking - 1))
    cnt = {}

    def stub_count(ev, t, env, d):
        pcs = [n.get('cv') for n in walk(t) if isinstance(n, dict) and n.get('k') == 'int' and (n.get('n') or '').startswith('Piece::') and 'cv' in n]
        pcs += [n.get('cv') for n in walk(t) if isinstance(n, dict) and n.get('k') == 'cast' and 'cv' in n and isinstance(n.get('e'), dict) and (n['e'].get('n') or '').startswith('Piece::')]
        pcs = sorted(set(pcs))
        if len(pcs) != 1:
            raise Unknown('piece set of a count')
        return cnt[pcs[0]]
    opaque = lambda ev, t, env, d: (lambda a: (a[0] * 37 + a[1] * 101 + a[0] * a[1] * 7 + 13) % 1009)([ev.eval(x, env, d + 1) for x in t.get('args', [])])
    zero = lambda ev, t, env, d: 0
    reads = sum(1 for _, _, e in f.events() for n in walk(e) if isinstance(n, dict) and n.get('k') == 'call' and cname(n) == 'BitBoard::bitCount')
    rep.floor(clause, 'piece counts read by computeMaterialScore', reads, 2)
    stubs = {'BitBoard::bitCount': stub_count, 'Position::materialId': zero, 'EndGameEval::endGameEval': zero}
    for c in {cname(n) for _, _, e in f.events() for n in walk(e) if isinstance(n, dict) and n.get('k') == 'call' and len(n.get('args', [])) == 2 and cname(n).split('::')[-1].startswith('correction')}:
        stubs[c] = opaque
    ev = Evaluator(fb, stubs=stubs)

    def score_of(table):
        cnt.clear()
        cnt.update(table)
        env = {}
        result = None
        for b, i, e in sorted(f.events(), key=lambda x: (x[2].get('ln') or 0)):
            try:
                if e.get('k') == 'decl':
                    for v in e.get('vars', []):
                        if v.get('init') is not None:
                            env[('v', v['id'])] = ev.eval(v['init'], env)
                elif e.get('k') == 'asg' and isinstance(_strip(e.get('l')), dict) and _strip(e['l']).get('k') == 'var':
                    vid = ('v', _strip(e['l'])['id'])
                    r = ev.eval(e['r'], env)
                    env[vid] = {'=': r, '+=': env.get(vid, 0) + r, '-=': env.get(vid, 0) - r}.get(e.get('op'))
                elif e.get('k') == 'asg' and (ap(e.get('l')) or '').endswith('.score'):
                    result = ev.eval(e['r'], env)
            except Unknown:
                continue
        return result
    import random
    rnd = random.Random(7)
    bad, n_eval = [], 0
    tables = [{p: rnd.randint(0, 4) for p in range(1, npt)} for _ in range(24)]
    tables.append({p: (3 if p == fb.const('Piece::BKNIGHT') else (1 if p == fb.const('Piece::WQUEEN') else 0)) for p in range(1, npt)})
    for tb in tables:
        a = score_of(tb)
        b = score_of({swap(p): c for p, c in tb.items()})
        if a is None or b is None:
            rep.broken(clause, 'computeMaterialScore is not evaluable (no assignment to the material score found)')
            return
        n_eval += 1
        if a != -b:
            bad.append('counts %s: score %d, colour-swapped %d' % ({p: c for p, c in tb.items() if c}, a, b))
    rep.ob(clause, 'K10 colour symmetry', 'computeMaterialScore changes sign when the piece counts of the two colours are exchanged (%d count tables)' % n_eval, not bad, f.where,
           '; '.join(bad[:2]) or 'antisymmetric for all tables', f.sname)
