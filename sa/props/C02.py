"""C02 - position state survives any make/unmake history.  Clauses decided:
 .1 K12 material-signature arithmetic is free of signed overflow over the legal-material polytope
 .2 K5/K10/K13 mutator effects: who writes each PositionBase field; setPiece/clearPiece and the
        white/black arms agree; from-scratch builders (deSerialize, computeZobristHash, Position())
        reset every accumulator before accumulating and write every field
 .3 K10 incremental and from-scratch hashing use the same key tables with the same index shape
 .4 K1  UndoInfo save-before-write / restore; move counters symmetric
 .5 K10 serialize / deSerialize layouts are inverse
 .7 K1  make/unmake pairing at every probe site (receiver outlives the call)
"""
import re

from ..core import cname, ap, walk, show, strip_not, eff_cond
from ..effects import Effects, event_writes, _field_of_path
from ..pairing import check_pairs
from .. import regions as G
from .. import rules as R

EXPLANATION = (
    'Static rules over the resolved program. Decided: (1) by constant evaluation of MatId\'s piece weights over the '
    'promotion-consistent material polytope (<= 16 men per side) the white half of the signature stays below 2^16 and every '
    'arithmetic node on the signature path has an unsigned type (or a bound inside int); (2) every PositionBase field is written '
    'only by the known mutators; clearPiece equals setPiece(sq, EMPTY) on the removed-piece effects; white and black arms of every '
    'mutator are colour mirrors; deSerialize / computeZobristHash / the default constructor reset every accumulator '
    '(hash keys, material signature and totals, bitboards) before accumulating and write every field they are responsible for; '
    '(3) setWhiteMove/setCastleMask/setEpSquare and the from-scratch hash builders xor the same key tables with the same index '
    'shape, and make/unmake both toggle the side key; (4) every UndoInfo field is saved in makeMove before the first write to the '
    'saved state and restored from it in unMakeMove, and the full-move counter is stepped under the same condition both ways; (5) '
    'serialize and deSerialize use inverse shift/mask sequences in reverse field order with widths that fit; (7) at every call of '
    'makeMove/makeMoveB/makeSEEMove on a position that outlives the call (member or reference parameter; 8 named advancing '
    'functions excepted) every non-exceptional path to the exit or to the next make passes the matching unmake with the same move and undo record.'
    ' (8) the en-passant mask tables hold, for each file, exactly the neighbouring squares on the capturing rank (finite evaluation over the 8 files) and makeMove records an en-passant square only under that mask test; (4, 5 widths) every UndoInfo field and every packed field of the compact form is as wide as the Position attribute it holds unless a stated value range is narrower; (9) every fresh en-passant store is followed by fixupEPSquare (the normal form readFEN produces). Three genuine violations of the property on the pinned tree are recorded as known findings (8-bit clock and 16-bit move number in the compact form; makeMove records an en-passant square whose capture is illegal).'
    ' Added later; (10) the attribute assignment inside every one-argument setter of Position has exactly the parameter on its right-hand side. (11) makeSEEMove / unMakeSEEMove remove and restore the same en-passant victim for every mover piece. (12) the normaliser TextIO::fixupEPSquare keeps an en-passant square exactly for a legal move of the mover\'s pawn to it (all 12 pieces x 2 destinations), scans legal moves only and clears the square otherwise. (13) each take-back reads the mover\'s colour: the parity of side-to-move flips in the make function, flips before the read in the take-back and negations of the value read is even (makeMove/unMakeMove and makeMoveB/unMakeMoveB). (14) wherever a castling right is withdrawn because the board does not support it (readFEN; a reader of the compact form), the test looks at the king\'s home square and the rook corner of that right. (15) the square setters clear the old piece\'s bit from a set before they set the new piece\'s bit in it.')
UNDECIDED = ('equality of hash keys of rule-equal positions as values, bit-identity after arbitrary histories, FEN round trip of '
             'counters (value-level).')
ASSUMPTIONS = ['material domain: <= 16 men per side, pawns + promoted officers <= 8 per side (the property\'s domain)',
               'int is 32 bits']

P = 'Position'
MUTATORS = {
    # field -> functions allowed to write it (template-stripped names)
    'squares': {'setPiece', 'clearPiece', 'movePieceNotPawn', 'setPieceB', 'movePieceNotPawnB', 'setSEEPiece', 'deSerialize', 'Position'},
    'pieceTypeBB_': {'setPiece', 'clearPiece', 'movePieceNotPawn', 'setPieceB', 'movePieceNotPawnB', 'setSEEPiece', 'deSerialize', 'Position'},
    'whiteBB_': {'setPiece', 'clearPiece', 'movePieceNotPawn', 'setPieceB', 'movePieceNotPawnB', 'setSEEPiece', 'deSerialize', 'Position'},
    'blackBB_': {'setPiece', 'clearPiece', 'movePieceNotPawn', 'setPieceB', 'movePieceNotPawnB', 'setSEEPiece', 'deSerialize', 'Position'},
    'wMtrl_': {'setPiece', 'clearPiece', 'deSerialize', 'Position'},
    'bMtrl_': {'setPiece', 'clearPiece', 'deSerialize', 'Position'},
    'wMtrlPawns_': {'setPiece', 'clearPiece', 'deSerialize', 'Position'},
    'bMtrlPawns_': {'setPiece', 'clearPiece', 'deSerialize', 'Position'},
    'hashKey': {'setPiece', 'clearPiece', 'movePieceNotPawn', 'makeMove', 'unMakeMove', 'setWhiteMove', 'setCastleMask', 'setEpSquare',
                'deSerialize', 'computeZobristHash'},
    'pHashKey': {'setPiece', 'clearPiece', 'deSerialize', 'computeZobristHash'},
    'matId': {'setPiece', 'clearPiece', 'deSerialize', 'computeZobristHash'},
    'whiteMove': {'makeMove', 'unMakeMove', 'setWhiteMove', 'makeSEEMove', 'unMakeSEEMove', 'deSerialize', 'Position'},
    'castleMask': {'setCastleMask', 'deSerialize', 'Position'},
    'epSquare': {'setEpSquare', 'deSerialize', 'Position'},
    'halfMoveClock': {'makeMove', 'unMakeMove', 'setHalfMoveClock', 'deSerialize', 'Position'},
    'fullMoveCounter': {'makeMove', 'unMakeMove', 'setFullMoveCounter', 'deSerialize', 'Position'},
}
# functions whose contract is to ADVANCE the position they are given (one reason per line)
ADVANCERS = {
    'Game::processString': 'plays the user move on the game position',
    'Game::handleCommand': 'redo: replays a stored move on the game position',
    'EngineControl::setupPosition': 'replays the move list of the position command (by-value parameter)',
    'GameNode::goForward': 'navigates the game tree',
    'Node::addChild': 'leaves the position at the new child (documented contract)',
    'PkSequence::makeMove': 'advances the proof-kernel position',
    'BookBuild::Book::addPosToBook': 'adds the position after the move to the book',
    'BookBuild::Book::getPosition': 'out-parameter: rebuilds the position along the book path',
}


def run(fb, rep, tier):
    c1_signature(fb, rep)
    c2_effects(fb, rep)
    c3_hash_tables(fb, rep)
    c4_undo(fb, rep)
    c5_serialize(fb, rep)
    c7_pairing(fb, rep)
    c8_ep_square(fb, rep)
    c9_ep_normal_form(fb, rep)
    c10_setter_identity(fb, rep)
    c11_see_pair(fb, rep)
    c12_ep_normaliser(fb, rep)
    c13_mover_colour_in_takeback(fb, rep)
    c14_castle_right_sanitisers(fb, rep)
    c15_clear_before_set(fb, rep)


# ----------------------------------------------------------------------------- .1

def c1_signature(fb, rep):
    clause = 'C02.1'
    rec = rep.need(clause, fb.record('MatId'), 'record MatId')
    tbl = fb.globals.get('MatId::materialId')
    if rec is None or rep.need(clause, tbl, 'MatId::materialId') is None:
        return
    vals = [n.get('cv') for n in (tbl.get('init') or {}).get('elems', [])]
    names = {}
    for nm in ('WPAWN', 'WROOK', 'WKNIGHT', 'WBISHOP', 'WQUEEN', 'BPAWN', 'BROOK', 'BKNIGHT', 'BBISHOP', 'BQUEEN', 'WKING', 'BKING', 'EMPTY'):
        names[nm] = fb.const('Piece::' + nm)
    if None in vals or not vals or None in names.values():
        rep.broken(clause, 'material weights / piece enumerators not constant-evaluable')
        return
    w = {k: vals[v] for k, v in names.items()}

    def side_max(pref):
        # maximise sum(c_i n_i): base officers 2R 2N 2B 1Q, 8 pawns; each pawn may promote to any officer
        officers = ['ROOK', 'KNIGHT', 'BISHOP', 'QUEEN']
        base = 2 * w[pref + 'ROOK'] + 2 * w[pref + 'KNIGHT'] + 2 * w[pref + 'BISHOP'] + w[pref + 'QUEEN']
        best_off = max(w[pref + o] for o in officers)
        return base + 8 * max(best_off, w[pref + 'PAWN'])
    wmax, bmax = side_max('W'), side_max('B')
    rep.ob(clause, 'K12 range', 'white half of the material signature stays below 2^16 (no carry into the black half)',
           0 <= wmax < (1 << 16), '%s:%s' % (tbl['file'], tbl['line']), 'maximum %d (all eight pawns promoted to the heaviest officer)' % wmax, '')
    rep.ob(clause, 'K12 range', 'black weights are the white weights shifted by 16', all(w['B' + o] == w['W' + o] << 16 for o in ('PAWN', 'ROOK', 'KNIGHT', 'BISHOP', 'QUEEN')),
           '%s:%s' % (tbl['file'], tbl['line']), '', '')
    rep.ob(clause, 'K12 range', 'kings and the empty square weigh nothing', w['WKING'] == 0 and w['BKING'] == 0 and w['EMPTY'] == 0, '%s:%s' % (tbl['file'], tbl['line']), '', '')
    total = wmax + bmax
    hf = next((f for f in rec['fields'] if f['n'] == 'hash'), None)
    if rep.need(clause, hf, 'field MatId::hash') is None:
        return
    unsigned = hf['ct'].startswith('unsigned')
    limit = (1 << 32) - 1 if unsigned else (1 << 31) - 1
    rep.ob(clause, 'K12 range', 'the full signature fits its storage type without signed overflow', unsigned and total <= limit or (not unsigned and total <= limit),
           '%s:%s' % (rec['file'], hf['ln']), 'storage %s, maximum over the legal-material polytope %d, limit %d' % (hf['ct'], total, limit), 'MatId')
    # arithmetic nodes on the signature path
    maxw = max(abs(v) for v in vals)
    n = 0
    for nm in ('addPiece', 'removePiece', 'addPieceCnt'):
        f = fb.find1('MatId::' + nm)
        if rep.need(clause, f, 'MatId::' + nm) is None:
            continue
        for b, i, e in f.events():
            if e.get('k') != 'asg' or ap(e.get('l')) != 'this.hash':
                continue
            n += 1
            ct = e.get('ct') or e.get('t')
            ok = ct.startswith('unsigned') or total <= (1 << 31) - 1
            rep.ob(clause, 'K12 range', 'MatId::%s: the accumulation is computed in an unsigned type (or cannot exceed int)' % nm, ok, R.site(f, e),
                   'computation type %s, maximum %d' % (ct, total), f.sname)
            for nd in walk(e.get('r')):
                if nd.get('k') == 'bin' and nd.get('op') == '*':
                    t = nd.get('t', '')
                    okm = t.startswith('unsigned') or maxw * 10 <= (1 << 31) - 1
                    rep.ob(clause, 'K12 range', 'MatId::%s: weight * count is computed in an unsigned type (or cannot exceed int)' % nm, okm, R.site(f, e),
                           'type %s, largest weight %d x up to 10 pieces = %d' % (t, maxw, maxw * 10), f.sname)
    rep.floor(clause, 'signature accumulation sites', n, 3)


# ----------------------------------------------------------------------------- .2

def _pos_methods(fb):
    return {f.key: f for f in fb.funcs.values() if f.has_cfg and f.d.get('cls') == P}


def c2_effects(fb, rep):
    clause = 'C02.2'
    rec = rep.need(clause, fb.record('PositionBase'), 'record PositionBase')
    if rec is None:
        return
    fields = [f['n'] for f in rec['fields']]
    missing = [f for f in fields if f not in MUTATORS]
    rep.ob(clause, 'K5 who-may-write', 'every PositionBase field has a mutator table entry', not missing, '%s:%s' % (rec['file'], rec['line']),
           'fields without an entry: %s' % missing, '')
    writers = {f: {} for f in fields}
    for m in _pos_methods(fb).values():
        for b, i, e in m.events():
            may, _ = event_writes(e)
            for fl in may:
                base = fl[:-2] if fl.endswith('[]') else fl
                if base in writers:
                    writers[base].setdefault(m.sname.split('::')[-1], e.get('ln'))
    # non-member writers (friends, other classes reaching in) cannot exist: PositionBase is a private base
    n = 0
    for fl in fields:
        for wname, ln in sorted(writers[fl].items()):
            n += 1
            ok = wname in MUTATORS.get(fl, set())
            rep.ob(clause, 'K5 who-may-write', 'Position::%s writes %s' % (wname, fl), ok, 'lib/texellib/position.*:%s' % ln,
                   '' if ok else '%s may only be written by %s' % (fl, sorted(MUTATORS.get(fl, []))), 'Position::' + wname)
    rep.floor(clause, 'field writers of PositionBase', n, 60)
    rep.ob(clause, 'K5 who-may-write', 'PositionBase is a private base of Position', any(b == 'PositionBase' for b in (fb.record(P) or {}).get('bases', [])),
           '', '', '')
    sp = fb.find1(P + '::setPiece')
    cp = fb.find1(P + '::clearPiece')
    if rep.need(clause, sp, 'Position::setPiece') and rep.need(clause, cp, 'Position::clearPiece'):
        # (a) white/black arms are colour mirrors
        for f in (sp, cp, fb.find1(P + '::movePieceNotPawn'), fb.find1(P + '::setPieceB'), fb.find1(P + '::movePieceNotPawnB'),
                  fb.find1(P + '::setSEEPiece'), fb.find1(P + '::deSerialize')):
            if f is None:
                rep.broken(clause, 'anchor not found: a Position mutator')
                continue
            arms = G.branch_arms(f, lambda e: e.get('k') == 'call' and cname(e) == 'Piece::isWhite')
            if not arms:
                rep.broken(clause, 'no isWhite() branch found in ' + f.sname)
            for k, (bid, t, fl, join) in enumerate(sorted(arms, reverse=True)):
                a = G.arm_statements(f, t, join)
                b = [G.colour_swap(s) for s in G.arm_statements(f, fl, join)]
                ok = sorted(a) == sorted(b) and bool(a)
                rep.ob(clause, 'K10 colour mirror', '%s: white and black arm #%d update mirrored state' % (f.sname, k + 1), ok,
                       '%s:%s' % (f.file, f.blocks[bid]['term'].get('ln')),
                       '' if ok else 'white arm %s vs mirrored black arm %s' % (sorted(set(a) - set(b)), sorted(set(b) - set(a))), f.sname)
        # (b) clearPiece == setPiece(sq, EMPTY) on the removed-piece effects
        def removed_region(f):
            rp = set(_local_ids(f, _reads_board_square))
            arms = G.branch_arms(f, lambda e: e.get('k') == 'bin' and e.get('op') in ('!=', '==') and
                                 any(n.get('k') == 'var' and n.get('id') in rp for n in walk(e)) and
                                 any(n.get('n') == 'Piece::EMPTY' for n in walk(e)))
            out = []
            for bid, t, fl, join in arms:
                c = eff_cond(f.blocks[bid]['term'])
                ce, pol = strip_not(c)
                start = t if ce.get('op') == '!=' else fl
                out += G.arm_statements(f, start, join)
                # the values those updates use: definitions of the locals declared inside the region (e.g. the material value
                # of the removed piece) must agree too, not only the statements that consume them
                from ..core import canonical
                names = f.alpha_names()
                with canonical(f):
                    for b_ in sorted(G.region(f, start, join)):
                        for e_ in f.blocks[b_]['ev']:
                            if e_.get('k') == 'decl':
                                for v_ in e_.get('vars', []):
                                    if v_.get('init') is not None:
                                        s_ = 'def ' + show(v_['init'], 300)
                                        for vid in rp:
                                            s_ = s_.replace(names.get(vid, '\0'), '$removed')
                                        out.append(s_)
            return sorted(out)
        ra, rb = removed_region(sp), removed_region(cp)
        rep.ob(clause, 'K10 sibling agreement', 'clearPiece and setPiece apply the same removed-piece updates', ra == rb and bool(ra), cp.where,
               '' if ra == rb else 'only in setPiece: %s; only in clearPiece: %s' % (sorted(set(ra) - set(rb)), sorted(set(rb) - set(ra))), cp.sname)
        # unconditional prefix: hash, matId, piece bitboard of the removed piece
        def prefix(f):
            from ..core import canonical
            rp = set(_local_ids(f, _reads_board_square))
            out = set()
            names = f.alpha_names()
            for b, i, e in f.events():
                if any(n.get('k') == 'var' and n.get('id') in rp for n in walk(e)) and G.is_effect(e) and not G.guards_of(f, set(f.blocks), b):
                    with canonical(f):
                        s = show(e, 300)
                    # the removed-piece local is the same role in both siblings whatever its declaration order
                    for vid in rp:
                        s = s.replace(names.get(vid, '\0'), '$removed')
                    out.add(s)
            return out
        pa, pb = prefix(sp), prefix(cp)
        rep.ob(clause, 'K10 sibling agreement', 'clearPiece and setPiece un-hash / un-count / clear the removed piece identically', pb <= pa and len(pb) >= 3, cp.where,
               'clearPiece %s; setPiece %s' % (sorted(pb), sorted(pa)), cp.sname)
    # (c) movePieceNotPawn only for quiet non-pawn moves
    mm = fb.find1(P + '::makeMove')
    if rep.need(clause, mm, 'Position::makeMove'):
        cap_ids = set(_local_ids(mm, lambda t: _reads_board_square(t) and any(n.get('k') == 'call' and cname(n) == 'Move::to' for n in walk(t))))
        fm_ids = set(_local_ids(mm, lambda t: any(n.get('k') == 'call' and cname(n) == 'Move::from' for n in walk(t)) and
                                any((n.get('k') == 'bin' and n.get('op') == '<<') or (n.get('k') == 'call' and n.get('op') == '<<') for n in walk(t))))
        arms = G.branch_arms(mm, lambda e: any(n.get('k') == 'var' and n.get('id') in cap_ids for n in walk(e)) or
                             (any(n.get('k') == 'var' and n.get('id') in fm_ids for n in walk(e)) and
                              any(n.get('n') == 'Piece::WPAWN' for n in walk(e))))
        noisy = set()
        for bid, t, fl, join in arms:
            noisy |= G.region(mm, t, join) - G.region(mm, fl, join)
        calls = R.calls_in(mm, P + '::movePieceNotPawn')
        rep.floor(clause, 'movePieceNotPawn call sites in makeMove', len(calls), 3)
        for b, i, e in calls:
            rep.ob(clause, 'K4 guard', 'makeMove: movePieceNotPawn only on the quiet non-pawn path', bool(arms) and b not in noisy, R.site(mm, e), '', mm.sname)
    # (d) from-scratch builders
    eff = Effects(fb, P)
    builders = {P + '::deSerialize': set(MUTATORS), P + '::computeZobristHash': {'hashKey', 'pHashKey', 'matId'}}
    for name, resp in builders.items():
        f = fb.find1(name)
        if rep.need(clause, f, name) is None:
            continue
        for fld in sorted(resp):
            if fld not in fields:
                continue
            wr = fld in eff.may_write(f) or (fld + '[]') in eff.may_write(f)
            rep.ob(clause, 'K13 from-scratch completeness', '%s writes %s' % (name.split('::')[-1], fld), wr, f.where, '', f.sname)
        _accumulators_reset(rep, clause, f)
    ctor = [f for f in fb.find(P + '::Position') if not f.d.get('params')]
    if rep.need(clause, ctor, 'Position::Position()'):
        f = ctor[0]
        for fld in fields:
            if fld in ('hashKey', 'pHashKey', 'matId'):
                ok = any(cname(e) == P + '::computeZobristHash' for _, _, e in f.events() if e.get('k') == 'call')
            else:
                ok = fld in eff.may_write(f) or (fld + '[]') in eff.may_write(f)
            rep.ob(clause, 'K13 from-scratch completeness', 'Position() initialises %s' % fld, ok, f.where, '', f.sname)



def _local_ids(f, pred):
    """ids of the locals of f whose initialiser satisfies pred(init tree)."""
    out = []
    for _, _, e in f.events():
        if e.get('k') == 'decl':
            for v in e.get('vars', []):
                if v.get('init') is not None and pred(v['init']):
                    out.append(v['id'])
    return out


def _reads_board_square(t):
    """squares[...] of this position"""
    return any(n.get('k') == 'idx' and (ap(n.get('b')) or '') == 'this.squares' for n in walk(t)) or \
        any(n.get('k') == 'call' and n.get('op') == '[]' and (ap(n.get('recv')) or '') == 'this.squares' for n in walk(t)) or \
        any(n.get('k') == 'call' and cname(n) == P + '::getPiece' and (n.get('recv') or {}).get('k') == 'this' for n in walk(t))


def _hash_locals(f):
    """locals that are finally stored into this.hashKey (from-scratch accumulators)"""
    out = set()
    for _, _, e in f.events():
        if e.get('k') == 'asg' and e.get('op') == '=' and ap(e.get('l')) == 'this.hashKey':
            r = _strip(e.get('r'))
            if isinstance(r, dict) and r.get('k') == 'var' and r.get('vk') == 'local':
                out.add(r.get('id'))
    return out


def _accumulators_reset(rep, clause, f):
    """Every field that is updated by accumulation (compound assignment or an adding mutator)
    has an absolute write that dominates the first accumulation."""
    accum = {}
    resets = {}
    local_alias = {}
    hash_ids = _hash_locals(f)
    for b, i, e in f.events():
        if e.get('k') == 'asg':
            p = ap(e.get('l'))
            fl = _field_of_path(p) if p else None
            if fl is None and isinstance(e.get('l'), dict) and e['l'].get('k') == 'var' and e['l'].get('vk') == 'local':
                fl = 'local:' + ('hash' if e['l'].get('id') in hash_ids else '#%s' % e['l'].get('id'))
            if fl is None:
                continue
            base = fl[:-2] if fl.endswith('[]') else fl
            if e.get('op') == '=':
                resets.setdefault(base, []).append((b, i))
            else:
                accum.setdefault(base, []).append((b, i, e))
        elif e.get('k') == 'decl':
            for v in e.get('vars', []):
                if v.get('init') is not None:
                    resets.setdefault('local:' + ('hash' if v.get('id') in hash_ids else '#%s' % v.get('id')), []).append((b, i))
        elif e.get('k') == 'call' and e.get('recv') is not None:
            p = ap(e['recv'])
            fl = _field_of_path(p) if p else None
            if fl and cname(e).split('::')[-1] in ('addPiece', 'addPieceCnt', 'removePiece'):
                accum.setdefault(fl, []).append((b, i, e))
            if fl and cname(e).split('::')[-1] == 'operator=':
                resets.setdefault(fl, []).append((b, i))
    n = 0
    for fl in sorted(accum):
        if fl.startswith('local:') and fl[6:] not in ('hash',):
            continue
        n += 1
        first = accum[fl][0]
        rs = []
        for (rb, ri) in resets.get(fl, []):
            h = G.loop_header_of(f, rb)
            if h is not None and G.loop_header_of(f, first[0]) != h and not G._reaches(f, first[0], h):
                # an element-wise reset loop that runs before the accumulation: its header stands for it
                # (constant positive bound: the body executes)
                c = (f.blocks[h].get('term') or {}).get('cond') or {}
                bound = (_strip(c.get('r')) or {}).get('cv') if isinstance(c, dict) else None
                if isinstance(bound, int) and bound > 0:
                    rs.append((h, 0))
                    continue
            rs.append((rb, ri))
        # the reset must dominate *every* accumulation (and so cannot sit inside the accumulating loop)
        ok = bool(rs) and all(any(f.pos_dominates(r, (a[0], a[1])) and r != (a[0], a[1]) for r in rs) for a in accum[fl])
        rep.ob(clause, 'K13 from-scratch completeness', '%s: accumulator %s is reset before it is accumulated' % (f.sname.split('::')[-1], fl.replace('local:', 'local ')),
               ok, R.site(f, first[2]), '' if ok else 'no absolute write to %s dominates %s' % (fl, show(first[2])), f.sname)
    rep.floor(clause, 'accumulators in ' + f.sname, n, 3)


# ----------------------------------------------------------------------------- .3

def _xor_terms(f, target_pred):
    defs = {}
    multi = set()
    for b, i, e in f.events():
        if e.get('k') == 'decl':
            for v in e.get('vars', []):
                if v.get('init') is not None:
                    if v['id'] in defs:
                        multi.add(v['id'])
                    defs[v['id']] = v['init']
        if e.get('k') == 'asg' and isinstance(e.get('l'), dict) and e['l'].get('k') == 'var' and 'id' in e['l']:
            multi.add(e['l']['id'])
    for m in multi:
        defs.pop(m, None)

    def inline(t, depth=0):
        if not isinstance(t, dict) or depth > 5:
            return t
        if t.get('k') == 'var' and t.get('vk') == 'local' and t.get('id') in defs:
            return inline(defs[t['id']], depth + 1)
        return {k: (inline(v, depth + 1) if isinstance(v, dict) else ([inline(x, depth + 1) if isinstance(x, dict) else x for x in v] if isinstance(v, list) else v))
                for k, v in t.items()}
    out = []
    for b, i, e in f.events():
        if e.get('k') == 'asg' and e.get('op') == '^=' and target_pred(e.get('l')):
            out.append(inline(e.get('r')))
    return out


def _shape(t, f=None):
    """Rendering with variable leaves abstracted (key-table identity and index structure stay)."""
    from ..core import canonical
    with canonical(f):
        s = show(t, 400)
    s = re.sub(r'\bthis->', '', s)
    s = re.sub(r'\b(castleMask|epSquare|whiteMove)\b', '#', s)
    s = re.sub(r'\$[pl]\d+', '#', s)
    return s


def c3_hash_tables(fb, rep):
    clause = 'C02.3'
    hash_local = set()

    def is_hash(l):
        return ap(l) == 'this.hashKey' or (isinstance(l, dict) and l.get('k') == 'var' and l.get('id') in hash_local)
    inc = {}
    for nm in ('setWhiteMove', 'setCastleMask', 'setEpSquare'):
        f = fb.find1(P + '::' + nm)
        if rep.need(clause, f, P + '::' + nm) is None:
            return
        inc[nm] = sorted({_shape(t, f) for t in _xor_terms(f, is_hash)})
    rep.ob(clause, 'K10 sibling agreement', 'setWhiteMove toggles exactly the side key', inc['setWhiteMove'] == ['::Position::whiteHashKey'] or
           inc['setWhiteMove'] == ['whiteHashKey'], '', str(inc['setWhiteMove']), P + '::setWhiteMove')
    rep.ob(clause, 'K10 sibling agreement', 'setCastleMask xors out the old and xors in the new castle key (same table)',
           len(inc['setCastleMask']) == 1 and 'castleHashKeys[#]' in inc['setCastleMask'][0], '', str(inc['setCastleMask']), P + '::setCastleMask')
    rep.ob(clause, 'K10 sibling agreement', 'setEpSquare xors out the old and xors in the new en-passant key (same table, same index shape)',
           len(inc['setEpSquare']) == 1 and 'epHashKeys[' in inc['setEpSquare'][0], '', str(inc['setEpSquare']), P + '::setEpSquare')
    # a setter stores the new value whenever it differs from the old one: the field assignment may only be
    # guarded by the comparison of the field with the parameter itself (a guard on derived values - e.g. on
    # the hash-key index - silently drops changes that keep the derived value)
    for nm, fld in (('setWhiteMove', 'whiteMove'), ('setCastleMask', 'castleMask'), ('setEpSquare', 'epSquare')):
        f = fb.find1(P + '::' + nm)
        par = f.d['params'][0]['n']
        stores = [(b, i, e) for b, i, e in f.events() if (e.get('k') == 'asg' and ap(e.get('l')) == 'this.' + fld) or
                  (e.get('k') == 'call' and cname(e).endswith('::operator=') and ap(e.get('recv')) == 'this.' + fld)]
        ok = bool(stores)
        why = ''
        for b, i, e in stores:
            g = G.guards_of(f, set(f.blocks), b)
            for x in g:
                x0 = x.lstrip('!').replace('this->', '')
                norm = x0.replace(' ', '')
                if not (fld in norm and par in norm and ('!=' in norm or '==' in norm) and norm.count(fld) + norm.count(par) >= 2 and
                        all(tok in (fld, par, '', 'Square', 'bool', 'int') for tok in __import__('re').split(r'[^A-Za-z_]+', norm))):
                    ok = False
                    why = 'store guarded by %s' % g
            w = f.path_avoiding((f.entry, -1), R.at_exit, lambda ev, _e=e: ev is _e)
        rep.ob(clause, 'K4 guard', '%s stores the new %s whenever it differs from the old one' % (nm, fld), ok, f.where, why, f.sname)
    for nm in ('computeZobristHash', 'deSerialize'):
        f = fb.find1(P + '::' + nm)
        if rep.need(clause, f, P + '::' + nm) is None:
            continue
        hash_local.clear()
        hash_local.update(_hash_locals(f))
        sc = {_shape(t, f) for t in _xor_terms(f, is_hash)}
        for inm in ('setWhiteMove', 'setCastleMask', 'setEpSquare'):
            ok = set(inc[inm]) <= sc
            rep.ob(clause, 'K10 sibling agreement', '%s hashes with the same key term as %s' % (nm, inm), ok, f.where,
                   'incremental %s; from scratch %s' % (inc[inm], sorted(sc)), f.sname)
        # side key only when white is to move
        for b, i, e in f.events():
            if e.get('k') == 'asg' and e.get('op') == '^=' and is_hash(e.get('l')) and 'whiteHashKey' in show(e.get('r')):
                g = G.guards_of(f, set(f.blocks), b)
                wtm = lambda v_: (lambda t_: ('v', v_) if (t_.get('k') == 'mem' and ap(t_) == 'this.whiteMove') else None)
                exactly = G.excluded_under(f, b, wtm(0)) and not G.excluded_under(f, b, wtm(1))
                rep.ob(clause, 'K4 guard', '%s: side key xored exactly when white is to move' % nm, exactly, R.site(f, e), str(g), f.sname)
        # piece-square keys: same table indexed [piece][square]
        ps = [s for s in sc if 'psHashKeys' in s or s == 'key']
        rep.ob(clause, 'K10 sibling agreement', '%s hashes every square with psHashKeys[piece][square]' % nm, bool(ps), f.where, str(sorted(sc)), f.sname)
    for nm in ('makeMove', 'unMakeMove'):
        f = fb.find1(P + '::' + nm)
        if rep.need(clause, f, P + '::' + nm) is None:
            continue
        tog = [t for t in _xor_terms(f, is_hash) if 'whiteHashKey' in show(t)]
        flips = [e for _, _, e in f.events() if e.get('k') == 'asg' and ap(e.get('l')) == 'this.whiteMove']
        ok = len(tog) == 1 and len(flips) == 1
        w1 = f.path_avoiding((f.entry, -1), R.at_exit, lambda e: e is not None and e.get('k') == 'asg' and e.get('op') == '^=' and 'whiteHashKey' in show(e.get('r')))
        w2 = f.path_avoiding((f.entry, -1), R.at_exit, lambda e: e is not None and e.get('k') == 'asg' and ap(e.get('l')) == 'this.whiteMove')
        rep.ob(clause, 'K10 sibling agreement', '%s toggles the side key and the side to move exactly once on every path' % nm, ok and w1 is None and w2 is None,
               f.where, 'key toggles %d, side flips %d' % (len(tog), len(flips)), f.sname)


# ----------------------------------------------------------------------------- .4

# value ranges of saved attributes that are narrower than their storage type (one reason each); without an entry the
# undo field must be as wide as the Position field it saves (the half-move clock has no bound inside the domain:
# 300-ply walks without capture or pawn move, FEN clocks)
UNDO_RANGE = {
    'capturedPiece': (5, 'piece codes 0..12, signed'),
    'castleMask': (5, 'four castling flags, values 0..15, signed'),
}

PACK_RANGE = {
    'castleMask': (4, 'four castling flags, values 0..15'),
    'epSquare': (8, 'squares 0..63 or none, coded in one byte'),
    'whiteMove': (1, 'bool'),
}

_SCALAR_BITS = {'bool': 8, 'char': 8, 'signed char': 8, 'unsigned char': 8, 'short': 16, 'unsigned short': 16, 'int': 32, 'unsigned int': 32,
                'long': 64, 'unsigned long': 64, 'long long': 64, 'unsigned long long': 64}


def _field_bits(fb, fl, elem=False):
    if fl is None:
        return None
    if fl.get('bits'):
        return int(fl['bits'])
    ct = (fl.get('ct') or '').replace('const ', '').strip()
    if elem and '[' in ct:
        ct = ct[:ct.index('[')].strip()
    if ct in _SCALAR_BITS:
        return _SCALAR_BITS[ct]
    rec = fb.record(fl.get('rc') or ct)
    if rec and rec.get('size'):
        return int(rec['size']) * 8
    return None


def c4_undo(fb, rep):
    clause = 'C02.4'
    ui = rep.need(clause, fb.record('UndoInfo'), 'record UndoInfo')
    mm = rep.need(clause, fb.find1(P + '::makeMove'), 'Position::makeMove')
    um = rep.need(clause, fb.find1(P + '::unMakeMove'), 'Position::unMakeMove')
    if not (ui and mm and um):
        return
    setters = {'castleMask': P + '::setCastleMask', 'epSquare': P + '::setEpSquare'}
    for fld in [f['n'] for f in ui['fields']]:
        saves = []
        for b, i, e in mm.events():
            if e.get('k') == 'asg' and isinstance(e.get('l'), dict) and e['l'].get('k') == 'mem' and e['l'].get('f') == 'UndoInfo::' + fld:
                saves.append((b, i, e))
            elif e.get('k') == 'call' and cname(e).endswith('::operator=') and isinstance(e.get('recv'), dict) and \
                    e['recv'].get('k') == 'mem' and e['recv'].get('f') == 'UndoInfo::' + fld:
                saves.append((b, i, {'k': 'asg', 'op': '=', 'l': e['recv'], 'r': (e.get('args') or [None])[0], 'ln': e.get('ln'), '_ev': e}))
        if fld == 'capturedPiece':
            src_ok = bool(saves) and any(n.get('k') == 'call' and cname(n) == P + '::getPiece' for n in walk(saves[0][2].get('r')))
            def writes_state(e):
                return e is not None and e.get('k') == 'call' and cname(e) in (P + '::setPiece', P + '::clearPiece', P + '::movePieceNotPawn')
        else:
            src_ok = bool(saves) and ap(saves[0][2].get('r')) == 'this.' + fld
            def writes_state(e, _fld=fld):
                if e is None:
                    return False
                if e.get('k') in ('asg', 'incdec') and ap(e.get('l') if e.get('k') == 'asg' else e.get('e')) == 'this.' + _fld:
                    return True
                return e.get('k') == 'call' and cname(e) == setters.get(_fld)
        rep.ob(clause, 'K1 save/restore', 'makeMove saves %s from the position' % fld, src_ok and len(saves) == 1, R.site(mm, saves[0][2]) if saves else mm.where,
               '' if saves else 'no assignment to ui.%s' % fld, mm.sname)
        if saves:
            sb, si, se = saves[0]
            real = se.get('_ev', se)
            w = mm.path_avoiding((mm.entry, -1), writes_state, lambda e: e is real)
            rep.ob(clause, 'K1 save/restore', 'makeMove saves %s before the first write to the saved state' % fld, w is None, R.site(mm, se),
                   '' if w is None else 'a write is reachable before the save: ' + ' -> '.join('B%s@%s' % x for x in w[-5:]), mm.sname)
        # restore
        def restores(e, _fld=fld):
            if e is None:
                return False
            uses = any(n.get('k') == 'mem' and n.get('f') == 'UndoInfo::' + _fld for n in walk(e.get('r') if e.get('k') == 'asg' else {'k': 'other', 'ch': e.get('args', [])}))
            if not uses:
                return False
            if e.get('k') == 'asg':
                return ap(e.get('l')) == 'this.' + _fld
            return e.get('k') == 'call' and cname(e) in (setters.get(_fld), P + '::setPiece')
        R.must_pass_between(rep, um, clause, 'unMakeMove restores %s from the undo record on every path' % fld, None, R.at_exit, restores)
    # the undo record is wide enough for every value of the attribute it saves
    prec = fb.record(P)
    if rep.need(clause, prec, 'record Position') is not None:
        pf = {}
        todo = [prec]
        while todo:
            r_ = todo.pop()
            for f_ in r_.get('fields', []):
                pf.setdefault(f_['n'], f_)
            todo += [fb.record(b_) for b_ in r_.get('bases', []) if fb.record(b_)]
        for fl in ui['fields']:
            have = _field_bits(fb, fl)
            src = pf.get(fl['n']) or (pf.get('squares') if fl['n'] == 'capturedPiece' else None)
            src_bits = _field_bits(fb, src, elem=True) if src else None
            need = src_bits
            why = 'as wide as Position::%s' % (src['n'] if src else '?')
            if fl['n'] in UNDO_RANGE and need is not None and UNDO_RANGE[fl['n']][0] < need:
                need = UNDO_RANGE[fl['n']][0]
                why = UNDO_RANGE[fl['n']][1]
            rep.ob(clause, 'K11 width agreement', 'UndoInfo::%s can hold every value of the attribute it saves' % fl['n'],
                   have is not None and need is not None and have >= need, '%s:%s' % (ui.get('file'), fl.get('ln')),
                   'has %s bits, needs %s (%s)' % (have, need, why), 'UndoInfo')
    # full-move counter: ++ and -- under the same condition
    def counter_guard(f, op):
        for b, i, e in f.events():
            if e.get('k') == 'incdec' and ap(e.get('e')) == 'this.fullMoveCounter' and e.get('op') == op:
                return G.guards_of(f, set(f.blocks), b), e
        return None, None
    g1, e1 = counter_guard(mm, '++')
    g2, e2 = counter_guard(um, '--')
    def guard_is_not_mover_white(f, e):
        # the guard is the negation of the local that caches whiteMove (whatever it is called)
        if e is None:
            return False
        b_ = next(bb for bb, ii, ev in f.events() if ev is e)
        gt = G.guard_trees(f, set(f.blocks), b_)
        wt = set(_local_ids(f, lambda t: ap(t) == 'this.whiteMove'))
        return len(gt) == 1 and gt[0][1] is False and isinstance(_strip(gt[0][0]), dict) and _strip(gt[0][0]).get('id') in wt
    rep.ob(clause, 'K1 save/restore', 'fullMoveCounter is incremented and decremented under the same condition (black has moved)',
           guard_is_not_mover_white(mm, e1) and guard_is_not_mover_white(um, e2), mm.where, 'makeMove guard %s, unMakeMove guard %s' % (g1, g2), mm.sname)
    # wtm in both functions denotes the mover
    def wtm_def(f):
        for b, i, e in f.events():
            if e.get('k') == 'decl':
                for v in e.get('vars', []):
                    if ap(v.get('init')) == 'this.whiteMove':
                        return (b, i), ap(v.get('init'))
        return None, None
    p1, d1 = wtm_def(mm)
    p2, d2 = wtm_def(um)
    flip1 = next(((b, i) for b, i, e in mm.events() if e.get('k') == 'asg' and ap(e.get('l')) == 'this.whiteMove'), None)
    flip2 = next(((b, i) for b, i, e in um.events() if e.get('k') == 'asg' and ap(e.get('l')) == 'this.whiteMove'), None)
    ok = d1 == d2 == 'this.whiteMove' and p1 and p2 and flip1 and flip2 and mm.pos_dominates(p1, flip1) and um.pos_dominates(flip2, p2)
    rep.ob(clause, 'K1 save/restore', 'wtm denotes the mover in both: read before the flip in makeMove, after the flip in unMakeMove', bool(ok), mm.where, '', mm.sname)
    # the half-move clock is either reset or incremented, and restored absolutely
    hm = [e for _, _, e in mm.events() if (e.get('k') == 'asg' and ap(e.get('l')) == 'this.halfMoveClock') or
          (e.get('k') == 'incdec' and ap(e.get('e')) == 'this.halfMoveClock')]
    kinds = sorted('reset' if (e.get('k') == 'asg' and (e.get('r') or {}).get('cv') == 0) else ('inc' if e.get('k') == 'incdec' and e.get('op') == '++' else 'other') for e in hm)
    rep.ob(clause, 'K1 save/restore', 'makeMove either zeroes or increments the half-move clock', kinds == ['inc', 'reset'], mm.where, str(kinds), mm.sname)


# ----------------------------------------------------------------------------- .5

def c5_serialize(fb, rep):
    clause = 'C02.5'
    se = rep.need(clause, fb.find1(P + '::serialize'), 'Position::serialize')
    de = rep.need(clause, fb.find1(P + '::deSerialize'), 'Position::deSerialize')
    if not (se and de):
        return
    # serialize: flags = (flags << w) | (field & m)
    packs = []
    # the flag word: the local finally stored into the last data word (serialize) / initialised from it (deSerialize)
    def flag_ids_se(f):
        out = set()
        for _, _, e in f.events():
            if e.get('k') == 'asg' and e.get('op') == '=' and isinstance(_strip(e.get('r')), dict) and _strip(e['r']).get('k') == 'var' and _strip(e['r']).get('vk') == 'local' and \
                    any(n.get('k') == 'idx' and (_strip(n.get('i')) or {}).get('cv') == 4 for n in walk(e.get('l'))):
                out.add(_strip(e['r'])['id'])
        return out

    def flag_ids_de(f):
        return set(_local_ids(f, lambda t: any(n.get('k') == 'idx' and (_strip(n.get('i')) or {}).get('cv') == 4 for n in walk(t))))
    fl_se, fl_de = flag_ids_se(se), flag_ids_de(de)
    for b, i, e in se.events():
        if e.get('k') == 'asg' and isinstance(e.get('l'), dict) and e['l'].get('id') in fl_se and e.get('op') == '=':
            r = _strip(e.get('r'))
            if isinstance(r, dict) and r.get('k') == 'bin' and r.get('op') == '|':
                sh = _strip(r.get('l'))
                fld = _strip(r.get('r'))
                w = (sh.get('r') or {}).get('cv') if isinstance(sh, dict) and sh.get('op') == '<<' else None
                m = None
                src = fld
                if isinstance(fld, dict) and fld.get('k') == 'bin' and fld.get('op') == '&':
                    m = (_strip(fld.get('r')) or {}).get('cv')
                    src = _strip(fld.get('l'))
                packs.append((w, m, _src_name(src)))
    unpacks = []
    seq = []
    for b, i, e in de.events():
        if e.get('k') == 'asg' and isinstance(e.get('l'), dict) and e['l'].get('id') in fl_de and e.get('op') == '>>=':
            seq.append(('shift', (_strip(e.get('r')) or {}).get('cv')))
        else:
            r = e.get('r') if e.get('k') == 'asg' else None
            if e.get('k') == 'decl':
                for v in e.get('vars', []):
                    if v.get('init') is not None and any(n.get('k') == 'var' and n.get('id') in fl_de for n in walk(v['init'])) and v.get('id') not in fl_de:
                        m = [n.get('r', {}).get('cv') for n in walk(v['init']) if n.get('k') == 'bin' and n.get('op') == '&']
                        # the field this temporary ends up in (data flow: the first store whose value mentions it)
                        dest = None
                        for _b2, _i2, e2 in de.events():
                            if e2.get('k') == 'asg' and (ap(e2.get('l')) or '').startswith('this.') and any(n.get('k') == 'var' and n.get('id') == v['id'] for n in walk(e2.get('r'))):
                                dest = ap(e2['l'])[5:]
                                break
                            if e2.get('k') == 'call' and cname(e2).endswith('::operator=') and (ap(e2.get('recv')) or '').startswith('this.') and \
                                    any(n.get('k') == 'var' and n.get('id') == v['id'] for a_ in e2.get('args', []) for n in walk(a_)):
                                dest = ap(e2['recv'])[5:]
                                break
                        seq.append(('field', dest or v.get('n'), m[0] if m else None))
            elif r is not None and any(n.get('k') == 'var' and n.get('id') in fl_de for n in walk(r)) and not (isinstance(e.get('l'), dict) and e['l'].get('id') in fl_de):
                m = [(_strip(n.get('r')) or {}).get('cv') for n in walk(r) if n.get('k') == 'bin' and n.get('op') == '&']
                seq.append(('field', (ap(e.get('l')) or '').replace('this.', ''), m[0] if m else None))
    cur = None
    for it in seq:
        if it[0] == 'field':
            cur = it
        elif cur is not None:
            unpacks.append((it[1], cur[2], cur[1]))
            cur = None
    if cur is not None:
        unpacks.append((None, cur[2], cur[1]))
    rep.floor(clause, 'packed flag fields', len(packs), 4)
    # widths: serialize shift widths (for the field being appended) vs deserialize masks in reverse order
    ok = len(unpacks) == len(packs) + 1
    detail = 'serialize %s; deSerialize %s' % (packs, unpacks)
    if ok:
        rp = list(reversed(packs))
        for k, (w, m, src) in enumerate(rp):
            uw, um_, uf = unpacks[k]
            if uw != w or um_ != (1 << w) - 1:
                ok = False
            if m is not None and m != (1 << w) - 1:
                ok = False
            if not _same_field(src, uf):
                ok = False
    rep.ob(clause, 'K10 inverse layout', 'serialize packs and deSerialize unpacks the same fields with the same widths in reverse order', ok, se.where, detail, se.sname)
    # each packed field is wide enough for every value of the attribute (else the compact form does not read back identical)
    prec = fb.record(P)
    pf = {}
    todo = [prec] if prec else []
    while todo:
        r_ = todo.pop()
        for f_ in r_.get('fields', []):
            pf.setdefault(f_['n'], f_)
        todo += [fb.record(b_) for b_ in r_.get('bases', []) if fb.record(b_)]
    for w, m, src in packs:
        name = (src or '').split('.')[-1].replace('()', '')
        fld = next((n_ for n_ in pf if n_ == name or (name.startswith(n_) and n_ in ('epSquare',))), None)
        if fld is None or w is None:
            continue
        need = _field_bits(fb, pf[fld])
        why = 'as wide as Position::%s' % fld
        if fld in PACK_RANGE and need is not None and PACK_RANGE[fld][0] < need:
            need, why = PACK_RANGE[fld]
        rep.ob(clause, 'K11 width agreement', 'the compact form stores %s in a field (%s bits) that can hold every value of it' % (fld, w), need is not None and w >= need, se.where,
               'packed in %s bits, needs %s (%s)' % (w, need, why), se.sname)
    # board nibbles
    def word_ids(f):
        out = set()
        for _, _, e in f.events():
            if e.get('k') == 'asg' and e.get('op') == '=' and isinstance(_strip(e.get('r')), dict) and _strip(e['r']).get('vk') == 'local' and \
                    any(n.get('k') == 'idx' and 'cv' not in (_strip(n.get('i')) or {}) for n in walk(e.get('l'))) and any(n.get('k') == 'mem' and n.get('f', '').endswith('::v') for n in walk(e.get('l'))):
                out.add(_strip(e['r'])['id'])
        out |= set(_local_ids(f, lambda t: any(n.get('k') == 'idx' and 'cv' not in (_strip(n.get('i')) or {}) for n in walk(t)) and any(n.get('k') == 'mem' and n.get('f', '').endswith('::v') for n in walk(t))))
        return out

    def nib(f, op):
        wid = word_ids(f)
        return sorted({(_strip(n.get('r')) or {}).get('cv') for _, _, e in f.events() for n in walk(e)
                       if (n.get('k') == 'bin' and n.get('op') == op and isinstance(_strip(n.get('l')), dict) and _strip(n.get('l')).get('id') in wid) or
                       (n.get('k') == 'asg' and n.get('op') == op + '=' and isinstance(n.get('l'), dict) and n['l'].get('id') in wid)} - {None})
    sh_s, sh_d = nib(se, '<<'), nib(de, '>>')
    mk_d = nib(de, '&')
    npt = fb.const('Piece::nPieceTypes')
    ok = sh_s == [4] and sh_d == [4] and mk_d == [15] and npt is not None and npt <= 16
    rep.ob(clause, 'K10 inverse layout', 'board squares are packed and unpacked as 4-bit nibbles wide enough for every piece code', ok, se.where,
           'pack shifts %s, unpack shifts %s masks %s, nPieceTypes %s' % (sh_s, sh_d, mk_d, npt), se.sname)
    # loop directions: serialize sq ascending, deserialize descending over the same 4 x 16 range
    def loops(f):
        out = []
        for bid, blk in f.blocks.items():
            t = blk.get('term')
            if t and t.get('c') == 'ForStmt' and isinstance(t.get('cond'), dict):
                c = t['cond']
                l = _strip(c.get('l'))
                out.append((c.get('op'), (_strip(c.get('r')) or {}).get('cv')))
        return sorted(out, key=str)
    ls, ld = loops(se), loops(de)
    ok = ('<', 4) in ls and ('<', 16) in ls and ('<', 4) in ld and ('>=', 0) in ld
    rep.ob(clause, 'K10 inverse layout', 'serialize fills each word from square 0 up, deSerialize drains it from square 15 down', ok, de.where,
           'serialize loops %s; deSerialize loops %s' % (ls, ld), de.sname)


def _strip(t):
    while isinstance(t, dict) and t.get('k') == 'cast':
        t = t.get('e')
    return t


def _src_name(t):
    t = _strip(t)
    p = ap(t)
    if p:
        return p.replace('this.', '')
    for n in walk(t):
        p = ap(n)
        if p and p.startswith('this.'):
            return p.replace('this.', '')
    return show(t)


def _same_field(a, b):
    a, b = (a or '').lower(), (b or '').lower()
    if a == b:
        return True
    al = {'ep': 'epsquare', 'epsquare': 'epsquare'}
    return al.get(a, a) == al.get(b, b)


# ----------------------------------------------------------------------------- .7

def c7_pairing(fb, rep):
    clause = 'C02.7'
    opens = {P + '::makeMove': P + '::unMakeMove', P + '::makeMoveB': P + '::unMakeMoveB', P + '::makeSEEMove': P + '::unMakeSEEMove'}

    def outlives(r):
        if r is None:
            return False
        if r.get('k') == 'mem':
            return True
        return r.get('k') == 'var' and r.get('vk') == 'param'
    n = 0
    adv = set()
    for fn in sorted(fb.funcs.values(), key=lambda x: x.key):
        if not fn.has_cfg or not R.in_prog(fn):
            continue
        if fn.sname in ADVANCERS:
            if any(cname(e) in opens for _, _, e in fn.events() if e.get('k') == 'call'):
                adv.add(fn.sname)
            continue
        k = 0
        for (b, i, e), ok, detail in check_pairs(fn, set(opens), opens, outlives):
            n += 1
            k += 1
            rep.ob(clause, 'K1 pairing', '%s: %s #%d is undone on every path' % (fn.name if '<' in fn.name else fn.sname, cname(e).split('::')[-1], k), ok,
                   R.site(fn, e), detail, fn.sname)
    rep.floor(clause, 'make-move probe sites on positions that outlive the call', n, 28)
    rep.extra['advancing_functions_exempt_from_pairing'] = {k: ADVANCERS[k] for k in sorted(adv)}
    # exceptional exits of the search restore the position
    it = fb.find1('Search::iterativeDeepening')
    nr = fb.find1('Search::negaScoutRoot')
    for f, exc, what in ((it, 'StopSearch', 'this.pos'), (nr, 'HelperThreadResult', 'this.pos'), (nr, 'HelperThreadResult', 'this.posHashListSize')):
        if rep.need(clause, f, 'search exception handler') is None:
            continue
        hb = [bid for bid, blk in f.blocks.items() if (blk.get('label') or {}).get('k') == 'catch' and exc in (blk['label'].get('t') or '')]
        ok = False
        for bid in hb:
            for b2 in G.region(f, bid, f.exit) | {bid}:
                for e in f.blocks[b2]['ev']:
                    if (e.get('k') == 'asg' and ap(e.get('l')) == what) or \
                            (e.get('k') == 'call' and cname(e).endswith('::operator=') and ap(e.get('recv')) == what):
                        ok = True
        rep.ob(clause, 'K2 exceptional exit', '%s: the %s handler restores %s' % (f.sname, exc, what.replace('this.', '')), ok, f.where, '', f.sname)


# ----------------------------------------------------------------------------- .8

def c8_ep_square(fb, rep):
    """K12/K4 (shared with C11.5 and C01.6): the stored en-passant square equals what can be recomputed from the
    board only if makeMove records it exactly when an enemy pawn stands beside the double-stepped pawn: the mask
    tables it consults hold, for each file, exactly the neighbouring squares on the right rank, and the
    assignment is made only under that mask test."""
    from . import C01, C11
    clause = 'C02.8'
    k = C01.ep_tables(fb, rep, clause)
    rep.floor(clause, 'en-passant mask tables', k, 2)
    C11.ep_guard(fb, rep, clause)


# ----------------------------------------------------------------------------- .9

def c9_ep_normal_form(fb, rep):
    """K4: readFEN leaves the en-passant square set only when an en-passant capture is legal (fixupEPSquare), so
    a position reads back from its FEN identical - and two positions that are equal under the rules hash equal -
    only if every other function that records a *fresh* en-passant square produces the same normal form: the store
    is followed on every path by fixupEPSquare on that position.  Clearing the square and restoring a saved value
    are not fresh stores."""
    clause = 'C02.9'
    setter = P + '::setEpSquare'
    fix = 'TextIO::fixupEPSquare'
    n_fresh = 0
    per_func = {}
    for f in fb.funcs.values():
        if not (f.has_cfg and R.in_engine(f)):
            continue
        saved = set(_local_ids(f, lambda t: any(n.get('k') == 'call' and cname(n) == P + '::getEpSquare' for n in walk(t))))
        for b, i, e in f.events():
            if not (e.get('k') == 'call' and cname(e) == setter and e.get('args')):
                continue
            a = _strip(e['args'][0])
            while isinstance(a, dict) and a.get('k') == 'ctor' and a.get('args'):
                a = _strip(a['args'][0])
            if isinstance(a, dict) and a.get('k') == 'int' and a.get('cv') == -1:
                continue            # clears the square
            if isinstance(a, dict) and a.get('k') == 'un' and a.get('op') == '-' and (_strip(a.get('e')) or {}).get('cv') == 1:
                continue
            if isinstance(a, dict) and a.get('k') == 'mem' and (a.get('f') or '').startswith('UndoInfo::'):
                continue            # restores the saved value
            if isinstance(a, dict) and a.get('k') == 'var' and a.get('id') in saved:
                continue            # restores a value read from the same kind of object
            if f.sname == fix:
                continue
            n_fresh += 1
            followed = f.path_avoiding((b, i), R.at_exit, lambda x: x is not None and (x.get('k') == 'throw' or (x.get('k') == 'call' and cname(x) == fix))) is None
            per_func.setdefault(f.sname, []).append((followed, e, f))
    rep.floor(clause, 'fresh en-passant stores in the engine program', n_fresh, 3)
    for name, lst in sorted(per_func.items()):
        bad = [x for x in lst if not x[0]]
        rep.ob(clause, 'K4 normal form', '%s: a freshly recorded en-passant square is normalised (kept only if an en-passant capture is legal) before the position is used' % name,
               not bad, R.site(lst[0][2], (bad or lst)[0][1]), '%d fresh store(s), %d not followed by fixupEPSquare' % (len(lst), len(bad)), name)


# ----------------------------------------------------------------------------- .10

def c10_setter_identity(fb, rep):
    """K10: readFEN, deSerialize-style builders and the search's own edit/restore pairs (null move: clock saved, zeroed,
    restored) write single attributes through the one-argument setters of Position.  A position reads back identical, and
    an edit is undone exactly, only if such a setter stores the value it is given: the attribute assignment inside a
    `set<Attribute>(x)` must have exactly `x` on its right-hand side - no clamping, masking or normalisation (range
    checks belong to the parser that accepts the value, cf. the negative clock rejected in readFEN)."""
    clause = 'C02.10'
    n = 0
    for f in sorted((f for f in fb.funcs.values() if f.has_cfg and f.d.get('cls') in ('Position', 'PositionBase')), key=lambda x: x.key):
        name = f.sname.split('::')[-1]
        params = f.d.get('params', [])
        if not name.startswith('set') or len(params) != 1 or name in ('setPiece',):
            continue
        pid = params[0].get('id')
        for b, i, e in f.events():
            tgt = val = None
            if e.get('k') == 'asg' and e.get('op') == '=':
                tgt, val = e.get('l'), e.get('r')
            elif e.get('k') == 'call' and e.get('op') == '=' and e.get('args'):
                tgt, val = e.get('recv'), e['args'][0]
            if tgt is None or not (ap(tgt) or '').startswith('this.') or '.' in (ap(tgt) or '')[5:]:
                continue
            if not any(x.get('k') == 'var' and x.get('id') == pid for x in walk(val)):
                continue
            n += 1
            v = _strip(val)
            while isinstance(v, dict) and v.get('k') == 'ctor' and len(v.get('args', [])) == 1:
                v = _strip(v['args'][0])
            rep.ob(clause, 'K10 setter identity', '%s stores its argument unchanged in %s' % (name, ap(tgt)[5:]), isinstance(v, dict) and v.get('k') == 'var' and v.get('id') == pid,
                   R.site(f, e), 'stored: %s' % show(val, 80), f.sname)
    rep.floor(clause, 'attribute stores in one-argument setters of Position', n, 4)


# ----------------------------------------------------------------------------- .11

def c11_see_pair(fb, rep):
    """K1 sibling agreement of the light-weight move pair used by the static exchange evaluation.  makeSEEMove removes the pawn
    captured en passant, unMakeSEEMove puts it back; the take-back restores the board only if, for every mover piece, side to
    move and outcome of the remaining (opaque) tests, both act on the same squares, the removal writes EMPTY and the
    restoration writes the enemy pawn - and only a pawn ever triggers either.  The guards and the square expressions of both
    functions are evaluated for all 12 mover pieces (with the side to move of their colour) x every valuation of the opaque comparisons
    (`move.to() == epSquare`), so the form of the conditions (nesting, else-if, ?:) does not matter.  A removal that is not
    mirrored deletes a pawn from the board for the rest of the history while hash keys and material still count it."""
    clause = 'C02.11'
    mk = fb.find1(P + '::makeSEEMove')
    um = fb.find1(P + '::unMakeSEEMove')
    if rep.need(clause, mk, 'Position::makeSEEMove') is None or rep.need(clause, um, 'Position::unMakeSEEMove') is None:
        return
    WP, BP, empty = fb.const('Piece::WPAWN'), fb.const('Piece::BPAWN'), fb.const('Piece::EMPTY')
    npt = fb.const('Piece::nPieceTypes')
    if rep.need(clause, None if None in (WP, BP, empty, npt) else 1, 'Piece constants') is None:
        return
    from ..core import canonical
    from itertools import product

    class Opaque(Exception):
        pass

    def sk(t):
        while isinstance(t, dict) and (t.get('k') in ('cast', 'paren') or (t.get('k') == 'ctor' and t.get('copy') and len(t.get('args', [])) == 1)):
            t = t.get('e') if t.get('k') != 'ctor' else t['args'][0]
        return t

    def is_flip(e):
        return e.get('k') == 'asg' and ap(e.get('l')) == 'this.whiteMove'

    def model(f, is_unmake):
        movers = set(_local_ids(f, lambda t: any(n.get('k') == 'call' and cname(n) == P + '::getPiece' for n in walk(t))))
        atoms = []
        inits, assigned = {}, set()
        for _, _, e_ in f.events():
            if e_.get('k') == 'decl':
                for v in e_.get('vars', []):
                    if v.get('init') is not None:
                        inits[v['id']] = v['init']
            for n in walk(e_):
                if isinstance(n, dict) and n.get('k') in ('asg', 'incdec'):
                    tg = sk(n.get('l') if n.get('k') == 'asg' else n.get('e'))
                    if isinstance(tg, dict) and tg.get('k') == 'var':
                        assigned.add(tg.get('id'))

        def ev(t, env, depth=0):
            t = sk(t)
            if not isinstance(t, dict) or depth > 40:
                raise Opaque()
            if 'cv' in t:
                return t['cv']
            k = t.get('k')
            if k == 'var' and t.get('id') in movers:
                return env['p']
            if k == 'var' and t.get('vk') == 'local' and t.get('id') in inits and t['id'] not in assigned:
                # a local that only names an expression (its operands - the mover, the move, the side to move before
                # the flip - are not changed between its declaration and the en-passant handling: checked by `flipped`)
                if any(isinstance(n, dict) and n.get('k') == 'mem' and ap(n) == 'this.whiteMove' for n in walk(inits[t['id']])):
                    raise Opaque()      # would need the flip count at the declaration, not at the use
                return ev(inits[t['id']], env, depth + 1)
            if k == 'mem' and ap(t) == 'this.whiteMove':
                return env['w']
            if k == 'un' and t.get('op') == '!':
                return not ev(t['e'], env, depth + 1)
            if k == 'un' and t.get('op') == '-':
                v = ev(t['e'], env, depth + 1)
                if isinstance(v, tuple):
                    raise Opaque()
                return -v
            if k == 'cond':
                return ev(t['a'], env, depth + 1) if ev(t['c'], env, depth + 1) else ev(t['b'], env, depth + 1)
            op = t.get('op')
            ops = None
            if k == 'bin':
                ops = (t['l'], t['r'])
            elif k == 'call' and op in ('+', '-', '==', '!=') and len(t.get('args', [])) + (1 if t.get('recv') else 0) == 2:
                ops = tuple(([t['recv']] if t.get('recv') else []) + list(t['args']))
            if ops is not None and op in ('&&', '||'):
                a = ev(ops[0], env, depth + 1)
                if op == '&&':
                    return bool(a) and bool(ev(ops[1], env, depth + 1))
                return bool(a) or bool(ev(ops[1], env, depth + 1))
            if ops is not None and op in ('==', '!=', '<', '<=', '>', '>='):
                try:
                    a, b = ev(ops[0], env, depth + 1), ev(ops[1], env, depth + 1)
                    if isinstance(a, tuple) or isinstance(b, tuple):
                        if isinstance(a, tuple) and isinstance(b, tuple) and a[0] == b[0]:
                            a, b = a[1], b[1]
                        else:
                            raise Opaque()
                    return {'==': a == b, '!=': a != b, '<': a < b, '<=': a <= b, '>': a > b, '>=': a >= b}[op]
                except Opaque:
                    with canonical(f):
                        key = show(t, 160)
                    if op == '!=':
                        raise Opaque()
                    if key not in atoms:
                        atoms.append(key)
                    return env['atoms'].get(key, False)
            if ops is not None and op in ('+', '-'):
                a, b = ev(ops[0], env, depth + 1), ev(ops[1], env, depth + 1)
                if isinstance(b, tuple) and op == '+' and not isinstance(a, tuple):
                    a, b = b, a
                if isinstance(b, tuple):
                    raise Opaque()
                if isinstance(a, tuple):
                    return (a[0], a[1] + (b if op == '+' else -b))
                return a + b if op == '+' else a - b
            if k in ('call', 'mem', 'var'):
                with canonical(f):
                    return (show(t, 160), 0)     # an opaque base value: base + offset
            raise Opaque()

        sites = []
        for b, i, e in f.events():
            if not (e.get('k') == 'call' and cname(e) == P + '::setSEEPiece' and len(e.get('args', [])) == 2):
                continue
            flipped = f.path_avoiding((f.entry, -1), lambda x, e=e: x is e, is_flip) is None
            sites.append((e, G.guard_trees(f, set(f.blocks), b), flipped))

        def effects(p, w_entry_of_make, val):
            out = set()
            for e, gs, flipped in sites:
                w_entry = (not w_entry_of_make) if is_unmake else w_entry_of_make
                env = {'p': p, 'w': (not w_entry) if flipped else w_entry, 'atoms': val}
                def truth(c):
                    v = ev(c, env)
                    if isinstance(v, tuple):
                        raise Opaque()
                    return bool(v)
                if all(truth(c) == side for c, side in gs):
                    sq = ev(e['args'][0], env)
                    try:
                        pc = ev(e['args'][1], env)
                    except Opaque:
                        pc = '?'
                    if isinstance(pc, tuple):
                        pc = '?'
                    out.add((sq, pc))
            return out
        return sites, atoms, effects

    try:
        s_mk, at_mk, eff_mk = model(mk, False)
        s_um, at_um, eff_um = model(um, True)
        rep.floor(clause, 'setSEEPiece calls in makeSEEMove', len(s_mk), 3)
        rep.floor(clause, 'setSEEPiece calls in unMakeSEEMove', len(s_um), 3)
        # first pass collects the opaque comparisons
        for p_ in range(npt):
            for w in (True, False):
                eff_mk(p_, w, {})
                eff_um(p_, w, {})
        atoms = sorted(set(at_mk) | set(at_um))
        if len(atoms) > 6:
            rep.broken(clause, 'too many opaque comparisons in the SEE move pair: %s' % atoms)
            return
        base = None
        n_states, bad, n_ep = 0, [], 0
        for p_ in range(npt):
            if p_ == empty:
                continue        # a move always moves a piece
            for w in (p_ < fb.const('Piece::BKING'),):
                for bits in product((False, True), repeat=len(atoms)):
                    val = dict(zip(atoms, bits))
                    a, b_ = eff_mk(p_, w, val), eff_um(p_, w, val)
                    n_states += 1
                    # the plain from / to squares of the move: offset 0; everything else is the en-passant victim
                    xa = {(sq, pc) for sq, pc in a if not (isinstance(sq, tuple) and sq[1] == 0)}
                    xb = {(sq, pc) for sq, pc in b_ if not (isinstance(sq, tuple) and sq[1] == 0)}
                    if xa or xb:
                        n_ep += 1
                    enemy = BP if p_ == WP else WP if p_ == BP else None
                    ok = {sq for sq, _ in xa} == {sq for sq, _ in xb} and all(pc == empty for _, pc in xa) and all(pc == enemy for _, pc in xb) and \
                        ((not xa) or p_ in (WP, BP)) and len(xa) <= 1
                    if ok and xa:
                        (sq, _), = xa
                        ok = isinstance(sq, tuple) and sq[1] == (-8 if p_ == WP else 8)
                    if not ok:
                        bad.append('mover %d, white to move %s, %s: removes %s, restores %s' % (p_, w, {k_: v for k_, v in val.items()}, sorted(xa, key=str), sorted(xb, key=str)))
    except Opaque:
        rep.broken(clause, 'the SEE move pair is no longer evaluable (a guard or square expression outside the modelled forms)')
        return
    rep.floor(clause, 'states of the SEE move pair in which an en-passant victim is removed', n_ep, 2)
    rep.ob(clause, 'K1 pairing', 'makeSEEMove / unMakeSEEMove: in every state the en-passant victim removed is exactly the one restored (square behind the destination, enemy pawn, pawn movers only)',
           not bad, mk.where, '%d states (12 mover pieces with their side to move x %d opaque comparison(s) %s); %s' % (n_states, len(atoms), atoms, bad[:3] if bad else 'all agree'), mk.sname)


# ----------------------------------------------------------------------------- .12

def c12_ep_normaliser(fb, rep, clause='C02.12'):
    """K12 the normaliser itself.  Rule-equal positions get equal keys only because TextIO::fixupEPSquare drops an en-passant
    square on which no en-passant capture is legal (readFEN, the game history and the UCI history all rely on it, C02.9 /
    C11.8).  It must keep the square exactly when the legal move list contains a move of the side-to-move's *pawn* to that
    square - any other piece moving there is not an en-passant capture.  The guards of the statement that marks the square
    valid are evaluated for every moving piece x side to move x (destination is / is not the square); the list scanned must
    have been through removeIllegal; and unless the mark was set the square is cleared."""
    f = fb.find1('TextIO::fixupEPSquare')
    if rep.need(clause, f, 'TextIO::fixupEPSquare') is None:
        return
    from ..peval import Evaluator, Unknown
    WP, BP = fb.const('Piece::WPAWN'), fb.const('Piece::BPAWN')
    npt, bking = fb.const('Piece::nPieceTypes'), fb.const('Piece::BKING')
    if rep.need(clause, None if None in (WP, BP, npt, bking) else 1, 'Piece constants') is None:
        return
    EP, OTHER = 20, 21
    st = {}
    ev = Evaluator(fb, stubs={'Move::to': lambda e, t, env, d: st['to'], 'Move::from': lambda e, t, env, d: 12,
                              'Position::getPiece': lambda e, t, env, d: st['piece'], 'Position::isWhiteMove': lambda e, t, env, d: st['wtm'],
                              'Position::getEpSquare': lambda e, t, env, d: EP})
    # the mark: a bool local assigned `true` inside the scan and tested before the square is cleared
    marks = []
    for b, i, e in f.events():
        if e.get('k') == 'asg' and e.get('op') == '=' and isinstance(_strip(e.get('l')), dict) and _strip(e['l']).get('k') == 'var' and _strip(e['l']).get('vk') == 'local' and \
                (_strip(e.get('r')) or {}).get('cv') == 1 and (_strip(e['l']).get('t') or '') == 'bool':
            marks.append((b, i, e, _strip(e['l'])['id']))
    if rep.floor(clause, 'statements that mark the en-passant square valid', len(marks), 1) is False or not marks:
        return
    decls = [v for _, _, e in f.events() if e.get('k') == 'decl' for v in e.get('vars', []) if v.get('init') is not None]
    bad, n_states, n_keep = [], 0, 0
    undec = 0
    for pc in range(1, npt):
        wtm = 1 if pc < bking else 0          # the legal moves are the moves of the side to move
        for to in (EP, OTHER):
            st.update({'to': to, 'piece': pc, 'wtm': wtm})
            env = {}
            for _ in range(2):
                for v in decls:
                    try:
                        env[('v', v['id'])] = ev.eval(v['init'], env)
                    except Unknown:
                        pass
            keep = False
            for b, i, e, vid in marks:
                vals = []
                for c, side in G.guard_trees(f, set(f.blocks), b):
                    try:
                        vals.append(bool(ev.eval(c, env)) == side)
                    except Unknown:
                        vals.append(None)
                if any(v is False for v in vals):
                    continue
                if not any(v is True for v in vals):
                    undec += 1
                keep = True
            n_states += 1
            n_keep += 1 if keep else 0
            want = (to == EP) and pc == (WP if wtm else BP)
            if keep != want:
                bad.append('piece %d moving to %s: square %s' % (pc, 'the en-passant square' if to == EP else 'another square', 'kept' if keep else 'not kept'))
    if undec:
        rep.broken(clause, 'the guards of the valid-mark in fixupEPSquare are not evaluable (%d states)' % undec)
        return
    rep.floor(clause, 'states in which the en-passant square is kept', n_keep, 2 if not bad else 0)
    rep.ob(clause, 'K12 finite evaluation', 'fixupEPSquare keeps the en-passant square exactly for a move of the mover\'s pawn to it (12 pieces x 2 destinations)', not bad,
           R.site(f, marks[0][2]), '%d states; %s' % (n_states, '; '.join(bad[:4]) if bad else 'all as wanted'), f.sname)
    # the scanned list holds legal moves only
    gen = [(b, i) for b, i, e in f.events() if e.get('k') == 'call' and cname(e) == 'MoveGen::pseudoLegalMoves']
    filt = lambda e: e is not None and e.get('k') == 'call' and cname(e) in ('MoveGen::removeIllegal',)
    legal_only = bool(gen) and all(f.path_avoiding(pos, lambda e, m=marks: e is not None and any(e is x[2] for x in m), filt) is None for pos in gen)
    rep.ob(clause, 'K2 must-pass-through', 'fixupEPSquare scans legal moves only (removeIllegal between generation and the scan)', legal_only, f.where, '%d generation call(s)' % len(gen), f.sname)
    # unless marked, the square is cleared
    mark_ids = {m[3] for m in marks}
    clears = []
    for b, i, e in f.events():
        if e.get('k') == 'call' and cname(e) == 'Position::setEpSquare':
            try:
                v = ev.eval(e['args'][0], {})
            except Unknown:
                v = None
            gs = G.guard_trees(f, set(f.blocks), b)
            if v is not None and v < 0 and any((not side) and isinstance(_strip(c), dict) and _strip(c).get('k') == 'var' and _strip(c).get('id') in mark_ids for c, side in gs):
                clears.append(e)
    rep.ob(clause, 'K2 must-pass-through', 'fixupEPSquare clears the square when the scan did not mark it valid', len(clears) >= 1, f.where, '%d clearing call(s) under `!mark`' % len(clears), f.sname)


# ----------------------------------------------------------------------------- .13

def c13_mover_colour_in_takeback(fb, rep):
    """K1 sibling agreement on whose move is taken back.  A take-back restores colour-dependent things (the pawn under a
    promoted piece, the castling rook of the mover's king): the colour must be the mover's, i.e. the side to move *before*
    the move was made.  makeMove flips the side to move and unMakeMove flips it back before it reads it; the light pair
    makeMoveB / unMakeMoveB (used by the legality test on the caller's position) never flips.  For each pair the parity of
    (flips in the make function) + (flips before the read in the take-back) + (negations applied to the value read) must be
    even: then the value read is the mover's colour."""
    clause = 'C02.13'
    n_pairs = 0
    for mk_n, um_n in (('makeMove', 'unMakeMove'), ('makeMoveB', 'unMakeMoveB')):
        mk, um = fb.find1(P + '::' + mk_n), fb.find1(P + '::' + um_n)
        if rep.need(clause, mk, P + '::' + mk_n) is None or rep.need(clause, um, P + '::' + um_n) is None:
            continue

        def wm(t):
            return isinstance(t, dict) and t.get('k') == 'mem' and ap(t) == 'this.whiteMove'

        def copies(f):
            """locals initialised from the side to move (possibly negated): id -> (decl position, negated?)"""
            out = {}
            for b, i, e in f.events():
                if e.get('k') == 'decl':
                    for v in e.get('vars', []):
                        t, neg = _strip(v.get('init')), False
                        while isinstance(t, dict) and t.get('k') == 'un' and t.get('op') == '!':
                            t, neg = _strip(t.get('e')), not neg
                        if wm(t):
                            out[v['id']] = ((b, i), neg)
            return out

        def flips(f):
            cp = copies(f)
            out = []
            for b, i, e in f.events():
                if e.get('k') == 'asg' and e.get('op') == '=' and wm(_strip(e.get('l'))):
                    t, neg = _strip(e.get('r')), False
                    while isinstance(t, dict) and t.get('k') == 'un' and t.get('op') == '!':
                        t, neg = _strip(t.get('e')), not neg
                    src_neg = None
                    if wm(t):
                        src_neg = False
                    elif isinstance(t, dict) and t.get('k') == 'var' and t.get('id') in cp:
                        src_neg = cp[t['id']][1]
                    if src_neg is None:
                        return None            # the side to move is assigned something else: not a pure flip discipline
                    if neg != src_neg:
                        out.append((b, i, e))
            return out
        fm, fu = flips(mk), flips(um)
        if fm is None or fu is None:
            rep.broken(clause, '%s / %s assign the side to move from something other than itself' % (mk_n, um_n))
            continue

        def must_precede(f, ev_pos, target_pos):
            """True (always before), False (never before), None (on some paths only)"""
            if f.pos_dominates(ev_pos, target_pos):
                return True
            tgt = f.blocks[target_pos[0]]['ev'][target_pos[1]]
            return False if f.path_avoiding(ev_pos, lambda x: x is tgt, lambda x: False) is None else None
        # every flip of the make function is on every path
        uncond = all(mk.path_avoiding((mk.entry, -1), R.at_exit, lambda x, _e=e: x is _e) is None for _, _, e in fm)
        reads = copies(um)
        if not reads:
            rep.ob(clause, 'K1 sibling agreement', '%s reads no colour from the side to move' % um_n, True, um.where, '', um.sname)
            n_pairs += 1
            continue
        n_pairs += 1
        for vid, (pos_, neg) in sorted(reads.items()):
            before = [must_precede(um, (b, i), pos_) for b, i, e in fu]
            if None in before or not uncond:
                rep.broken(clause, '%s / %s flip the side to move on some paths only' % (mk_n, um_n))
                break
            parity = (len(fm) + sum(1 for x in before if x) + (1 if neg else 0)) % 2
            rep.ob(clause, 'K1 sibling agreement', '%s restores colour-dependent state with the colour of the side that made the move' % um_n, parity == 0, R.site(um, um.blocks[pos_[0]]['ev'][pos_[1]]),
                   '%d flip(s) in %s, %d flip(s) before the read in %s, value %s' % (len(fm), mk_n, sum(1 for x in before if x), um_n, 'negated' if neg else 'as read'), um.sname)
    rep.floor(clause, 'make / take-back pairs', n_pairs, 2)


# ----------------------------------------------------------------------------- .14

def c14_castle_right_sanitisers(fb, rep):
    """K10 wherever a castling right is withdrawn because the board does not support it (readFEN does this; a reader of the
    compact form may), the test must look at the king's home square and at the rook corner *of that right*: with the king
    and that rook in place the withdrawal is unreachable, and with that rook missing it is reachable.  A copy of the check
    that looks at the other rook strips a right the position has (the read-back position differs in mask, key and moves)."""
    clause = 'C02.14'
    rights = {}
    for nm, ksq, rsq, kp, rp in (('H1_CASTLE', 'E1', 'H1', 'WKING', 'WROOK'), ('A1_CASTLE', 'E1', 'A1', 'WKING', 'WROOK'),
                                 ('H8_CASTLE', 'E8', 'H8', 'BKING', 'BROOK'), ('A8_CASTLE', 'E8', 'A8', 'BKING', 'BROOK')):
        vals = (fb.const('Position::' + nm), fb.const(ksq), fb.const(rsq), fb.const('Piece::' + kp), fb.const('Piece::' + rp))
        if None in vals:
            rep.broken(clause, 'constants for %s not found' % nm)
            return
        rights[vals[0]] = (nm,) + vals[1:]
    n = 0
    for f in sorted(fb.funcs.values(), key=lambda x: x.key):
        if not f.has_cfg or not R.in_prog(f) or f.sname.split('::')[0] not in ('Position', 'TextIO'):
            continue
        for b, i, e in f.events():
            if not (e.get('k') == 'asg' and e.get('op') == '&='):
                continue
            tgt = _strip(e.get('l'))
            if not (isinstance(tgt, dict) and (ap(tgt) == 'this.castleMask' or (tgt.get('k') == 'var' and 'castle' in (tgt.get('n') or '').lower()))):
                continue
            r = _strip(e.get('r'))
            if not (isinstance(r, dict) and 'cv' in r):
                continue
            cleared = [bit for bit in rights if not (r['cv'] >> bit) & 1]
            if len(cleared) != 1:
                continue
            nm, ksq, rsq, kp, rp = rights[cleared[0]]
            n += 1

            def board(kv, rv):
                def leaf(t):
                    sq = None
                    if t.get('k') == 'idx' and (ap(t.get('b')) or '').endswith('squares'):
                        sq = G.tv(t.get('i'), lambda x: None)
                    elif t.get('k') == 'call' and cname(t) == 'Position::getPiece' and t.get('args'):
                        sq = G.tv(t['args'][0], lambda x: None)
                    elif t.get('k') == 'call' and t.get('op') == '[]' and (ap(t.get('recv')) or '').endswith('squares') and t.get('args'):
                        sq = G.tv(t['args'][0], lambda x: None)
                    if sq == ksq:
                        return ('v', kv)
                    if sq == rsq:
                        return ('v', rv)
                    return None
                return leaf
            in_place = G.excluded_under(f, b, board(kp, rp))
            rook_gone = not G.excluded_under(f, b, board(kp, 0))
            king_gone = not G.excluded_under(f, b, board(0, rp))
            rep.ob(clause, 'K10 sibling agreement', '%s: the %s right is withdrawn exactly when its king or its own rook is not at home' % (f.sname.split('::')[-1], nm),
                   in_place and rook_gone and king_gone, R.site(f, e),
                   'unreachable with king and rook in place: %s; reachable without the rook: %s; without the king: %s' % (in_place, rook_gone, king_gone), f.sname)
    rep.floor(clause, 'board-dependent withdrawals of a castling right', n, 4)


# ----------------------------------------------------------------------------- .15

def c15_clear_before_set(fb, rep):
    """K2 order of the two halves of a square update.  setPiece / setPieceB replace the piece on a square: the old piece's bit is
    cleared from its piece set and colour set, the new piece's bit is set.  When both pieces have the same colour (a
    take-back that first puts the promoted piece and then the pawn on the from-square) the two halves touch the same
    colour set, so the clear must come first: no path leads from a statement that sets a bit of a set to one that clears a
    bit of the same set inside one call."""
    clause = 'C02.15'
    n = 0
    for nm in ('setPiece', 'setPieceB'):
        f = fb.find1(P + '::' + nm)
        if rep.need(clause, f, P + '::' + nm) is None:
            continue
        sets_, clears_ = {}, {}
        for b, i, e in f.events():
            if e.get('k') == 'asg' and e.get('op') in ('|=', '&='):
                key = ap(e.get('l')) or show(e.get('l'), 40)
                key = key.split('[')[0]
                (sets_ if e['op'] == '|=' else clears_).setdefault(key, []).append((b, i, e))
        for key in sorted(set(sets_) & set(clears_)):
            n += 1
            late = [(sb, si) for sb, si, se in sets_[key] for cb, ci, ce in clears_[key] if f.path_avoiding((sb, si), lambda x, _c=ce: x is _c, lambda x: False) is not None]
            rep.ob(clause, 'K2 must-precede', '%s: the old piece is removed from %s before the new piece is added' % (nm, key.replace('this.', '')), not late, f.where,
                   '%d set / %d clear statement(s)' % (len(sets_[key]), len(clears_[key])), f.sname)
    rep.floor(clause, 'piece / colour sets updated by the square setters', n, 4)
