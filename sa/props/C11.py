"""C11 - draws by repetition and the 50-move rule.  Clauses decided:
 .1 K1  history-stack discipline: every push on posHashList is popped on every path
 .2 K2  order of tests in negaScout: both draw tests precede the TT probe, the TB probe and
        the evaluation; in the 50-move branch the mate test precedes `return 0`
 .3 K2/K4 history construction: hash pushed before the move is made, list dropped only on
        reversible-move information (half-move clock / reversible count), first-new index set
 .4 K10 exhaustiveness: every GameState has an arm in the state / PGN-result switches
"""
from ..core import cname, ap, walk, show, strip_not, eff_cond
from ..flow import Flow
from .. import regions as G
from .. import rules as R

EXPLANATION = (
    'Static rules over the resolved program. Decided: (1) every `posHashList[posHashListSize++] = hash` of the search (root loop x2, '
    'negaScout, WorkerThread::doSearch, ComputerPlayer::canClaimDraw) is followed on every non-exceptional path to the region exit or to '
    'the next push by `posHashListSize--` (including the ABDADA BUSY retry path); in the main search the pushed value is the hash of '
    'the position before the move that follows; (2) in negaScout both draw tests dominate the transposition-table probe, the tablebase '
    'probe, the evaluation and the quiescence call; inside the 50-move branch `return 0` cannot be reached when the side to move is in '
    'check and has no legal move (mate first); (3) EngineControl::setupPosition pushes the hash before makeMove and drops the history '
    'only on reversible-move information (half-move clock zero, or more than 100 reversible plies); Search::init takes the first-new '
    'index from the history size; (4) every Game::GameState enumerator has an arm in getGameStateString and getPGNResultString.'
    ' (5) the en-passant mask tables are correct for all 8 files and makeMove records an en-passant square only under the mask test (a spurious en-passant square makes rule-equal positions hash differently).'
    ' Added later; (7) the index set, key comparison and claim rule of the repetition scan canClaimDrawRep (finite evaluation of its own init / bound / step expressions for list lengths 0..16 and clocks 0..20); (8) every replayed move on a game position (UCI move list, console move and redo) is followed by fixupEPSquare before its key is read again (found and fixed defects D13, D14).'
    ' Added later; (9) drawRuleEquals compares side to move, castling rights, en-passant square and the complete placement. (10) = C02.12 the en-passant normaliser the history relies on. (11) Game::getHistory takes back the moves n-1 .. 0, each with its own undo record, and stops early only at a half-move clock of 0 (game lengths 0..12 evaluated). (12) every two-type piece set of Game::insufficientMaterial joins the white and the black piece of one kind.')
UNDECIDED = ('equality of hash keys for rule-equal positions beyond the structural clauses (value-level); the index arithmetic of canClaimDrawRep (start -4, step 2, clock bound) - value-level off-by-one territory; console draw '
             'claim semantics. Noticed, outside the property as stated and therefore not reported: WorkerThread::doSearch pushes the hash '
             'of the position AFTER the root move, so helper threads miss in-tree repetitions of the root position (never compared at the root level).')
ASSUMPTIONS = ['exceptional exits (StopSearch, HelperThreadResult) restore the stack in their handlers (checked in C02.7)']


def is_push(e):
    """posHashList[posHashListSize++] = ...  (member or parameter list/counter)"""
    if e is None or e.get('k') != 'asg' or e.get('op') != '=':
        return False
    l = e.get('l')
    # through std::vector::operator[] the lhs is a call
    idx = None
    base = None
    if isinstance(l, dict) and l.get('k') == 'call' and cname(l).endswith('::operator[]'):
        base = l.get('recv')
        idx = (l.get('args') or [None])[0]
    elif isinstance(l, dict) and l.get('k') == 'idx':
        base, idx = l.get('b'), l.get('i')
    if base is None:
        return False
    bn = (ap(base) or '')
    if not bn.split('.')[-1].split('#')[0].startswith('posHashList'):
        return False
    while isinstance(idx, dict) and idx.get('k') == 'cast':
        idx = idx.get('e')
    return isinstance(idx, dict) and idx.get('k') == 'incdec' and idx.get('op') == '++' and idx.get('post') and \
        (ap(idx.get('e')) or '').split('.')[-1].split('#')[0] == 'posHashListSize'


def counter_of(e):
    l = e.get('l')
    idx = (l.get('args') or [None])[0] if l.get('k') == 'call' else l.get('i')
    while isinstance(idx, dict) and idx.get('k') == 'cast':
        idx = idx.get('e')
    return ap(idx.get('e'))


def run(fb, rep, tier):
    c1_stack(fb, rep)
    c2_order(fb, rep)
    c3_history(fb, rep)
    c4_states(fb, rep)
    c5_ep_tables(fb, rep)
    c6_parallel_lists(fb, rep)
    c7_repetition_scan(fb, rep)
    c8_history_normal_form(fb, rep)
    c9_draw_rule_equality(fb, rep)
    # .10 the normaliser C11.8 relies on keeps an en-passant square exactly when a pawn of the mover can legally capture on
    # it: a weaker test leaves rule-equal positions with different keys and the repetition is not found (shared with C02.12)
    from . import C02
    C02.c12_ep_normaliser(fb, rep, 'C11.10')
    c11_console_history(fb, rep)
    c12_dead_material_both_colours(fb, rep)


def c6_parallel_lists(fb, rep):
    """K10 sibling agreement of the console game's parallel history lists: the move list, the undo-information list and
    the draw-offer list are indexed by the same move number, so every operation that changes their length (append, truncate
    after a take-back, clear) must be applied to all of them in the same place.  A list that is not truncated keeps flags of
    discarded moves: a draw offer from a line that was taken back is then accepted, a genuine one is missed."""
    clause = 'C11.6'
    GROW = ('push_back', 'emplace_back')
    SHRINK = ('erase', 'resize', 'clear', 'pop_back')
    fs = [f for f in fb.funcs.values() if f.has_cfg and (f.d.get('cls') or '') == 'Game']
    # the parallel lists: vector fields of Game that are appended to in one and the same block
    groups = []
    for f in fs:
        for bid, blk in f.blocks.items():
            if bid in f.dead:
                continue
            grown = []
            for e in blk['ev']:
                if e.get('k') == 'call' and cname(e).split('::')[-1] in GROW and (ap(e.get('recv')) or '').startswith('this.'):
                    grown.append(ap(e['recv'])[5:])
            if len(set(grown)) >= 2:
                groups.append(frozenset(grown))
    lists = set().union(*groups) if groups else set()
    rep.floor(clause, 'parallel history lists of the console game', len(lists), 3)
    n = 0
    for f in sorted(fs, key=lambda x: x.key):
        per_kind = {}
        for b, i, e in f.events():
            if e.get('k') == 'call' and (ap(e.get('recv')) or '')[5:] in lists and (ap(e.get('recv')) or '').startswith('this.'):
                last = cname(e).split('::')[-1]
                kind = 'grow' if last in GROW else 'shrink' if last in SHRINK else None
                if kind:
                    per_kind.setdefault(kind, set()).add(ap(e['recv'])[5:])
        for kind, touched in sorted(per_kind.items()):
            n += 1
            rep.ob(clause, 'K10 sibling agreement', '%s: every %s of the history lists is applied to all of them' % (f.sname, 'append' if kind == 'grow' else 'truncation / clear'),
                   touched == lists, f.where, 'lists %s, %s applied to %s' % (sorted(lists), kind, sorted(touched)), f.sname)
    rep.floor(clause, 'length-changing operations on the history lists', n, 3)


def c5_ep_tables(fb, rep):
    """K12 (shared with C01.6): the en-passant capture masks makeMove consults before setting an en-passant
    square are built from squares whose file stays on the board.  A wrapped file makes makeMove record an
    en-passant square nobody can use; the position then hashes and compares differently from the identical
    position reached later (the en-passant file is part of zobristHash / drawRuleEquals) and a genuine
    repetition is not counted."""
    from . import C01
    clause = 'C11.5'
    C01.square_ctor_ranges(fb, rep, clause, only_tables=('epMaskW', 'epMaskB'))
    k = C01.ep_tables(fb, rep, clause)
    rep.floor(clause, 'en-passant mask tables', k, 2)
    ep_guard(fb, rep, clause)


def ep_guard(fb, rep, clause):
    # makeMove sets the en-passant square only under the mask test
    mk = fb.find1('Position::makeMove')
    if rep.need(clause, mk, 'Position::makeMove'):
        sets = []
        for b, i, e in mk.events():
            if e.get('k') == 'call' and cname(e) == 'Position::setEpSquare':
                a = show(e['args'][0]) if e.get('args') else ''
                if '-1' in a:
                    continue
                gs = [show(g, 200) for g, sd in G.guard_trees(mk, set(mk.blocks), b) if sd]
                sets.append((e, any('epMaskW' in g or 'epMaskB' in g for g in gs)))
        rep.floor(clause, 'en-passant square assignments in makeMove', len(sets), 2)
        for e, ok in sets:
            rep.ob(clause, 'K4 guard', 'makeMove records an en-passant square only when the mask table says an enemy pawn can capture (%s)' % show(e, 60), ok, R.site(mk, e), '', mk.sname)


def c1_stack(fb, rep):
    clause = 'C11.1'
    n = 0
    for f in sorted(fb.funcs.values(), key=lambda x: x.key):
        if not f.has_cfg or not R.in_engine(f):
            continue
        pushes = [(b, i, e) for b, i, e in f.events() if is_push(e)]
        k = 0
        for b, i, e in pushes:
            n += 1
            k += 1
            cnt = counter_of(e)

            def is_pop(ev, _c=cnt):
                return ev is not None and ev.get('k') == 'incdec' and ev.get('op') == '--' and ap(ev.get('e')) == _c

            def next_push_or_exit(ev, _c=cnt):
                if ev is None:
                    return True
                return is_push(ev) and counter_of(ev) == _c
            by_value = cnt is not None and not cnt.startswith('this.') and any(p.get('n') == cnt.split('#')[0] and '&' not in (p.get('t') or '') for p in f.d.get('params', []))
            is_local = cnt is not None and not cnt.startswith('this.') and not any(p.get('n') == cnt.split('#')[0] for p in f.d.get('params', []))
            if is_local:
                # a function that builds a fresh history list with its own local counter (history construction, not a probe)
                rep.ob(clause, 'K1 pairing', '%s: history push #%d builds a local list (counter is a local variable)' % (f.sname, k), True, R.site(f, e), '', f.sname)
                continue
            w = f.path_avoiding((b, i), next_push_or_exit, lambda ev: is_pop(ev) or (ev is not None and ev.get('k') == 'throw'))
            ok = w is None or by_value
            name = f.name if '<' in f.name else f.sname
            rep.ob(clause, 'K1 pairing', '%s: history push #%d is popped on every path' % (name, k), ok, R.site(f, e),
                   ('counter is a by-value parameter: the function exit closes the region' if by_value and w is not None else '') if ok else
                   'posHashListSize is not decremented on the path ' + ' -> '.join('B%s@%s' % x for x in w[-8:]), f.sname)
            # the pushed value is the hash of a position
            src = e.get('r')
            is_hash = any(n2.get('k') == 'call' and cname(n2) == 'Position::zobristHash' for n2 in walk(src))
            rep.ob(clause, 'K15 provenance', '%s: history push #%d stores a position hash' % (name, k), is_hash, R.site(f, e), show(src), f.sname)
            if f.sname in ('Search::negaScout', 'Search::iterativeDeepening'):
                # ... of the position before the move: a makeMove on the same position lies between push and pop
                def is_make(ev):
                    return ev is not None and ev.get('k') == 'call' and cname(ev) == 'Position::makeMove' and ap(ev.get('recv')) == 'this.pos'
                w2 = f.path_avoiding((b, i), is_pop, is_make)
                rep.ob(clause, 'K2 must-pass-through', '%s: the move is made between history push #%d and its pop (hash of the position before the move)' % (name, k),
                       w2 is None, R.site(f, e), '', f.sname)
    rep.floor(clause, 'history push sites', n, 6)


def c2_order(fb, rep):
    clause = 'C11.2'
    fs = fb.find('Search::negaScout')
    fs = [f for f in fs if len(f.d.get('params', [])) == 6 and f.blocks and len(f.blocks) > 50]
    rep.floor(clause, 'negaScout instantiations', len(fs), 2)
    for f in fs:
        tag = f.name
        d50 = R.calls_in(f, 'Search::canClaimDraw50')
        drep = R.calls_in(f, 'Search::canClaimDrawRep')
        if not d50 or not drep:
            rep.broken(clause, 'draw tests not found in ' + tag)
            continue
        for callee, what in (('ClusterTT::probe', 'the transposition-table probe'), ('TBProbe::tbProbe', 'the tablebase probe'),
                             ('Evaluate::evalPos', 'the static evaluation'), ('Search::quiesce', 'the quiescence search'),
                             ('Search::negaScout', 'any recursive search')):
            targets = [(b, i, e) for b, i, e in f.events() if e.get('k') == 'call' and cname(e) == callee]
            if not targets:
                if callee == 'ClusterTT::probe' or (callee == 'TBProbe::tbProbe' and f.d.get('targs') == ['true']):
                    rep.broken(clause, '%s not found in %s' % (callee, tag))
                continue
            for test, tname in ((d50, '50-move test'), (drep, 'repetition test')):
                te = test[0][2]
                bad = None
                for b, i, e in targets:
                    w = f.path_avoiding((f.entry, -1), lambda x, _e=e: x is _e, lambda x, _t=te: x is _t)
                    if w is not None:
                        bad = (e, w)
                        break
                rep.ob(clause, 'K2 must-precede', '%s: the %s precedes %s' % (tag, tname, what), bad is None, R.site(f, te),
                       '' if bad is None else 'line %s is reachable without the draw test: %s' % (bad[0].get('ln'), ' -> '.join('B%s@%s' % x for x in bad[1][-6:])), f.sname)
        # the draw tests actually end the node: their true branch returns 0 (50-move: unless mated)
        br50 = R.branch_blocks(f, lambda e: e.get('k') == 'call' and cname(e) == 'Search::canClaimDraw50')
        brrep = R.branch_blocks(f, lambda e: e.get('k') == 'call' and cname(e) == 'Search::canClaimDrawRep')
        rep.floor(clause, 'draw-test branches in ' + tag, len(br50) + len(brrep), 2)
        for bid, pol, t, fl in brrep:
            seen = []

            def tr(ev, c, pos):
                if ev.get('k') == 'ret':
                    v = _ret_value(ev)
                    seen.append(v)
                    return ['returned']
                return [c]
            flw = Flow(_Sub(f, t), tr, None).run({'open'})
            ok = flw.at_exit == {'returned'} and set(seen) == {0}
            rep.ob(clause, 'K2 must-pass-through', '%s: a claimable repetition returns exactly 0' % tag, ok, '%s:%s' % (f.file, f.blocks[bid]['term'].get('ln')),
                   'returned values %s' % sorted(set(map(str, seen))), f.sname)
        for bid, pol, t, fl in br50:
            rets = []

            def tr(ev, c, pos):
                ic, nomoves = c
                if ev.get('k') == 'ret':
                    rets.append((_ret_value(ev), ic, nomoves))
                    return [('done', 'done')]
                return [c]

            def rf(cond, truth, c):
                ic, nomoves = c
                ce, p2 = strip_not(cond)
                tv = (truth == p2)
                if isinstance(ce, dict) and ce.get('k') == 'var' and ce.get('n') == 'inCheck':
                    return [(tv, nomoves)]
                if isinstance(ce, dict) and ce.get('k') == 'bin' and ce.get('op') in ('==', '!=') and 'size' in show(ce) and (ce.get('r') or {}).get('cv') == 0:
                    return [(ic, tv if ce['op'] == '==' else (not tv))]
                return [c]
            flw = Flow(_Sub(f, t), tr, rf).run({('?', '?')})
            # `return 0` needs an established reason why the side to move is not mated: not in check, or it has a legal move
            zero_when_mated = [r for r in rets if r[0] == 0 and not (r[1] is False or r[2] is False)]
            mate_rets = [r for r in rets if r[0] != 0]
            ok = flw.at_exit <= {('done', 'done')} and not zero_when_mated and \
                all(r[1] is True and r[2] is True for r in mate_rets) and any(r[0] == 0 for r in rets) and bool(mate_rets)
            rep.ob(clause, 'K2 must-precede', '%s: in the 50-move branch the mate test precedes `return 0` (a mate on move 50 still counts)' % tag, ok,
                   '%s:%s' % (f.file, f.blocks[bid]['term'].get('ln')), 'returns (value, inCheck, noLegalMove): %s' % sorted(set(map(str, rets))), f.sname)
    # canClaimDraw50: clock >= 100
    d = fb.find1('Search::canClaimDraw50')
    if rep.need(clause, d, 'Search::canClaimDraw50'):
        consts = {(n.get('op'), (n.get('r') or {}).get('cv')) for _, _, e in d.events() for n in walk(e) if n.get('k') == 'bin' and n.get('op') in ('>=', '>', '==')}
        rep.ob(clause, 'K11 constant', 'canClaimDraw50 tests halfMoveClock >= 100', ('>=', 100) in consts, d.where, str(sorted(map(str, consts))), d.sname)


def _ret_value(ev):
    """Constant returned (through the logAndReturn(score, type) helper lambda) or a marker."""
    v = ev.get('e')
    for n in walk(v):
        if n.get('k') == 'call' and n.get('args') and (cname(n).endswith('::operator()') or 'lambda' in (n.get('f') or '')):
            a = n['args'][0]
            if isinstance(a, dict) and 'cv' in a:
                return a['cv']
            return show(a)
    if isinstance(v, dict) and 'cv' in v:
        return v['cv']
    return show(v) if v else None


class _Sub:
    def __init__(self, f, entry):
        self.blocks = f.blocks
        self.entry = entry
        self.exit = f.exit


def c3_history(fb, rep):
    clause = 'C11.3'
    sp = fb.find1('EngineControl::setupPosition')
    if rep.need(clause, sp, 'EngineControl::setupPosition'):
        def push(ev):
            return ev is not None and ev.get('k') == 'call' and cname(ev).split('::')[-1] == 'push_back' and (ap(ev.get('recv')) or '').endswith('posHashList')
        def make(ev):
            return ev is not None and ev.get('k') == 'call' and cname(ev) == 'Position::makeMove'
        makes = sp.find_events(make)
        rep.floor(clause, 'makeMove in setupPosition', len(makes), 1)
        for b, i, e in makes:
            # every iteration pushes before it makes the move: from the previous make (or entry) to this make passes a push
            w = sp.path_avoiding((sp.entry, -1), lambda x, _e=e: x is _e, push)
            w2 = sp.path_avoiding((b, i), lambda x, _e=e: x is _e, push)
            rep.ob(clause, 'K2 must-precede', 'setupPosition: the position hash is pushed before every move is made', w is None and w2 is None, R.site(sp, e), '', sp.sname)
        for b, i, e in sp.find_events(push):
            hs = any(n.get('k') == 'call' and cname(n) == 'Position::zobristHash' for a in e.get('args', []) for n in walk(a))
            rep.ob(clause, 'K15 provenance', 'setupPosition pushes the Zobrist hash of the position', hs, R.site(sp, e), '', sp.sname)
        clears = [(b, i, e) for b, i, e in sp.events() if e.get('k') == 'call' and cname(e).split('::')[-1] == 'clear' and (ap(e.get('recv')) or '').endswith('posHashList')]
        rep.floor(clause, 'history clears in setupPosition', len(clears), 2)
        zero_clear = False
        for k, (b, i, e) in enumerate(clears):
            g = G.guards_of(sp, set(sp.blocks), b, skip_loops=True)
            g = [x for x in g if '__begin' not in x and '__end' not in x]
            ok = True
            for x in g:
                x0 = x.lstrip('!')
                if not (('getHalfMoveClock' in x0) or ('posHashList.size()' in x0 and 'moves' not in x0)):
                    ok = False
            if any('getHalfMoveClock() == 0' in x and not x.startswith('!') for x in g):
                zero_clear = True
            rep.ob(clause, 'K4 guard', 'setupPosition: history clear #%d depends only on reversible-move information' % (k + 1), ok, R.site(sp, e),
                   'guards %s' % g, sp.sname)
        rep.ob(clause, 'K4 guard', 'setupPosition drops the history when a move zeroed the half-move clock', zero_clear, sp.where, '', sp.sname)
        # size handed to the search = list size before the search extension
        ok = False
        for b, i, e in sp.events():
            if e.get('k') == 'asg' and ap(e.get('l')) == 'this.posHashListSize':
                ok = any(n.get('k') == 'call' and cname(n).endswith('::size') and (ap(n.get('recv')) or '').endswith('posHashList') for n in walk(e.get('r')))
                rz = sp.path_avoiding((b, i), lambda ev: ev is not None and ev.get('k') == 'call' and cname(ev).endswith('::resize'), R.never)
                ok = ok and rz is not None
        rep.ob(clause, 'K2 must-precede', 'setupPosition records the history size before the list is extended for the search', ok, sp.where, '', sp.sname)
    si = fb.find1('Search::init')
    if rep.need(clause, si, 'Search::init'):
        ok = any(e.get('k') == 'asg' and ap(e.get('l')) == 'this.posHashFirstNew' and ap(e.get('r')) in ('this.posHashListSize',) or
                 (e.get('k') == 'asg' and ap(e.get('l')) == 'this.posHashFirstNew' and isinstance(e.get('r'), dict) and (e['r'].get('n') or '').startswith('posHashListSize'))
                 for _, _, e in si.events())
        rep.ob(clause, 'K2 must-precede', 'Search::init: the first-new index is the size of the game history', ok, si.where, '', si.sname)
    rp = fb.find1('Search::canClaimDrawRep')
    if rep.need(clause, rp, 'Search::canClaimDrawRep'):
        # structural: compares with the current position hash; returns true on a tree repetition or the second history repetition
        cmp_ok = any(n.get('k') == 'bin' and n.get('op') == '==' and any(m.get('k') == 'call' and cname(m) == 'Position::zobristHash' for m in walk(n))
                     for bid, blk in rp.blocks.items() if blk.get('term') and blk['term'].get('cond') for n in walk(blk['term']['cond']))
        rep.ob(clause, 'K10 sibling agreement', 'canClaimDrawRep compares list entries with the current Zobrist hash (the kind of key that was pushed)', cmp_ok, rp.where, '', rp.sname)


def c4_states(fb, rep):
    clause = 'C11.4'
    en = next((e for k, e in fb.enums.items() if k.startswith('Game::GameState@')), None)
    if rep.need(clause, en, 'enum Game::GameState') is None:
        return
    vals = {c['v']: c['n'] for c in en['consts']}
    rep.floor(clause, 'game states', len(vals), 11)
    for nm in ('Game::getGameStateString', 'Game::getPGNResultString'):
        f = fb.find1(nm)
        if rep.need(clause, f, nm) is None:
            continue
        labels = set()
        has_default = False
        for bid, blk in f.blocks.items():
            lb = blk.get('label')
            if lb and lb.get('k') == 'case' and 'v' in lb:
                labels.add(lb['v'])
            if lb and lb.get('k') == 'default':
                has_default = True
        missing = sorted(vals[v] for v in vals if v not in labels)
        rep.ob(clause, 'K10 exhaustiveness', '%s has an arm for every GameState' % nm.split('::')[-1], not missing, f.where,
               'missing: %s (default arm: %s)' % (missing, has_default), f.sname)
    gs = fb.find1('Game::getGameState')
    if rep.need(clause, gs, 'Game::getGameState'):
        returned = set()
        for b, i, e in gs.events():
            if e.get('k') == 'ret':
                for n in walk(e):
                    if n.get('k') == 'int' and (n.get('n') or '').startswith('Game::'):
                        returned.add(n['n'].split('::')[-1])
                    if n.get('k') == 'mem' and ap(n) and ap(n).startswith('this.'):
                        returned.add('<' + ap(n)[5:] + '>')
        need = {'WHITE_MATE', 'BLACK_MATE', 'WHITE_STALEMATE', 'BLACK_STALEMATE', 'DRAW_NO_MATE'}
        rep.ob(clause, 'K10 exhaustiveness', 'getGameState can report mate, stalemate and dead material for both sides', need <= returned, gs.where,
               'states returned: %s' % sorted(returned), gs.sname)


# ----------------------------------------------------------------------------- .7

def c7_repetition_scan(fb, rep):
    """K12 the index set of the repetition scan.  The current position can only equal an earlier one with the same side to
    move that is at least 4 plies back and not older than the last irreversible move, i.e. the entries
    size-4, size-6, ... >= size - halfMoveClock of the hash list.  The scan must visit all of them (a superset is only
    slower), stay inside the list, compare the position's own key with the visited entry, and claim the draw on the
    first hit inside the search tree or on the second hit overall.  The index arithmetic is evaluated for every list
    length 0..16 and clock 0..20 from the loop's own init / bound / step expressions."""
    clause = 'C11.7'
    f = fb.find1('Search::canClaimDrawRep')
    if rep.need(clause, f, 'Search::canClaimDrawRep') is None:
        return
    params = [p_.get('id') for p_ in f.d.get('params', [])]
    if len(params) < 4:
        rep.broken(clause, 'canClaimDrawRep no longer has (pos, list, size, firstNew) parameters')
        return
    P_POS, P_LIST, P_SIZE, P_NEW = params[:4]
    decls = {v['id']: v for _, _, e in f.events() if e.get('k') == 'decl' for v in e.get('vars', [])}
    hdr = [(bid, blk) for bid, blk in f.blocks.items() if (blk.get('term') or {}).get('c') == 'ForStmt' and bid not in f.dead]
    if len(hdr) != 1:
        rep.broken(clause, 'expected one scan loop in canClaimDrawRep, found %d' % len(hdr))
        return
    hb, hblk = hdr[0]
    cond = _strip7(hblk['term'].get('cond'))
    if not (isinstance(cond, dict) and cond.get('k') == 'bin' and cond.get('op') in ('>=', '>') and isinstance(_strip7(cond.get('l')), dict) and _strip7(cond['l']).get('k') == 'var'):
        rep.broken(clause, 'scan loop condition is not `i >= bound` / `i > bound`: ' + show(cond, 80))
        return
    ivar = _strip7(cond['l'])['id']
    steps = []
    for b, i, e in f.events():
        if e.get('k') == 'asg' and isinstance(e.get('l'), dict) and e['l'].get('id') == ivar and e.get('op') in ('-=',):
            steps.append((_strip7(e.get('r')) or {}).get('cv'))
        if e.get('k') == 'incdec' and isinstance(_strip7(e.get('e')), dict) and _strip7(e['e']).get('id') == ivar:
            steps.append(1 if e.get('op') == '--' else None)
    if len(steps) != 1 or steps[0] is None or ivar not in decls or decls[ivar].get('init') is None:
        rep.broken(clause, 'scan variable is not initialised once and decremented once by a constant: steps %s' % steps)
        return
    step = steps[0]

    class Unk(Exception):
        pass

    def ev(t, env, depth=0):
        t = _strip7(t)
        if not isinstance(t, dict) or depth > 8:
            raise Unk(show(t, 60))
        if 'cv' in t and t.get('k') in ('int',):
            return t['cv']
        if t.get('k') == 'var':
            if t.get('id') == P_SIZE:
                return env['size']
            if t.get('id') == P_NEW:
                return env['new']
            if t.get('id') in env:
                return env[t['id']]
            d = decls.get(t.get('id'))
            if d is not None and d.get('init') is not None and t.get('id') != ivar:
                return ev(d['init'], env, depth + 1)
            raise Unk(show(t, 60))
        if t.get('k') == 'call':
            n = cname(t)
            if n.endswith('::getHalfMoveClock'):
                return env['clock']
            if n in ('std::max', 'std::min') and len(t.get('args', [])) == 2:
                a, b_ = ev(t['args'][0], env, depth + 1), ev(t['args'][1], env, depth + 1)
                return max(a, b_) if n == 'std::max' else min(a, b_)
            raise Unk(show(t, 60))
        if t.get('k') == 'bin' and t.get('op') in ('+', '-', '*', '>=', '>', '<', '<=', '==', '!=', '&&', '||'):
            a = ev(t.get('l'), env, depth + 1)
            if t['op'] == '&&' and not a:
                return 0
            if t['op'] == '||' and a:
                return 1
            b_ = ev(t.get('r'), env, depth + 1)
            return {'+': a + b_, '-': a - b_, '*': a * b_, '>=': int(a >= b_), '>': int(a > b_), '<': int(a < b_), '<=': int(a <= b_),
                    '==': int(a == b_), '!=': int(a != b_), '&&': int(bool(a) and bool(b_)), '||': int(bool(a) or bool(b_))}[t['op']]
        if t.get('k') == 'cond':
            return ev(t.get('a'), env, depth + 1) if ev(t.get('c'), env, depth + 1) else ev(t.get('b'), env, depth + 1)
        raise Unk(show(t, 60))
    missing, outside = [], []
    try:
        for size in range(0, 17):
            for clock in range(0, 21):
                env = {'size': size, 'clock': clock, 'new': 0}
                i = ev(decls[ivar]['init'], env)
                visited = []
                n = 0
                while n < 64:
                    env[ivar] = i
                    if not ev(cond, env):
                        break
                    visited.append(i)
                    i -= step
                    n += 1
                lo = max(0, size - clock)
                required = [k for k in range(size - 4, lo - 1, -2)]
                for k in required:
                    if k not in visited and len(missing) < 3:
                        missing.append((size, clock, k))
                for k in visited:
                    if not (0 <= k < size) and len(outside) < 3:
                        outside.append((size, clock, k))
    except Unk as ex:
        rep.broken(clause, 'scan index arithmetic not evaluable: %s' % ex)
        return
    rep.ob(clause, 'K12 scan completeness', 'canClaimDrawRep visits every entry that can repeat the position (same side to move, >= 4 plies back, not older than the half-move clock)',
           not missing, f.where, 'init %s, bound %s, step %s; first missing (size, clock, index): %s' % (show(decls[ivar]['init'], 40), show(cond, 40), step, missing), f.sname)
    rep.ob(clause, 'K12 index bound', 'canClaimDrawRep reads the hash list only inside [0, size)', not outside, f.where,
           'first outside (size, clock, index): %s' % outside, f.sname)
    # the comparison: own key against the visited entry
    cmps = []
    for bid, blk in f.blocks.items():
        c = _strip7((blk.get('term') or {}).get('cond'))
        if isinstance(c, dict) and c.get('k') == 'bin' and c.get('op') == '==' and (blk.get('term') or {}).get('c') == 'IfStmt':
            sides = [_strip7(c.get('l')), _strip7(c.get('r'))]
            key = [x for x in sides if isinstance(x, dict) and x.get('k') == 'call' and cname(x).endswith('::zobristHash') and (_strip7(x.get('recv')) or {}).get('id') == P_POS]
            ent = [x for x in sides if isinstance(x, dict) and (x.get('k') == 'idx' or (x.get('k') == 'call' and x.get('op') == '[]'))]
            if key and ent:
                e0 = ent[0]
                base = _strip7(e0.get('b') if e0.get('k') == 'idx' else e0.get('recv'))
                idx = _strip7(e0.get('i') if e0.get('k') == 'idx' else (e0.get('args') or [None])[0])
                cmps.append((bid, isinstance(base, dict) and base.get('id') == P_LIST and isinstance(idx, dict) and idx.get('id') == ivar))
    rep.ob(clause, 'K15 provenance', 'canClaimDrawRep compares the position\'s own hash key with the visited list entry', len(cmps) == 1 and cmps[0][1], f.where,
           '%d comparison(s)' % len(cmps), f.sname)
    if len(cmps) != 1:
        return
    # the claim: first hit inside the tree, second hit overall
    mb = f.blocks[cmps[0][0]]['succ'][0]
    counters = [(_strip7(e.get('e')) or {}).get('id') for e in f.blocks[mb]['ev'] if e.get('k') == 'incdec' and e.get('op') == '++']
    ifs = [(bid, blk) for bid, blk in f.blocks.items() if (blk.get('term') or {}).get('c') == 'IfStmt' and bid != cmps[0][0] and
           (bid == mb or mb in f.dominators().get(bid, set()))]
    ok = False
    detail = 'counter(s) %s, claim test(s) %d' % (counters, len(ifs))
    if len(counters) == 1 and len(ifs) == 1 and counters[0] in decls and (_strip7(decls[counters[0]].get('init')) or {}).get('cv') == 0:
        claim = ifs[0][1]['term']['cond']
        tgt = f.blocks[ifs[0][1]['succ'][0]]
        returns_true = any(e.get('k') == 'ret' and (_strip7(e.get('e')) or {}).get('cv') == 1 for e in tgt['ev'])
        bad = []
        try:
            for iv in range(0, 5):
                for new in range(0, 5):
                    for reps in range(1, 4):
                        env = {'size': 8, 'clock': 8, 'new': new, ivar: iv, counters[0]: reps}
                        if bool(ev(claim, env)) != ((iv >= new) or (reps >= 2)):
                            bad.append((iv, new, reps))
            ok = returns_true and not bad
            detail = 'claim %s; disagreements with (i >= firstNew || hits >= 2) at (i, firstNew, hits): %s' % (show(claim, 60), bad[:3])
        except Unk as ex:
            detail = 'claim condition not evaluable: %s' % ex
    rep.ob(clause, 'K4 claim rule', 'canClaimDrawRep claims the draw on the first repetition inside the search tree or the second repetition overall', ok, f.where, detail, f.sname)


def _strip7(t):
    while isinstance(t, dict) and t.get('k') == 'cast':
        t = t.get('e')
    return t


# ----------------------------------------------------------------------------- .8

REPLAYERS = ('EngineControl::setupPosition', 'Game::processString', 'Game::handleCommand')


def c8_history_normal_form(fb, rep):
    """K2: repetition is decided by comparing hash keys / positions of the game history.  makeMove records an en-passant
    square whenever an enemy pawn stands beside the double-pushed pawn, also when the capture is illegal (pinned pawn);
    under the rules such a position equals its later occurrences without the square.  The repo's answer is
    TextIO::fixupEPSquare, which readFEN and the console game apply; so *every* place that replays game moves onto the
    position the history is taken from must apply it after each makeMove, before the position's key is read again or the
    function returns - otherwise the first occurrence carries a different key and a third occurrence is not a draw."""
    clause = 'C11.8'
    n = 0
    for nm in REPLAYERS:
        f = fb.find1(nm)
        if rep.need(clause, f, nm) is None:
            continue
        # objects that are, or become, the game position of the class
        game = set()
        for _, _, e in f.events():
            tgt = src = None
            if e.get('k') == 'asg':
                tgt, src = e.get('l'), e.get('r')
            elif e.get('k') == 'call' and cname(e).split('::')[-1] == 'operator=' and e.get('args'):
                tgt, src = e.get('recv'), e['args'][0]
            if tgt is not None and ap(tgt) == 'this.pos' and ap(_strip7(src)):
                game.add(ap(_strip7(src)))
        game.add('this.pos')
        k_site = 0
        for b, i, e in f.events():
            if not (e.get('k') == 'call' and cname(e) == 'Position::makeMove' and ap(e.get('recv')) in game):
                continue
            obj = ap(e['recv'])
            k_site += 1
            n += 1

            def is_fix(x, _o=obj):
                return x is not None and x.get('k') == 'call' and cname(x) == 'TextIO::fixupEPSquare' and x.get('args') and ap(_strip7(x['args'][0])) == _o

            def reads_key(x, _o=obj, _self=e):
                if x is None:
                    return True          # function exit
                if x is _self:
                    return False
                if x.get('k') == 'call' and ap(x.get('recv')) == _o and cname(x) in ('Position::zobristHash', 'Position::historyHash', 'Position::makeMove'):
                    return True
                return False
            w = f.path_avoiding((b, i), reads_key, lambda x: x is not None and (is_fix(x) or x.get('k') == 'throw'))
            rep.ob(clause, 'K2 must-pass-through', '%s: replayed move #%d on the game position is followed by fixupEPSquare before its key is read again or the function returns'
                   % (nm, k_site), w is None, R.site(f, e), '' if w is None else 'unnormalised path: ' + ' -> '.join('B%s@%s' % x for x in w[-4:]), f.sname)
    rep.floor(clause, 'replayed moves on a game position', n, 3)


# ----------------------------------------------------------------------------- .9

def c9_draw_rule_equality(fb, rep):
    """K13: the console game counts repetitions with Position::drawRuleEquals.  Two positions are the same for the
    repetition rule iff the piece placement, the side to move, the castling rights and the en-passant square agree; the
    predicate must compare all four, and the placement completely: every square, or the bitboard of every piece type
    (both kings to both pawns).  A comparison that leaves one piece type out accepts a claim for a position that occurred
    once."""
    clause = 'C11.9'
    f = fb.find1('Position::drawRuleEquals')
    if rep.need(clause, f, 'Position::drawRuleEquals') is None:
        return
    other = (f.d.get('params') or [{}])[0].get('id')

    def pair(t):
        """field name if t compares this.F (possibly indexed) with other.F"""
        t = _strip7(t)
        if not isinstance(t, dict):
            return None
        if t.get('k') == 'bin' and t.get('op') in ('!=', '=='):
            sides = [t.get('l'), t.get('r')]
        elif t.get('k') == 'call' and t.get('op') in ('!=', '==') :
            sides = ([t['recv']] if t.get('recv') is not None else []) + t.get('args', [])
        else:
            return None
        if len(sides) != 2:
            return None
        flds = []
        for s_ in sides:
            fn = [n.get('f', '').split('::')[-1] for n in walk(s_) if n.get('k') == 'mem' and (n.get('f') or '').split('::')[0] in ('Position', 'PositionBase')]
            base_other = any(n.get('k') == 'var' and n.get('id') == other for n in walk(s_))
            flds.append((fn[0] if fn else None, base_other))
        if flds[0][0] and flds[0][0] == flds[1][0] and flds[0][1] != flds[1][1]:
            return flds[0][0]
        return None
    compared = {}
    for bid, blk in f.blocks.items():
        c = (blk.get('term') or {}).get('cond')
        if c is not None and bid not in f.dead:
            fld = pair(eff_cond(blk['term']))
            if fld:
                compared.setdefault(fld, []).append(bid)
    for fld in ('whiteMove', 'castleMask', 'epSquare'):
        rep.ob(clause, 'K13 completeness', 'drawRuleEquals compares %s of the two positions' % fld, fld in compared, f.where, 'fields compared: %s' % sorted(compared), f.sname)
    # the placement
    n_types = fb.const('Piece::nPieceTypes')
    full = False
    how = 'no comparison of the board found'
    if 'squares' in compared:
        # inside a range-for over all squares
        rng = any(e.get('k') == 'decl' and any('AllSquares' in str(v.get('t', '')) + str(v.get('ct', '')) for v in e.get('vars', [])) for _, _, e in f.events())
        full = rng
        how = 'squares[i] compared for every square of AllSquares' if rng else 'squares[] compared, but not in a loop over AllSquares'
    elif 'pieceTypeBB_' in compared and n_types:
        for bid, blk in f.blocks.items():
            t = blk.get('term') or {}
            c = _strip7(t.get('cond'))
            if t.get('c') == 'ForStmt' and isinstance(c, dict) and c.get('k') == 'bin' and c.get('op') in ('<', '<='):
                v = _strip7(c.get('l'))
                hi = (_strip7(c.get('r')) or {}).get('cv')
                lo = None
                for _, _, e in f.events():
                    if e.get('k') == 'decl':
                        for dv in e.get('vars', []):
                            if isinstance(v, dict) and dv.get('id') == v.get('id'):
                                lo = (_strip7(dv.get('init')) or {}).get('cv')
                if lo is not None and hi is not None:
                    covered = set(range(lo, hi + (1 if c['op'] == '<=' else 0)))
                    need = set(range(1, n_types))
                    full = need <= covered
                    how = 'piece-type bitboards %d..%d compared; piece types are 1..%d' % (lo, max(covered) if covered else lo, n_types - 1)
    rep.ob(clause, 'K13 completeness', 'drawRuleEquals compares the complete piece placement (every square, or the bitboard of every piece type)', full, f.where, how, f.sname)


# ----------------------------------------------------------------------------- .11

def c11_console_history(fb, rep):
    """K12 the history the console player hands to the search.  Game::getHistory() rebuilds the earlier positions by taking the
    game's moves back from the current one; the repetition scan (C11.7) and the player's draw claim count occurrences in
    that list, so it must contain every position back to the first one of the game (it may stop early only at a position
    whose half-move clock is 0: nothing before an irreversible move can repeat).  The loop's own init / bound / step and the
    index expressions of the move and undo-info lists are evaluated for every game length 0..12: the moves taken back must be
    n-1, n-2, ..., 0 in that order, each with its own undo record."""
    clause = 'C11.11'
    f = fb.find1('Game::getHistory')
    if rep.need(clause, f, 'Game::getHistory') is None:
        return
    decls = {v['id']: v for _, _, e in f.events() if e.get('k') == 'decl' for v in e.get('vars', [])}
    loops = f.natural_loops()
    takes = [(b, i, e) for b, i, e in f.events() if e.get('k') == 'call' and cname(e) == 'Position::unMakeMove' and len(e.get('args', [])) == 2]
    if rep.floor(clause, 'take-backs in getHistory', len(takes), 1) is False or len(takes) != 1:
        if len(takes) > 1:
            rep.broken(clause, 'more than one take-back in getHistory')
        return
    tb, ti, te = takes[0]
    hs = [h for h, body in loops.items() if tb in body]
    if len(hs) != 1:
        rep.broken(clause, 'the take-back is not inside exactly one loop')
        return
    h = hs[0]
    body = loops[h]
    steps = {}
    for b in body:
        for e in f.blocks[b]['ev']:
            if e.get('k') == 'incdec' and (_strip7(e.get('e')) or {}).get('k') == 'var':
                steps.setdefault(_strip7(e['e'])['id'], []).append(1 if e.get('op') == '++' else -1)
    if len(steps) != 1 or len(list(steps.values())[0]) != 1:
        rep.broken(clause, 'the take-back loop does not step exactly one counter once')
        return
    (vid, (step,)), = steps.items()

    def ev(t, env, depth=0):
        t = _strip7(t)
        if not isinstance(t, dict) or depth > 8:
            return None
        if 'cv' in t:
            return t['cv']
        if t.get('k') == 'var':
            if t.get('id') in env:
                return env[t['id']]
            d = decls.get(t.get('id'))
            return ev(d['init'], env, depth + 1) if d is not None and d.get('init') is not None and t.get('id') != vid else None
        if t.get('k') == 'mem' and ap(t) == 'this.currentMove':
            return env['n']
        if t.get('k') == 'bin':
            a, b = ev(t.get('l'), env, depth + 1), ev(t.get('r'), env, depth + 1)
            if a is None or b is None:
                return None
            return {'+': a + b, '-': a - b, '<': a < b, '<=': a <= b, '>': a > b, '>=': a >= b, '!=': a != b, '==': a == b}.get(t.get('op'))
        return None

    def index_of(arg, want_field):
        for n in walk(arg):
            if isinstance(n, dict) and n.get('k') == 'call' and n.get('op') == '[]' and ap(n.get('recv')) == want_field and n.get('args'):
                return n['args'][0]
        return None
    im, iu = index_of(te['args'][0], 'this.moveList'), index_of(te['args'][1], 'this.uiInfoList')
    if rep.need(clause, None if im is None or iu is None else 1, 'moveList[...] / uiInfoList[...] arguments of the take-back') is None:
        return
    cond = (f.blocks[h].get('term') or {}).get('cond')
    init = decls.get(vid, {}).get('init')
    bad = []
    n_eval = 0
    for n in range(0, 13):
        x = ev(init, {'n': n})
        seq = []
        ok_eval = x is not None
        for _ in range(40):
            if not ok_eval:
                break
            c = ev(cond, {'n': n, vid: x})
            if c is None:
                ok_eval = False
                break
            if not c:
                break
            a, b = ev(im, {'n': n, vid: x}), ev(iu, {'n': n, vid: x})
            if a is None or b is None:
                ok_eval = False
                break
            seq.append((a, b))
            x += step
        if not ok_eval:
            rep.broken(clause, 'the take-back loop of getHistory is not evaluable for game length %d' % n)
            return
        n_eval += 1
        want = [(k, k) for k in range(n - 1, -1, -1)]
        if seq != want:
            bad.append('%d moves played: takes back %s, wanted %s' % (n, [a for a, _ in seq] if all(a == b for a, b in seq) else seq, [k for k, _ in want]))
    rep.ob(clause, 'K12 finite evaluation', 'getHistory takes back the moves n-1 .. 0, each with its own undo record (game lengths 0..12)', not bad, R.site(f, te),
           '%d lengths evaluated; %s' % (n_eval, '; '.join(bad[:2]) if bad else 'all as wanted'), f.sname)
    # the only early exit from the loop is the clock test
    exits = [(b, s_) for b in body for s_ in f.blocks[b]['succ'] if s_ not in body and b != h]
    early_ok = True
    for b, s_ in exits:
        gs = G.guard_trees(f, set(f.blocks), s_ if (f.blocks[b].get('term') or {}).get('c') != 'BreakStmt' else b)
        if not any(side and any(isinstance(n_, dict) and n_.get('k') == 'call' and cname(n_) == 'Position::getHalfMoveClock' for n_ in walk(c)) and
                   isinstance(_strip7(c), dict) and _strip7(c).get('op') == '==' and (_strip7(_strip7(c).get('r')) or {}).get('cv') == 0 for c, side in gs):
            early_ok = False
    rep.ob(clause, 'K4 guard', 'getHistory stops early only at a position whose half-move clock is 0', early_ok, f.where, '%d early exit(s)' % len(exits), f.sname)


# ----------------------------------------------------------------------------- .12

def c12_dead_material_both_colours(fb, rep):
    """K10 colour symmetry of the dead-material test.  Game::insufficientMaterial() decides "all bishops on one square colour"
    and similar facts over the men of *both* sides; every two-type piece set it builds must therefore join the white and the
    black piece of one kind.  A set that names the same colour twice ignores the other side's men: K+B v K+B with
    opposite-coloured bishops is then declared dead although mate is possible, and the console refuses every move."""
    clause = 'C11.12'
    f = fb.find1('Game::insufficientMaterial')
    if rep.need(clause, f, 'Game::insufficientMaterial') is None:
        return
    bking = fb.const('Piece::BKING')
    wking = fb.const('Piece::WKING')
    if rep.need(clause, None if None in (bking, wking) else 1, 'Piece constants') is None:
        return
    seen, n = set(), 0
    for b, i, e in f.events():
        for x in walk(e):
            if isinstance(x, dict) and x.get('k') == 'call' and cname(x) == 'Position::pieceTypeBB' and len(x.get('args', [])) == 2:
                key = (e.get('ln'), show(x, 80))
                if key in seen:
                    continue
                seen.add(key)
                n += 1
                a = [(_strip7(y) or {}).get('cv') for y in x['args']]
                ok = None not in a and a[0] != a[1] and abs(a[0] - a[1]) == bking - wking
                rep.ob(clause, 'K10 colour symmetry', 'insufficientMaterial: a two-type piece set joins the white and the black piece of one kind', ok, R.site(f, e), show(x, 80), f.sname)
    rep.floor(clause, 'two-type piece sets in insufficientMaterial', n, 1)
