"""C04 - announced mates are real.  One clause is decided:
 .1 K10 mate-distance encoding agreement across every encoder and decoder of the engine, by
        exhaustive constant evaluation over a finite (n, ply, clock) domain:
        encoders  - the mated score of negaScout / quiesce, TBGenerator::probeDTM (win / loss)
        decoders  - rule50Margin (plies to mate), TBProbe::extendPV's 50-move test, the UCI
                    conversion in Search::notifyPV, the TT ply shift (setScore / getScore),
                    the depth cut-off of iterativeDeepening (MATE0 - |score|)
"""
from ..core import const_of, cname, ap, walk, show, strip_not, eff_cond
from ..peval import Evaluator, Unknown
from .. import regions as G
from .. import rules as R

EXPLANATION = (
    'Mate-distance encoding agreement decided by exhaustive constant evaluation of the source expressions over n = 0..60 moves, '
    'ply = 0..40, clock in {0, 37, 98, 99, 100}: the win / loss scores produced by TBGenerator::probeDTM and the checkmate score of '
    'negaScout and quiesce are the same linear family (win in n at ply p: MATE0 - p - 2n, mated in n: -(MATE0 - p - 2n - 1)); composed '
    'with each decoder the distance is recovered exactly: rule50Margin returns (100 - clock) - pliesToMate with pliesToMate = 2n - 1 '
    'for the winner and 2n for the loser; TBProbe::extendPV applies the same inequality; Search::notifyPV prints mate n / mate -n; the '
    'TT stores a ply-independent value (read at another ply the score is that of the same n); every mate score of the domain is '
    'classified by isWinScore / isLoseScore and fits the 16-bit score field.'
    ' (2) a score found by searching after a null move leaves negaScout only after it was shown not to be a win score; (3) the check-evasion generator is complete (a node in check without evasions is scored as mate).'
    ' Added later; (6) every TranspositionTable insert in negaScout is guarded by the flag derived from the singular-move test (unrestricted search). (7) forward-pruning skips in the move loop require a non-losing running maximum. (8) a move deferred by the ABDADA first pass (marked BUSY - reduction) is not skipped by the second pass, for every reduction 0..15. (9) a recursive call that can be reached with the exclusive-probe request still set is followed directly by the BUSY test on its result; every other recursive call is made with the request cleared. (10) = C12.1 an installed on-demand table has its region reserved on every exit of updateTB / clear / reSize. (11) = C01.6 the tables that decide whether a double push records an en-passant square are exact for all 8 files. (12) around the null move, the value restored with setEpSquare / setHalfMoveClock was saved before that setter cleared it.')
UNDECIDED = ('that a reported mate exists (game-tree semantics); soundness of pruning near mate scores (a rule "every pruning is guarded '
             'by normalBound" would also fire on removing a provably redundant conjunct, i.e. on a behaviour-preserving edit - declined).')
ASSUMPTIONS = ['domain: mates in 0..60 moves at plies 0..40 (covers every distance an 8-bit tablebase state or a search line can encode)']

N_RANGE = range(0, 61)
PLY_RANGE = range(0, 41, 1)
HMC = (0, 37, 98, 99, 100)


def _strip(t):
    while isinstance(t, dict) and t.get('k') == 'cast':
        t = t.get('e')
    return t


def run(fb, rep, tier):
    c1_encoding(fb, rep, 'C04.1')
    c2_unproven_mates(fb, rep, 'C04.2')
    # a node in check whose evasion list is empty is scored as checkmate: the list must be complete (shared with C01.1)
    from . import C01
    C01.c1_masks(fb, rep, clause='C04.3', only=('MoveGen::checkEvasions',))
    c4_bound_types(fb, rep, 'C04.4')
    # .5 mate scores are stored relative to the node and read back relative to the reader: the ply-shift codec and every
    # decode / re-store pair of the hash table agree on the ply (shared with C08.4) - a score shifted the wrong way is a
    # mate announced too short
    from . import C08
    C08.c4_plyshift(fb, rep, clause='C04.5')
    C08.restore_ply_agreement(fb, rep, 'C04.5')
    c6_no_store_from_restricted_search(fb, rep, 'C04.6')
    c7_pruning_needs_alternative(fb, rep, 'C04.7')
    c8_deferred_moves_retried(fb, rep, 'C04.8')
    c9_busy_is_not_a_score(fb, rep, 'C04.9')
    # .10 the on-demand tablebase answers with exact mate distances, which the search announces without further search: an
    # installed table whose bytes are open to ordinary hash stores answers with garbage (shared with C12.1 / C08.7)
    from . import C12
    C12.c1_typestate(fb, rep, 'C04.10')
    # .11 a check that can be answered only by an en-passant capture is not mate: the tables that decide whether a double push
    # records an en-passant square are exact for all 8 files (shared with C01.6)
    rep.floor('C04.11', 'en-passant mask tables', C01.ep_tables(fb, rep, 'C04.11'), 2)
    c12_null_move_saves_before_it_clears(fb, rep, 'C04.12')


def encoders(fb, rep, clause):
    """(win(n, ply), loss(n, ply)) as callables built from the probeDTM assignment trees."""
    ev = Evaluator(fb)
    pd = [f for f in fb.find('TBGenerator::probeDTM')]
    if rep.need(clause, pd, 'TBGenerator::probeDTM') is None:
        return None
    f = pd[0]
    trees = []
    mate0_q = 'SearchConst::MATE0'
    ints = [p_ for p_ in f.d.get('params', []) if (p_.get('t') or '') == 'int']
    if rep.need(clause, ints, 'the ply parameter of probeDTM') is None:
        return None
    ply_id = ints[0]['id']
    for b, i, e in f.events():
        if e.get('k') == 'asg' and e.get('op') == '=' and any(n.get('q') == mate0_q for n in walk(e.get('r'))):
            g = G.guards_of(f, set(f.blocks), b)
            trees.append((e.get('r'), g, e))
    win = next((t for t, g, e in trees if any('getMateInN' in x and not x.startswith('!') for x in g)), None)
    loss = next((t for t, g, e in trees if any('getMatedInN' in x and not x.startswith('!') for x in g)), None)
    if rep.need(clause, win, 'win score expression in probeDTM') is None or rep.need(clause, loss, 'loss score expression in probeDTM') is None:
        return None

    def mk(tree):
        others = {n['id'] for n in walk(tree) if n.get('k') == 'var' and 'id' in n and 'cv' not in n and n['id'] != ply_id}
        if len(others) != 1:
            raise Unknown('the score expression has %d free variables besides the ply' % len(others))
        n_id = next(iter(others))

        def fn(n, ply):
            return ev.eval(tree, {('v', n_id): n, ('v', ply_id): ply})
        return fn
    try:
        mw, ml = mk(win), mk(loss)
    except Unknown as ex:
        rep.broken(clause, 'probeDTM: %s' % ex)
        return None
    return ev, mw, ml, f


def c1_encoding(fb, rep, clause):
    enc = encoders(fb, rep, clause)
    if enc is None:
        return
    ev, win, loss, pdf = enc
    mate0 = fb.const('SearchConst::MATE0')
    try:
        # the family itself
        bad = [(n, p) for n in N_RANGE for p in PLY_RANGE if n >= 1 and win(n, p) != mate0 - p - 2 * n]
        bad2 = [(n, p) for n in N_RANGE for p in PLY_RANGE if loss(n, p) != -(mate0 - p - 2 * n - 1)]
        rep.ob(clause, 'K10 encoding', 'probeDTM encodes "mate in n at ply p" as MATE0 - p - 2n and "mated in n" as -(MATE0 - p - 2n - 1)', not bad and not bad2, pdf.where,
               'first deviations %s %s' % (bad[:2], bad2[:2]), pdf.sname)
    except Unknown as ex:
        rep.broken(clause, 'constant evaluation of probeDTM scores failed: %s' % ex)
        return
    # checkmate score of the search == mated in 0
    for nm in ('Search::negaScout', 'Search::quiesce'):
        for f in fb.find(nm):
            if len(f.blocks) < 20:
                continue
            found = 0
            wrong = []
            seen_ln = set()
            for b, i, e in f.events():
                for nd in walk(e):
                    if nd.get('k') == 'un' and nd.get('op') == '-' and any(n.get('q') == 'SearchConst::MATE0' for n in walk(nd)):
                        inner = nd.get('e')
                        if any(n.get('k') == 'call' for n in walk(inner)):
                            continue
                        pl = [n for n in walk(nd) if n.get('k') == 'var' and n.get('vk') == 'param' and n.get('t') == 'int']
                        if len({n.get('id') for n in pl}) != 1 or any(n.get('k') == 'var' and 'cv' not in n and n.get('vk') != 'param' for n in walk(nd)):
                            continue
                        if not pl or (e.get('ln'), show(nd)) in seen_ln:
                            continue
                        seen_ln.add((e.get('ln'), show(nd)))
                        try:
                            vals = [(p, ev.eval(nd, {('v', pl[0].get('id')): p})) for p in PLY_RANGE]
                        except Unknown:
                            continue
                        if all(v == loss(0, p) for p, v in vals):
                            found += 1
                        else:
                            wrong.append('%s:%s %s' % (f.file, e.get('ln'), show(nd)))
            rep.ob(clause, 'K10 encoding', '%s: every "-(MATE0 - ... ply ...)" checkmate score is "mated in 0" of the same family' % (f.name if '<' in f.name else f.sname),
                   found >= 1 and not wrong, f.where, '%d matching expressions; deviating: %s' % (found, wrong), f.sname)
    # decoder: rule50Margin
    rm = fb.find1('rule50Margin')
    if rep.need(clause, rm, 'rule50Margin'):
        pl_ = rm.d.get('params', [])
        ps = {'dtmScore': pl_[0]['id'], 'ply': pl_[1]['id'], 'hmc': pl_[2]['id']} if len(pl_) >= 3 else {}
        bad = []
        n_eval = 0
        try:
            for n in N_RANGE:
                for p in PLY_RANGE:
                    for h in HMC:
                        for s, plies in (((win(n, p), 2 * n - 1) if n >= 1 else (None, None)), (loss(n, p), 2 * n)):
                            if s is None:
                                continue
                            r = ev.run(rm, {('v', ps['dtmScore']): s, ('v', ps['ply']): p, ('v', ps['hmc']): h})
                            n_eval += 1
                            if r['ret'] != (100 - h) - plies:
                                bad.append((n, p, h, s, r['ret'], (100 - h) - plies))
        except (Unknown, KeyError) as ex:
            rep.broken(clause, 'constant evaluation of rule50Margin failed: %s' % ex)
            bad = None
        if bad is not None:
            rep.ob(clause, 'K10 decoder', 'rule50Margin(score, ply, clock) == (100 - clock) - pliesToMate for every encoded win (2n-1 plies) and loss (2n plies)', not bad, rm.where,
                   '%d evaluations; first deviations (n, ply, clock, score, got, want): %s' % (n_eval, bad[:3]), rm.sname)
    # decoder: extendPV's inequality (same plies-to-mate term)
    ex = fb.find1('TBProbe::extendPV')
    if rep.need(clause, ex, 'TBProbe::extendPV'):
        terms = []
        for bid, blk in ex.blocks.items():
            t = blk.get('term')
            c = t.get('cond') if t else None
            for nd in walk(c) if c else []:
                if nd.get('k') == 'bin' and nd.get('op') in ('<=', '>') and 'MATE0' in show(nd.get('l')) and 'getHalfMoveClock' in show(nd.get('r')):
                    terms.append(nd)
        rep.floor(clause, '50-move tests in extendPV', len(terms), 2)
        bad = []
        try:
            for nd in terms:
                sv = [n for c_ in walk(nd.get('l')) if c_.get('k') == 'call' and cname(c_) in ('std::abs', 'abs') for n in walk(c_) if n.get('k') == 'var' and 'id' in n]
                pv = [n for n in walk(nd.get('l')) if n.get('k') == 'var' and 'id' in n and 'cv' not in n and n.get('id') not in {x.get('id') for x in sv}]
                for n in N_RANGE:
                    for p in PLY_RANGE:
                        for s, plies in (((win(n, p), 2 * n - 1) if n >= 1 else (None, None)), (loss(n, p), 2 * n)):
                            if s is None:
                                continue
                            env = {('v', sv[0]['id']): s}
                            if pv:
                                env[('v', pv[0]['id'])] = p
                            v = ev.eval(nd.get('l'), env)
                            if v != plies:
                                bad.append((n, p, s, v, plies))
        except (Unknown, KeyError, IndexError) as exn:
            rep.broken(clause, 'constant evaluation of the extendPV distance term failed: %s' % exn)
            bad = None
        if bad is not None:
            rep.ob(clause, 'K10 decoder', 'extendPV measures the distance to mate with the same term as rule50Margin', not bad, ex.where, str(bad[:3]), ex.sname)
    # decoder: UCI conversion
    npv = next((f for f in fb.find('Search::notifyPV') if any('MATE0' in show(e.get('r')) for _, _, e in f.events() if e.get('k') == 'asg')), None)
    if rep.need(clause, npv, 'Search::notifyPV'):
        conv = {}
        for b, i, e in npv.events():
            if e.get('k') == 'asg' and isinstance(e.get('l'), dict) and e['l'].get('k') == 'var' and any(n.get('q') == 'SearchConst::MATE0' for n in walk(e.get('r'))) and \
                    any(n.get('k') == 'var' and n.get('id') == e['l'].get('id') for n in walk(e.get('r'))):
                g = G.guards_of(npv, set(npv.blocks), b)
                kind = 'win' if any('isWinScore' in x and not x.startswith('!') for x in g) else ('loss' if any('isLoseScore' in x and not x.startswith('!') for x in g) else None)
                conv[kind] = (e.get('r'), e['l'].get('id'))
        bad = []
        try:
            if 'win' in conv and 'loss' in conv:
                for n in N_RANGE:
                    if n >= 1:
                        v = ev.eval(conv['win'][0], {('v', conv['win'][1]): win(n, 0)})
                        if v != n:
                            bad.append(('win', n, v))
                    if n >= 1:
                        v = ev.eval(conv['loss'][0], {('v', conv['loss'][1]): loss(n, 0)})
                        if v != -n:
                            bad.append(('loss', n, v))
            else:
                bad.append(('conversions not found', sorted(map(str, conv))))
        except Unknown as exn:
            rep.broken(clause, 'constant evaluation of the UCI mate conversion failed: %s' % exn)
            bad = None
        if bad is not None:
            rep.ob(clause, 'K10 decoder', 'notifyPV prints an encoded mate in n as "mate n" and mated in n as "mate -n" (root ply)', not bad, npv.where, str(bad[:3]), npv.sname)
    # TT ply shift composition
    g = fb.find1('TranspositionTable::TTEntry::getScore')
    s = fb.find1('TranspositionTable::TTEntry::setScore')
    if rep.need(clause, g, 'TTEntry::getScore') and rep.need(clause, s, 'TTEntry::setScore'):
        bad = []
        try:
            gp = {'ply': g.d['params'][0]['id']}
            sp = {'score': s.d['params'][0]['id'], 'ply': s.d['params'][1]['id']}
            for n in range(0, 61, 3):
                for p1 in range(0, 41, 5):
                    for p2 in range(0, 41, 7):
                        for fn in (win, loss):
                            if fn is win and n == 0:
                                continue
                            r1 = ev.run(s, {'this.data': 0, ('v', sp['score']): fn(n, p1), ('v', sp['ply']): p1})
                            r2 = ev.run(g, {'this.data': r1['env']['this.data'], ('v', gp['ply']): p2})
                            if r2['ret'] != fn(n, p2):
                                bad.append((n, p1, p2, r2['ret'], fn(n, p2)))
        except (Unknown, KeyError) as exn:
            rep.broken(clause, 'constant evaluation of the TT score codec failed: %s' % exn)
            bad = None
        if bad is not None:
            rep.ob(clause, 'K10 decoder', 'a mate score stored at ply p1 and read at ply p2 is the score of the same mate distance at p2', not bad, g.where, str(bad[:3]), g.sname)
    # classification and range
    w = fb.find1('SearchConst::isWinScore')
    l = fb.find1('SearchConst::isLoseScore')
    if rep.need(clause, w, 'isWinScore') and rep.need(clause, l, 'isLoseScore'):
        bad = []
        try:
            for n in N_RANGE:
                for p in (0, 40):
                    if n >= 1 and not ev.run(w, {('v', w.d['params'][0]['id']): win(n, p)})['ret']:
                        bad.append(('win not classified', n, p))
                    if not ev.run(l, {('v', l.d['params'][0]['id']): loss(n, p)})['ret']:
                        bad.append(('loss not classified', n, p))
                    if not (-32768 <= loss(n, p) and win(max(n, 1), p) + p <= 32767):
                        bad.append(('range', n, p))
        except Unknown as exn:
            rep.broken(clause, 'constant evaluation of the score classification failed: %s' % exn)
            bad = None
        if bad is not None:
            rep.ob(clause, 'K12 range', 'every encoded mate score is classified as win/loss and fits 16 bits after the ply shift', not bad, w.where, str(bad[:3]), '')
    it = fb.find1('Search::iterativeDeepening')
    if it is not None:
        ok = any(e.get('k') == 'decl' and any(isinstance(_strip(v.get('init')), dict) and _strip(v['init']).get('k') == 'bin' and _strip(v['init']).get('op') == '-' and
                                              (_strip(_strip(v['init']).get('l')) or {}).get('q') == 'SearchConst::MATE0' and
                                              any(c_.get('k') == 'call' and cname(c_) in ('std::abs', 'abs') for c_ in walk(_strip(v['init']).get('r'))) for v in e.get('vars', []))
                 for _, _, e in it.events())
        rep.ob(clause, 'K10 decoder', 'iterativeDeepening stops deepening when the depth covers the plies to mate (MATE0 - |score|)', ok, it.where, '', it.sname)


# --------------------------------------------------------------------------- .2 unproven mate scores

def c2_unproven_mates(fb, rep, clause):
    """K15 provenance / K3 typestate: a score obtained by searching after a null move (the side to move was
    flipped without a move being made) is not the score of a legal continuation.  Such a value may leave
    negaScout - through logAndReturn, a plain return, the hash table or the search-tree info - only after it
    was shown not to be a win score or replaced by a non-win bound."""
    from ..flow import Flow
    fs = [f for f in fb.find('Search::negaScout') if f.d.get('targs') in (['true'], ['false'])]
    if len(fs) != 2:
        rep.broken(clause, 'expected two instantiations of Search::negaScout, found %d' % len(fs))
        return
    n_src = n_sink = 0
    for f in sorted(fs, key=lambda x: x.key):
        tag = 'negaScout<%s>' % f.d['targs'][0]
        viol = {}
        sources = set()
        sinks = set()

        def mentions(t, ids):
            return any(n.get('k') == 'var' and n.get('id') in ids for n in walk(t))

        def is_flip(e):
            if e.get('k') != 'call' or cname(e) != 'Position::setWhiteMove':
                return False
            a = _strip(e['args'][0]) if e.get('args') else None
            return isinstance(a, dict) and a.get('k') == 'un' and a.get('op') == '!' and any(n.get('k') == 'call' and cname(n) == 'Position::isWhiteMove' for n in walk(a))

        def searches(t):
            return any(n.get('k') == 'call' and cname(n) in ('Search::negaScout', 'Search::quiesce') for n in walk(t))

        def assign(cfg, vid, rhs, pos):
            flipped, tainted, nonwin = cfg
            tainted = set(tainted)
            nonwin = set(nonwin)
            nonwin.discard(vid)
            if rhs is not None and searches(rhs) and flipped:
                tainted.add(vid)
                sources.add(pos)
            elif rhs is not None and mentions(rhs, tainted):
                r = _strip(rhs)
                bounded = False
                if isinstance(r, dict) and r.get('k') == 'call' and cname(r) == 'std::min' and len(r.get('args', [])) == 2:
                    for a in r['args']:
                        a = _strip(a)
                        if isinstance(a, dict) and a.get('k') == 'var' and a.get('id') in nonwin:
                            bounded = True
                if bounded:
                    tainted.discard(vid)
                    nonwin.add(vid)
                else:
                    tainted.add(vid)
            else:
                tainted.discard(vid)
                r = _strip(rhs) if rhs is not None else None
                if isinstance(r, dict) and r.get('k') == 'var' and r.get('id') in nonwin:
                    nonwin.add(vid)
            return (flipped, frozenset(tainted), frozenset(nonwin))

        def transfer(e, cfg, pos):
            flipped, tainted, nonwin = cfg
            k = e.get('k')
            if is_flip(e):
                return [(not flipped, tainted, nonwin)]
            if k == 'decl':
                for v in e.get('vars', []):
                    cfg = assign(cfg, v['id'], v.get('init'), pos)
                return [cfg]
            if k == 'asg':
                l = e.get('l')
                if isinstance(l, dict) and l.get('k') == 'var' and 'id' in l:
                    rhs = e.get('r') if e.get('op') == '=' else {'k': 'bin', 'op': e['op'][:-1], 'l': l, 'r': e.get('r')}
                    return [assign(cfg, l['id'], rhs, pos)]
                if tainted and mentions(e.get('r'), tainted):
                    viol[pos] = ('stored into %s' % show(l), e)
                return [cfg]
            if k == 'ret' and e.get('e') is not None and tainted:
                inner = _strip(e['e'])
                if not (isinstance(inner, dict) and inner.get('k') == 'call') and mentions(e['e'], tainted):
                    viol[pos] = ('returned', e)
                return [cfg]
            if k == 'call':
                n = cname(e)
                is_sink = n.endswith('::operator()') and (e.get('recv') or {}).get('n') == 'logAndReturn' or n in ('Move::setScore', 'TranspositionTable::insert')
                if is_sink:
                    sinks.add(pos)
                    if tainted and any(mentions(a, tainted) for a in e.get('args', [])):
                        viol[pos] = ('passed to %s' % n.split('::')[-1].replace('operator()', 'logAndReturn'), e)
            return [cfg]

        def refine(atom, tv, cfg):
            flipped, tainted, nonwin = cfg
            a = _strip(atom)
            if isinstance(a, dict) and a.get('k') == 'call' and cname(a) in ('SearchConst::isWinScore', 'isWinScore') and a.get('args'):
                v = _strip(a['args'][0])
                if isinstance(v, dict) and v.get('k') == 'var' and 'id' in v and not tv:
                    return [(flipped, frozenset(set(tainted) - {v['id']}), frozenset(set(nonwin) | {v['id']}))]
            return [cfg]
        fl = Flow(f, transfer, refine, max_configs=512).run({(False, frozenset(), frozenset())})
        if fl.overflow:
            rep.broken(clause, tag + ': configuration overflow')
            continue
        n_src += len(sources)
        n_sink += len(sinks)
        rep.ob(clause, 'K3 typestate', '%s: a score found by searching after a null move leaves the node only after it is known not to be a win score' % tag, not viol,
               R.site(f, sorted(viol.items())[0][1][1]) if viol else f.where,
               '; '.join('line %s: %s' % (e.get('ln'), w) for _, (w, e) in sorted(viol.items())) if viol else '%d null-move search result(s), %d score sinks' % (len(sources), len(sinks)), f.sname)
        unbalanced = [c for c in fl.at_exit if c[0]]
        rep.ob(clause, 'K1 pairing', '%s: the side to move is flipped back on every path to the exit' % tag, not unbalanced, f.where, '', f.sname)
    rep.floor(clause, 'null-move search results', n_src, 2)
    rep.floor(clause, 'score sinks in negaScout', n_sink, 40)


# ----------------------------------------------------------------------------- .4

TT_ENTRY = 'TranspositionTable::TTEntry'


def _strip4(t):
    while isinstance(t, dict) and t.get('k') == 'cast':
        t = t.get('e')
    return t


def _single_def_inits(f):
    """{var id: initialiser} of locals that are declared with an initialiser and never assigned again"""
    inits, assigned = {}, set()
    for _, _, e in f.events():
        if e.get('k') == 'decl':
            for v in e.get('vars', []):
                if v.get('init') is not None:
                    inits[v['id']] = v['init']
        for n in walk(e):
            if n.get('k') in ('asg', 'incdec'):
                tgt = _strip4(n.get('l') if n.get('k') == 'asg' else n.get('e'))
                if isinstance(tgt, dict) and tgt.get('k') == 'var':
                    assigned.add(tgt.get('id'))
    return {k: v for k, v in inits.items() if k not in assigned}


def c4_bound_types(fb, rep, clause):
    """K4 bound-type discipline.  A hash / tablebase entry carries (score, type): EXACT, lower bound (GE) or upper
    bound (LE).  Where negaScout *adopts* the entry's score - assigns it to a local - under a comparison that makes
    the adopted value lower than what it replaces or is compared with (`entry < x`), the entry is used as an upper bound
    and the guards must leave only {EXACT, LE} possible; for `entry > x` only {EXACT, GE}.  A mated score taken from a
    GE entry, or a mating score from an LE entry, announces a mate that was never proved."""
    names = {n: fb.const('TType::' + n) for n in ('T_EXACT', 'T_GE', 'T_LE', 'T_EMPTY')}
    if rep.need(clause, None if None in names.values() else names, 'TType enumerators') is None:
        return
    allowed = {'upper': {names['T_EXACT'], names['T_LE']}, 'lower': {names['T_EXACT'], names['T_GE']}}
    cands = [f for f in fb.funcs.values() if f.has_cfg and f.sname == 'Search::negaScout']
    rep.floor(clause, 'negaScout instantiations', len(cands), 2)
    n_sites = 0
    ordn = {}
    for f in sorted(cands, key=lambda x: x.name):
        # entry objects and their score / type aliases
        ents = {}
        for b, i, e in f.events():
            if e.get('k') == 'decl':
                for v in e.get('vars', []):
                    if (v.get('rc') or '') == TT_ENTRY:
                        ents[v['id']] = v['n']

        def of_entry(t, meth):
            t = _strip4(t)
            if isinstance(t, dict) and t.get('k') == 'call' and cname(t) == TT_ENTRY + '::' + meth:
                r = _strip4(t.get('recv'))
                if isinstance(r, dict) and r.get('k') == 'var' and r.get('id') in ents:
                    return r['id']
            return None
        score_alias, type_alias = {}, {}
        for b, i, e in f.events():
            if e.get('k') == 'decl':
                for v in e.get('vars', []):
                    x = of_entry(v.get('init'), 'getScore')
                    if x is not None:
                        score_alias[v['id']] = x
                    x = of_entry(v.get('init'), 'getType')
                    if x is not None:
                        type_alias[v['id']] = x

        def score_of(t):
            t = _strip4(t)
            x = of_entry(t, 'getScore')
            if x is None and isinstance(t, dict) and t.get('k') == 'var':
                x = score_alias.get(t.get('id'))
            return x

        def type_of(t):
            t = _strip4(t)
            x = of_entry(t, 'getType')
            if x is None and isinstance(t, dict) and t.get('k') == 'var':
                x = type_alias.get(t.get('id'))
            return x

        inits = _single_def_inits(f)

        def tv(t, ent, val, depth=0):
            """three-valued truth of condition t when the type of entry `ent` is val"""
            t = _strip4(t)
            if not isinstance(t, dict):
                return None
            if t.get('k') == 'var' and t.get('id') in inits and depth < 4 and type_of(t) is None and score_of(t) is None:
                return tv(inits[t['id']], ent, val, depth + 1)
            if t.get('k') == 'un' and t.get('op') == '!':
                x = tv(t.get('e'), ent, val)
                return None if x is None else (not x)
            if t.get('k') == 'bin' and t.get('op') in ('&&', '||'):
                a, b_ = tv(t.get('l'), ent, val), tv(t.get('r'), ent, val)
                if t['op'] == '&&':
                    return False if (a is False or b_ is False) else (True if (a is True and b_ is True) else None)
                return True if (a is True or b_ is True) else (False if (a is False and b_ is False) else None)
            if t.get('k') == 'bin' and t.get('op') in ('==', '!='):
                for x, y in ((t.get('l'), t.get('r')), (t.get('r'), t.get('l'))):
                    c = const_of(_strip4(y))
                    if type_of(x) == ent and c is not None:
                        return (val == c) if t['op'] == '==' else (val != c)
            return None
        for b, i, e in f.events():
            if e.get('k') != 'asg' or e.get('op') != '=':
                continue
            ent = score_of(e.get('r'))
            lhs = _strip4(e.get('l'))
            if ent is None or not (isinstance(lhs, dict) and lhs.get('k') == 'var'):
                continue
            guards = G.guard_trees(f, set(f.blocks), b)
            direction = None
            for c, side in guards:
                c = _strip4(c)
                if isinstance(c, dict) and c.get('k') == 'bin' and c.get('op') in ('<', '<=', '>', '>='):
                    l_is, r_is = score_of(c.get('l')) == ent, score_of(c.get('r')) == ent
                    if l_is == r_is:
                        continue
                    less = c['op'] in ('<', '<=')
                    if not side:
                        less = not less
                    if r_is:
                        less = not less
                    direction = 'upper' if less else 'lower'
            if direction is None:
                continue
            n_sites += 1
            ordn[(f.name, ent, direction)] = ordn.get((f.name, ent, direction), 0) + 1
            possible = {v for v in names.values() if all(tv(c, ent, v) is None or tv(c, ent, v) == side for c, side in guards)}
            inv = {v: k for k, v in names.items()}
            rep.ob(clause, 'K4 bound-type discipline', '%s: the score of the %s entry adopted as %s bound (#%d) is taken only from entries of a type that proves it'
                   % (f.name.replace('Search::', ''), 'tablebase' if 'tb' in ents[ent].lower() else 'hash', direction, ordn[(f.name, ent, direction)]), possible <= allowed[direction], R.site(f, e),
                   'entry %s; types possible under the guards: %s; allowed: %s' % (ents[ent], sorted(inv[v] for v in possible), sorted(inv[v] for v in allowed[direction])), f.sname)
    rep.floor(clause, 'adoptions of an entry score under a comparison', n_sites, 6)
    # TTEntry::isCutOff: an entry cuts off only as what its type proves
    ic = fb.find1(TT_ENTRY + '::isCutOff')
    if rep.need(clause, ic, TT_ENTRY + '::isCutOff') is None:
        return
    params = [p_.get('id') for p_ in ic.d.get('params', [])]
    sc_ids, ty_ids = set(), set()
    for b, i, e in ic.events():
        if e.get('k') == 'decl':
            for v in e.get('vars', []):
                init = _strip4(v.get('init'))
                if isinstance(init, dict) and init.get('k') == 'call' and cname(init) == TT_ENTRY + '::getScore':
                    sc_ids.add(v['id'])
                if isinstance(init, dict) and init.get('k') == 'call' and cname(init) == TT_ENTRY + '::getType':
                    ty_ids.add(v['id'])

    def is_score(t):
        t = _strip4(t)
        return isinstance(t, dict) and ((t.get('k') == 'var' and t.get('id') in sc_ids) or (t.get('k') == 'call' and cname(t) == TT_ENTRY + '::getScore'))

    def is_type(t):
        t = _strip4(t)
        return isinstance(t, dict) and ((t.get('k') == 'var' and t.get('id') in ty_ids) or (t.get('k') == 'call' and cname(t) == TT_ENTRY + '::getType'))

    def is_param(t, k):
        t = _strip4(t)
        return isinstance(t, dict) and t.get('k') == 'var' and len(params) > k and t.get('id') == params[k]

    inits3 = _single_def_inits(ic)

    def tv3(t, v, P, Q, depth=0):
        t = _strip4(t)
        if not isinstance(t, dict):
            return None
        if t.get('k') == 'var' and t.get('id') in inits3 and depth < 4 and not is_type(t) and not is_score(t):
            return tv3(inits3[t['id']], v, P, Q, depth + 1)
        if t.get('k') == 'un' and t.get('op') == '!':
            x = tv3(t.get('e'), v, P, Q)
            return None if x is None else (not x)
        if t.get('k') == 'bin' and t.get('op') in ('&&', '||'):
            a, b_ = tv3(t.get('l'), v, P, Q), tv3(t.get('r'), v, P, Q)
            if t['op'] == '&&':
                return False if (a is False or b_ is False) else (True if (a is True and b_ is True) else None)
            return True if (a is True or b_ is True) else (False if (a is False and b_ is False) else None)
        if t.get('k') == 'bin' and t.get('op') in ('==', '!='):
            for x, y in ((t.get('l'), t.get('r')), (t.get('r'), t.get('l'))):
                c = const_of(_strip4(y))
                if is_type(x) and c is not None:
                    return (v == c) if t['op'] == '==' else (v != c)
        if t.get('k') == 'bin' and t.get('op') in ('<', '<=', '>', '>='):
            l, r, op = t.get('l'), t.get('r'), t['op']
            if not is_score(l) and is_score(r):
                l, r, op = r, l, {'<': '>', '<=': '>=', '>': '<', '>=': '<='}[op]
            if is_score(l):
                if op in ('>', '>=') and is_param(r, 1):
                    return False if not P else (True if op == '>=' else None)       # P: score >= beta
                if op in ('<', '<=') and is_param(r, 0):
                    return False if not Q else (True if op == '<=' else None)       # Q: score <= alpha
        return None
    n_ret = 0
    for b, i, e in ic.events():
        if e.get('k') != 'ret' or const_of(_strip4(e.get('e'))) != 1:
            continue
        n_ret += 1
        guards = G.guard_trees(ic, set(ic.blocks), b)

        def feasible(v, P, Q):
            return all(tv3(c, v, P, Q) is None or tv3(c, v, P, Q) == side for c, side in guards)
        bad = []
        if any(feasible(names['T_GE'], False, Q) for Q in (True, False)):
            bad.append('a lower-bound entry cuts off without score >= beta')
        if any(feasible(names['T_LE'], P, False) for P in (True, False)):
            bad.append('an upper-bound entry cuts off without score <= alpha')
        if any(feasible(names['T_EMPTY'], P, Q) for P in (True, False) for Q in (True, False)):
            bad.append('an empty entry cuts off')
        rep.ob(clause, 'K4 bound-type discipline', 'isCutOff: cut-off #%d is granted only to what the entry type proves (EXACT; GE with score >= beta; LE with score <= alpha)' % n_ret,
               not bad, R.site(ic, e), '; '.join(bad) or 'guards: %s' % [('' if s_ else '!') + show(c, 70) for c, s_ in guards], ic.sname)
    rep.floor(clause, 'cut-off grants in TTEntry::isCutOff', n_ret, 3)


# ----------------------------------------------------------------------------- .6

def c6_no_store_from_restricted_search(fb, rep, clause):
    """K4: the singular-extension test searches a node with one move excluded (sti.singularMove).  Whatever it finds - in
    particular "no legal move: mated" when the excluded move was the only one - is a statement about the restricted move set,
    not about the position, and must not reach the hash table under the position's key.  negaScout derives one flag for
    "this is an unrestricted search" from the singular-move test; every store into the table must be guarded by it."""
    cands = [f for f in fb.funcs.values() if f.has_cfg and f.sname == 'Search::negaScout']
    if rep.need(clause, cands, 'Search::negaScout') is None:
        return
    n = 0
    n_funcs = 0
    k_f = {}
    for f in sorted(cands, key=lambda x: x.name):
        # the restriction flag: a local initialised from `isEmpty()` of the singular move (or its negation)
        sing = set()
        for _, _, e in f.events():
            if e.get('k') == 'decl':
                for v in e.get('vars', []):
                    if any(x.get('k') == 'mem' and (x.get('f') or '').endswith('singularMove') for x in walk(v.get('init') or {})):
                        sing.add(v['id'])
        derived = {}
        changed = True
        while changed:
            changed = False
            for _, _, e in f.events():
                if e.get('k') == 'decl':
                    for v in e.get('vars', []):
                        if v['id'] in sing or v['id'] in derived or v.get('init') is None:
                            continue
                        init = _strip4(v['init'])
                        neg = False
                        while isinstance(init, dict) and init.get('k') == 'un' and init.get('op') == '!':
                            neg = not neg
                            init = _strip4(init.get('e'))
                        if isinstance(init, dict) and init.get('k') == 'var' and (init.get('id') in sing or init.get('id') in derived):
                            base_neg = derived.get(init['id'], False) if init['id'] in derived else False
                            derived[v['id']] = (neg != base_neg)
                            changed = True
        # polarity: sing vars are "restricted" when true (singularSearch = !isEmpty()); find how they were defined
        restricted_true = {}
        for _, _, e in f.events():
            if e.get('k') == 'decl':
                for v in e.get('vars', []):
                    if v['id'] in sing:
                        init = _strip4(v['init'])
                        neg = False
                        while isinstance(init, dict) and init.get('k') == 'un' and init.get('op') == '!':
                            neg = not neg
                            init = _strip4(init.get('e'))
                        # isEmpty() true = unrestricted; so `!isEmpty()` (neg) = restricted
                        restricted_true[v['id']] = neg
        for vid, negated in derived.items():
            base = next(iter(restricted_true.values()), True)
            restricted_true[vid] = (base != negated)
        if not restricted_true:
            continue            # the uninstantiated template pattern has no body
        n_funcs += 1
        for b, i, e in f.events():
            if not (e.get('k') == 'call' and cname(e).split('::')[-1] == 'insert' and ('TranspositionTable' in cname(e) or 'ClusterTT' in cname(e))):
                continue
            n += 1
            k_f[f.name] = k_f.get(f.name, 0) + 1
            guards = G.guard_trees(f, set(f.blocks), b)
            ok = False
            for c, side in guards:
                c = _strip4(c)
                if isinstance(c, dict) and c.get('k') == 'var' and c.get('id') in restricted_true:
                    # the store happens only when the flag says "unrestricted"
                    if side != restricted_true[c['id']]:
                        ok = True
            rep.ob(clause, 'K4 guard', '%s: hash store #%d happens only in an unrestricted search (not while a move is excluded for the singular test)' % (f.name.replace('Search::', ''), k_f[f.name]),
                   ok, R.site(f, e), 'guards: %s' % [('' if s_ else '!') + show(c, 40) for c, s_ in guards][-4:], f.sname)
    rep.floor(clause, 'negaScout instantiations with a singular-search flag', n_funcs, 2)
    rep.floor(clause, 'hash stores in negaScout', n, 8)


# ----------------------------------------------------------------------------- .7

def _local_guard_expansion(f):
    """Returns expand(c, side) -> [(atom, side)]: a guard that is a bool local declared with an initialiser and never assigned
    again is replaced by its initialiser (split into conjuncts), provided no variable of the initialiser can be assigned
    between the declaration and the place the local is tested without the declaration being executed again."""
    inits = _single_def_inits(f)
    decl_at = {}
    for b, i, e in f.events():
        if e.get('k') == 'decl':
            for v in e.get('vars', []):
                decl_at[v['id']] = (b, i)
    asg_at = {}
    for b, i, e in f.events():
        for n in walk(e):
            if isinstance(n, dict) and n.get('k') in ('asg', 'incdec'):
                tgt = _strip4(n.get('l') if n.get('k') == 'asg' else n.get('e'))
                if isinstance(tgt, dict) and tgt.get('k') == 'var':
                    asg_at.setdefault(tgt.get('id'), []).append((b, i))

    def stable(vid):
        if vid not in decl_at:
            return False
        bd, idd = decl_at[vid]
        used = [n.get('id') for n in walk(inits[vid]) if isinstance(n, dict) and n.get('k') == 'var' and n.get('vk') in ('local', 'param')]
        tests = [bid for bid, blk in f.blocks.items() if any(isinstance(n, dict) and n.get('k') == 'var' and n.get('id') == vid for n in walk((blk.get('term') or {}).get('cond')))]
        fwd, st = set(), [s_ for s_ in f.blocks[bd]['succ'] if s_ in f.blocks]
        while st:
            x = st.pop()
            if x in fwd or x == bd:
                continue
            fwd.add(x)
            st.extend(s_ for s_ in f.blocks[x]['succ'] if s_ in f.blocks)
        bwd, st = set(), list(tests)
        while st:
            x = st.pop()
            if x in bwd:
                continue
            bwd.add(x)
            if x != bd:
                st.extend(p_ for p_ in f.preds.get(x, []) if p_ in f.blocks)
        for u in used:
            for (b, i) in asg_at.get(u, []):
                after_decl = b in fwd or (b == bd and i > idd)
                before_test = b in bwd and not (b == bd and i < idd)
                if after_decl and before_test:
                    return False
        return True

    def expand(c, side, depth=0):
        c0 = _strip4(c)
        if isinstance(c0, dict) and depth < 6:
            if c0.get('k') == 'un' and c0.get('op') == '!':
                return expand(c0.get('e'), not side, depth + 1)
            if c0.get('k') == 'bin' and ((c0.get('op') == '&&' and side) or (c0.get('op') == '||' and not side)):
                return expand(c0['l'], side, depth + 1) + expand(c0['r'], side, depth + 1)
            if c0.get('k') == 'var' and c0.get('vk') == 'local' and c0.get('id') in inits and (c0.get('t') or '').replace('const ', '') == 'bool' and stable(c0['id']):
                return expand(inits[c0['id']], side, depth + 1)
        return [(c, side)]
    return expand


def c7_pruning_needs_alternative(fb, rep, clause):
    """K4: negaScout returns the best score over the moves it searched.  A move may be skipped *unsearched* in the move loop
    for three structural reasons (it is illegal, it is the move excluded by a singular test, it is deferred to the second
    ABDADA pass); every other `continue` is forward pruning and is sound for mate scores only while the node already has a
    non-losing alternative: its guards must include `!isLoseScore(best)` where `best` is the running maximum the node
    returns.  Testing alpha instead is vacuous (normalBound already implies it): with every searched move mated, the late
    quiet defences are pruned and the node reports "mated" - the parent announces a mate that does not exist."""
    cands = [f for f in fb.funcs.values() if f.has_cfg and f.sname == 'Search::negaScout' and len(f.blocks) > 50]
    if rep.need(clause, cands, 'Search::negaScout') is None:
        return
    n = 0
    for f in sorted(cands, key=lambda x: x.name):
        # the running maximum: `if (score > X) X = score`
        best = set()
        for b, i, e in f.events():
            if e.get('k') == 'asg' and e.get('op') == '=' and isinstance(_strip4(e.get('l')), dict) and _strip4(e['l']).get('k') == 'var' and isinstance(_strip4(e.get('r')), dict) and _strip4(e['r']).get('k') == 'var':
                x, sc = _strip4(e['l']), _strip4(e['r'])
                for c, side in G.guard_trees(f, set(f.blocks), b):
                    c = _strip4(c)
                    if side and isinstance(c, dict) and c.get('k') == 'bin' and c.get('op') == '>' and (_strip4(c.get('l')) or {}).get('id') == sc.get('id') and (_strip4(c.get('r')) or {}).get('id') == x.get('id') and x.get('vk') == 'local':
                        best.add(x['id'])
        # or `X = std::max(X, score)`
        for b, i, e in f.events():
            if e.get('k') == 'asg' and e.get('op') == '=' and isinstance(_strip4(e.get('l')), dict) and _strip4(e['l']).get('k') == 'var':
                r = _strip4(e.get('r'))
                if isinstance(r, dict) and r.get('k') == 'call' and cname(r) == 'std::max' and _strip4(e['l']).get('vk') == 'local' and \
                        any((_strip4(a) or {}).get('id') == _strip4(e['l']).get('id') for a in r.get('args', [])):
                    best.add(_strip4(e['l'])['id'])
        if rep.need(clause, best, 'the running maximum of ' + f.name) is None:
            return
        # the move loop: the natural loop whose header compares an index with the size of the move list
        k = 0
        expand = _local_guard_expansion(f)
        for bid, blk in sorted(f.blocks.items()):
            t = blk.get('term') or {}
            if t.get('c') != 'ContinueStmt' or bid in f.dead:
                continue
            gs = [a for c, s_ in G.guard_trees(f, set(f.blocks), bid) for a in expand(c, s_)]
            txt = [('' if s_ else '!') + show(c, 70) for c, s_ in gs]
            if not any(isinstance(n_, dict) and n_.get('k') == 'mem' and n_.get('f') == 'MoveList::size' for c, _s in gs for n_ in walk(c)):
                continue        # not the move loop of the node (its header compares the index with the move list's size)
            structural = any((not s_) and isinstance(_strip4(c), dict) and _strip4(c).get('k') == 'call' and cname(_strip4(c)) == 'MoveGen::isLegal' for c, s_ in gs) or \
                any('singularMove' in g and not g.startswith('!') for g in txt) or any('BUSY' in g and not g.startswith('!') for g in txt)
            if structural:
                continue
            n += 1
            k += 1
            ok = False
            for c, s_ in gs:
                c = _strip4(c)
                if (not s_) and isinstance(c, dict) and c.get('k') == 'call' and cname(c).split('::')[-1] == 'isLoseScore' and c.get('args') and (_strip4(c['args'][0]) or {}).get('id') in best:
                    ok = True
            rep.ob(clause, 'K4 guard', '%s: forward-pruning skip #%d in the move loop requires a non-losing alternative (!isLoseScore of the running maximum)' % (f.name.replace('Search::', ''), k),
                   ok, '%s:%s' % (f.file, t.get('ln') or blk.get('ln') or f.line), 'guards %s' % txt[-5:], f.sname)
    rep.floor(clause, 'forward-pruning skips in the move loop of negaScout', n, 2)


# ----------------------------------------------------------------------------- .8

def c8_deferred_moves_retried(fb, rep, clause):
    """K10 writer / reader agreement of the ABDADA deferral mark.  A move whose child is being searched by another thread is
    not searched in the first pass: its ordering score is overwritten with an encoding of the reduction it was going to get,
    and the second pass must search exactly those moves, with that reduction.  The mark written (`setScore(f(lmr))`), the
    second-pass skip test and the decoding of the reduction are evaluated against each other for every reduction 0..15: a
    marked move must not be skipped in the second pass (a skipped move is never searched in this node, and if it was the
    only defence the node reports a mate that does not exist), and the decoded reduction must be the encoded one."""
    busy = fb.const('SearchConst::BUSY')
    cands = [f for f in fb.funcs.values() if f.has_cfg and f.sname == 'Search::negaScout' and len(f.blocks) > 50]
    if rep.need(clause, cands, 'Search::negaScout') is None or rep.need(clause, busy, 'SearchConst::BUSY') is None:
        return
    has_busy = lambda t: any(isinstance(n, dict) and n.get('q') == 'SearchConst::BUSY' for n in walk(t))
    n_inst = 0
    for f in sorted(cands, key=lambda x: x.name):
        tag = f.name.replace('Search::', '')
        st = {}
        ev = Evaluator(fb, stubs={'Move::score': lambda e, t, env, d: st['score']})
        # the mark
        marks = [(b, i, e) for b, i, e in f.events() if e.get('k') == 'call' and cname(e) == 'Move::setScore' and e.get('args') and has_busy(e['args'][0])]
        if rep.need(clause, marks, 'the deferral mark setScore(... BUSY ...) in ' + tag) is None:
            continue
        free = {n['id'] for _, _, e in marks for n in walk(e['args'][0]) if isinstance(n, dict) and n.get('k') == 'var' and n.get('vk') == 'local'}
        if len(free) != 1:
            rep.broken(clause, '%s: the deferral mark is not a function of one local (the reduction): %d locals' % (tag, len(free)))
            continue
        lmr_id = next(iter(free))
        # the second-pass skip: a `continue` guarded by a comparison of a move's score with BUSY
        skips = []
        for bid, blk in sorted(f.blocks.items()):
            if (blk.get('term') or {}).get('c') != 'ContinueStmt' or bid in f.dead:
                continue
            gs = [(c, s) for c, s in G.guard_trees(f, set(f.blocks), bid)]
            rel = [(c, s) for c, s in gs if has_busy(c) and any(isinstance(n, dict) and n.get('k') == 'call' and cname(n) == 'Move::score' for n in walk(c))]
            if rel:
                passv = [(c, s) for c, s in gs if isinstance(_strip4(c), dict) and _strip4(c).get('k') == 'bin' and (_strip4(_strip4(c).get('l')) or {}).get('k') == 'var' and
                         (_strip4(_strip4(c).get('l')) or {}).get('vk') == 'local' and 'cv' in (_strip4(_strip4(c).get('r')) or {}) and _strip4(c).get('op') in ('>', '>=', '!=', '==')]
                skips.append((bid, rel, passv))
        if rep.need(clause, skips, 'the second-pass skip test on the deferral mark in ' + tag) is None:
            continue
        # the decoder: an assignment to the reduction local from a move's score and BUSY
        decs = [(b, i, e) for b, i, e in f.events() if e.get('k') == 'asg' and e.get('op') == '=' and (_strip4(e.get('l')) or {}).get('id') == lmr_id and has_busy(e.get('r'))]
        n_inst += 1
        bad_skip, bad_dec = [], []
        try:
            for lmr in range(0, 16):
                for b, i, e in marks:
                    enc = ev.eval(e['args'][0], {('v', lmr_id): lmr})
                    st['score'] = enc
                    for bid, rel, passv in skips:
                        if all(bool(ev.eval(c, {})) == s for c, s in rel):
                            bad_skip.append('reduction %d is marked %d, which the second pass skips' % (lmr, enc))
                    for db, di, de in decs:
                        got = ev.eval(de['r'], {})
                        if got != lmr:
                            bad_dec.append('reduction %d is marked %d and read back as %d' % (lmr, enc, got))
        except Unknown as u:
            rep.broken(clause, '%s: deferral mark / skip test not evaluable: %s' % (tag, u))
            continue
        rep.ob(clause, 'K10 encoding', '%s: a move deferred in the first pass (any reduction 0..15) is searched in the second pass' % tag, not bad_skip,
               '%s:%s' % (f.file, (f.blocks[skips[0][0]].get('term') or {}).get('ln') or f.line), '; '.join(bad_skip[:3]) or 'mark BUSY - lmr <= BUSY, skip test true only above', f.sname)
        rep.extra.setdefault('abdada_decoder_agreement', {})[tag] = 'reduction read back equals the one encoded' if decs and not bad_dec else ('; '.join(bad_dec[:3]) or 'no decoder found')
    rep.floor(clause, 'negaScout instantiations with an ABDADA deferral', n_inst, 2)


# ----------------------------------------------------------------------------- .9

def c9_busy_is_not_a_score(fb, rep, clause):
    """K3 typestate of the ABDADA exclusive-probe request.  A child entered with `abdadaExclusive` set may answer BUSY instead
    of a score.  BUSY is a control value (-32766, beyond every mate score): a caller that takes it for a score cuts off on
    "+32766", stores it, and the root prints a mate distance in the hundreds.  So a recursive call that can be reached
    with the request still set - no reset of the flag between the assignment that may set it and the call - must be
    followed directly by the BUSY test on its result; every other recursive call must be made with the request cleared."""
    cands = [f for f in fb.funcs.values() if f.has_cfg and f.sname == 'Search::negaScout' and len(f.blocks) > 50]
    if rep.need(clause, cands, 'Search::negaScout') is None:
        return
    has_busy = lambda t: any(isinstance(n, dict) and n.get('q') == 'SearchConst::BUSY' for n in walk(t))
    n_calls = 0
    for f in sorted(cands, key=lambda x: x.name):
        tag = f.name.replace('Search::', '')

        def flag_write(e):
            if e is None or e.get('k') != 'asg' or e.get('op') != '=':
                return None
            p_ = ap(e.get('l')) or ''
            if not (p_.startswith('this.searchTreeInfo') and p_.endswith('.abdadaExclusive')):
                return None
            r = _strip4(e.get('r'))
            return 'reset' if isinstance(r, dict) and r.get('cv') == 0 else 'set'
        setters = [(b, i) for b, i, e in f.events() if flag_write(e) == 'set']
        if rep.need(clause, setters, 'the assignment that requests an exclusive probe in ' + tag) is None:
            continue
        recs = []
        for b, i, e in f.events():
            if e.get('k') in ('asg', 'decl') and any(isinstance(n, dict) and n.get('k') == 'call' and cname(n) == 'Search::negaScout' for n in walk(e)):
                var = None
                if e.get('k') == 'asg' and isinstance(_strip4(e.get('l')), dict) and _strip4(e['l']).get('k') == 'var':
                    var = _strip4(e['l'])['id']
                elif e.get('k') == 'decl' and e.get('vars'):
                    var = e['vars'][0]['id']
                recs.append((b, i, e, var))
        k = 0
        for b, i, e, var in recs:
            may = any(f.path_avoiding(s_, lambda x, _e=e: x is _e, lambda x: flag_write(x) == 'reset') is not None for s_ in setters)
            k += 1
            n_calls += 1
            if not may:
                rep.ob(clause, 'K3 typestate', '%s: recursive call #%d is made with the exclusive-probe request cleared' % (tag, k), True, R.site(f, e), '', f.sname)
                continue
            # the first decision after the call tests its result against BUSY
            x, idx, ok, steps = b, i + 1, False, 0
            while steps < 6:
                blk = f.blocks[x]
                t = blk.get('term') or {}
                if t.get('cond') is not None and len(blk['succ']) == 2:
                    c = t['cond']
                    ok = has_busy(c) and (var is None or any(isinstance(n, dict) and n.get('k') == 'var' and n.get('id') == var for n in walk(c)))
                    break
                if len(blk['succ']) != 1:
                    break
                x, idx, steps = blk['succ'][0], 0, steps + 1
            rep.ob(clause, 'K3 typestate', '%s: recursive call #%d can be reached with the exclusive-probe request set: its result is tested for BUSY before anything else' % (tag, k), ok,
                   R.site(f, e), '' if ok else 'the next decision after the call does not compare the result with BUSY', f.sname)
    rep.floor(clause, 'recursive calls of negaScout', n_calls, 8)


# ----------------------------------------------------------------------------- .12

def c12_null_move_saves_before_it_clears(fb, rep, clause):
    """K1 save / restore around the null move.  The null-move search flips the side to move in place, clears the en-passant
    square and the half-move clock, searches, and restores all three.  The value restored must be the value from *before*
    the clearing: a local that is saved from a getter and later handed back to the matching setter must be initialised
    before any other call of that setter can have run.  Saved after the clearing, the restore writes "no en-passant
    square": the capture is missing from every move list below the node, and a check that only the en-passant capture
    answers is scored as mate."""
    cands = [f for f in fb.funcs.values() if f.has_cfg and f.sname == 'Search::negaScout' and len(f.blocks) > 50]
    if rep.need(clause, cands, 'Search::negaScout') is None:
        return
    PAIRS = {'Position::getEpSquare': 'Position::setEpSquare', 'Position::getHalfMoveClock': 'Position::setHalfMoveClock'}
    n = 0
    for f in sorted(cands, key=lambda x: x.name):
        tag = f.name.replace('Search::', '')
        for b, i, e in f.events():
            if e.get('k') != 'decl':
                continue
            for v in e.get('vars', []):
                init = v.get('init')
                getter = next((cname(x) for x in walk(init) if isinstance(x, dict) and x.get('k') == 'call' and cname(x) in PAIRS), None) if init is not None else None
                if getter is None:
                    continue
                setter = PAIRS[getter]
                is_set = lambda x, _s=setter: x is not None and x.get('k') == 'call' and cname(x) == _s
                uses_l = lambda x, _id=v['id']: any(isinstance(y, dict) and y.get('k') == 'var' and y.get('id') == _id for a_ in x.get('args', []) for y in walk(a_))
                restores = [x for _, _, x in f.events() if is_set(x) and uses_l(x)]
                if not restores:
                    continue            # not a save/restore local
                n += 1
                early = [(cb, ci, c) for cb, ci, c in f.events() if is_set(c) and not uses_l(c) and
                         f.path_avoiding((cb, ci), lambda x, _e=e: x is _e, lambda x: is_set(x)) is not None]
                rep.ob(clause, 'K1 pairing', '%s: the value restored with %s was saved before that setter cleared it' % (tag, setter.split('::')[-1]), not early,
                       R.site(f, e), '' if not early else 'a call of the setter at line %s runs before the save' % early[0][2].get('ln'), f.sname)
    rep.floor(clause, 'save / restore locals around the null move', n, 2)
