"""C05 - UCI session contract.  Clauses decided (DESIGN section 2, C05):
 .1 K3  null typestate of the lazily created engine object (every command order)
 .2 K14 exception escape from the thread entry points
 .3 K2/K5 exactly one bestmove per go, withheld while pondering / infinite
 .4 K5  no search output after bestmove
 .5 K2  readyok / quit / EOF
 .6 K8  options are applied only by the idle engine thread
 .7 K13 the per-go limits are recomputed completely on every path (no value of a previous go survives)
 .8 K4  the protocol thread never blocks on the engine thread while a search may be running
        (pending options are only applied when the search ends, and the search may be waiting for `stop`)
"""
from ..core import cname, ap, walk, show, strip_not, eff_cond
from ..flow import Flow
from ..nullstate import NullState
from . import common
from .. import rules as R
from .. import regions as G
from .. import exceptions as X

EXPLANATION = (
    'Static rules over the resolved program (clang AST + per-function CFG + whole-program call graph), all command '
    'orders / schedules at once. Decided: (1) null typestate of UCIProtocol::engine and EngineControl::sc over every '
    'method of their classes, entry state "either" = any command history; (2) no exception type can leave the protocol '
    'thread, the engine main loop, a helper thread or a pool worker; (3) the only bestmove printer is reached exactly '
    'once per doSearch, after the ponder/infinite wait loop, and a new search is only handed over after the previous '
    'one was waited for; (4) search listeners are only invoked from the search that precedes finishSearch; (5) isready '
    '-> waitReady -> exactly one readyok; every exit of the protocol loop passes engineThread.quit(); the quit command '
    'sets the quit flag; (6) Parameters::set is not reachable from the protocol thread. This decides the structural '
    'part of the contract, not the behaviour.'
    ' (9) the command parser never rejects a token it has already consumed (list terminators are peeked at); (10) for a remaining time <= 0 the final soft and hard limits are not negative, so a clock-limited go cannot degenerate into an unlimited search; (12) every limit field computeTimeLimit derives from the go is handed to startThread / Search::timeLimit on every go path - at the start, or for a ponder search by the release that lets it continue - in the argument position of the same name; (13) every insertion into the output stream held by the UCI classes is made with one common mutex held (locally or by every caller), and nothing called with that mutex held acquires it again or waits for another thread. (16) = C10.11 the two computations of `infinite` agree. (17) = C10.12 isready never blocks on an engine thread that is holding its answer. (18) = C03.6 the MultiPV count that indexes the root list is clamped to that list. (19) = C12.1 a Hash change or Clear Hash never leaves a tablebase handle that points outside the table.')
UNDECIDED = ('hangs caused by search-time behaviour, well-formedness of printed numbers, promptness in wall-clock '
             'terms, liveness of the thread hand-shake (see C10).')
ASSUMPTIONS = [
    'std::bad_alloc from ordinary allocation is outside the property (only the handled TT allocation is checked)',
    'ChessError while loading the embedded network is a build-integrity failure, not input dependent',
    'the constant start position FEN is valid (passing TextIO tests)',
]


def run(fb, rep, tier):
    cg, cg_h = common.graphs(fb)
    common.check_premises(fb, rep, 'C05.0')
    c1_typestate(fb, rep)
    c2_exceptions(fb, rep, cg, cg_h)
    c3_one_bestmove(fb, rep, cg)
    c4_no_output_after(fb, rep, cg)
    c5_readyok_quit(fb, rep, cg)
    c6_options(fb, rep, cg)
    c7_go_frame(fb, rep)
    c8_no_blocking_during_search(fb, rep, cg)
    c9_token_lookahead(fb, rep)
    from . import C06
    C06.nonpositive_clock(fb, rep, 'C05.10')
    # options sent during a multi-threaded search are still applied afterwards (shared with C10.6 / C10.7): otherwise the
    # next command blocks in waitOptionsSet() - no readyok, no bestmove, no exit
    from . import C10
    C10.c6_rearm(fb, rep, clause='C05.11')
    C10.completion_flag(fb, rep, 'C05.11')
    # .15 quit ends the process only if the shutdown loop counts the helpers' acknowledgements (shared with C10.10)
    C10.c10_ack_counting(fb, rep, 'C05.15')
    C10.c11_infinite_predicate(fb, rep, 'C05.16')
    # .17 `isready` (and every other command) is answered at any time: the protocol thread never blocks on the engine thread
    # while the engine thread holds an answer only the protocol thread can release (shared with C10.12)
    C10.c12_protocol_waits(fb, rep, 'C05.17')
    # .18 every go ends in a bestmove, never in a crash: the MultiPV count that indexes the root list is clamped to that list,
    # which strength limiting can shrink below the count of legal moves (shared with C03.6)
    from . import C03
    C03.c6_count_clamp(fb, rep, 'C05.18')
    # .19 a Hash change / Clear Hash never leaves a tablebase handle that points outside the table: the next go would crash
    # instead of answering (shared with C12.1)
    from . import C12
    C12.c1_typestate(fb, rep, 'C05.19')
    c12_limits_reach_search(fb, rep)
    c13_output_lines(fb, rep, cg)
    c14_limited_strength_single_thread(fb, rep)
    rep.extra['call_graph'] = {'functions': len(cg.edges), 'thread_roots': [fb.kname(k) + ' <- ' + fb.kname(c) for k, c, _ in cg.thread_roots if R.in_engine(fb.funcs.get(c)) ] if True else []}
    rep.extra['constant_stub_branches_folded'] = sorted({'%s -> %s' % (n, v) for _, _, n, v in fb.folded})


# ----------------------------------------------------------------------------- .1

def c1_typestate(fb, rep):
    for cls, member, floor in (('UCIProtocol', 'engine', 7), ('EngineControl', 'sc', 6)):
        clause = 'C05.1'
        if rep.need(clause, fb.field('%s::%s' % (cls, member)), 'field %s::%s' % (cls, member)) is None:
            continue
        ns = NullState(fb, cls, member)
        methods = [f for f in fb.funcs.values() if f.has_cfg and f.d.get('cls') == cls and not f.d.get('dtor')]
        nder = 0
        for f in sorted(methods, key=lambda x: x.key):
            before_v = len(ns.violations)
            before_d = len(ns.derefs)
            entry = ('N',) if f.d.get('ctor') else ('N', 'V')
            fl = ns.analyse_method(f, entry)
            if fl.overflow:
                rep.broken(clause, 'typestate engine overflow in ' + f.sname)
            sites = sorted(set(ns.derefs[before_d:]))
            bad = {}
            for (vf, pos, e) in ns.violations[before_v:]:
                bad[e.get('ln')] = (pos, e)
            # one obligation per dereference site
            per_line = {}
            for (_, ln) in sites:
                per_line.setdefault(ln, 0)
                per_line[ln] += 1
            idx = 0
            for bid, i, e in f.events():
                if e.get('k') == 'call' and e.get('recv') is not None and ns.is_member(e['recv']) and \
                        cname(e).split('::')[-1] in ('operator->', 'operator*'):
                    user = _user_of(f, bid, i, e)
                    inst = '%s: %s->%s #%d' % (f.sname, member, user, _ordinal(f, bid, i, member, user, ns))
                    ok = e.get('ln') not in bad or bad[e['ln']][1] is not e and not any(v[2] is e for v in ns.violations[before_v:])
                    ok = not any(v[2] is e for v in ns.violations[before_v:])
                    rep.ob(clause, 'K3 null typestate', inst, ok, R.site(f, e),
                           '' if ok else ns.describe(f, (bid, i), e), f.sname)
                    nder += 1
                    idx += 1
        rep.floor(clause, 'dereferences of %s::%s' % (cls, member), nder, floor)


def _user_of(f, bid, i, e):
    """Name of the member function invoked through the dereference (next call whose receiver is e)."""
    blk = f.blocks[bid]
    for j in range(i + 1, min(i + 4, len(blk['ev']))):
        n = blk['ev'][j]
        if n.get('k') == 'call' and n.get('recv') is e or (n.get('k') == 'call' and n.get('recv') == e):
            return cname(n).split('::')[-1]
    return '*'


def _ordinal(f, bid, i, member, user, ns):
    """Ordinal of this deref among the derefs with the same user in the function, in CFG order."""
    k = 0
    for b2, i2, e2 in f.events():
        if e2.get('k') == 'call' and e2.get('recv') is not None and ns.is_member(e2['recv']) and \
                cname(e2).split('::')[-1] in ('operator->', 'operator*'):
            if _user_of(f, b2, i2, e2) == user:
                k += 1
            if (b2, i2) == (bid, i):
                return k
    return k


# ----------------------------------------------------------------------------- .2

def c2_exceptions(fb, rep, cg, cg_h):
    clause = 'C05.2'
    xf = X.ExceptionFlow(fb, cg)
    xf_h = X.ExceptionFlow(fb, cg_h)
    roots = []
    main_l = [f for f in fb.lambdas_in(fb.find1('UCIProtocol::main'))] if fb.find1('UCIProtocol::main') else []
    rep.need(clause, main_l, 'protocol thread lambda in UCIProtocol::main')
    for l in main_l:
        roots.append(('PROTO thread (lambda in UCIProtocol::main)', l))
    for name, label in (('EngineMainThread::mainLoop', 'ENGINE main loop'),
                        ('WorkerThread::mainLoop', 'HELPER main loop'),
                        ('UCIProtocol::main', 'process main thread')):
        f = rep.need(clause, fb.find1(name), name)
        if f:
            roots.append((label, f))
    wl = [f for f in fb.find('ThreadPool::workerLoop')]
    rep.need(clause, wl, 'ThreadPool::workerLoop')
    # pool workers run inside try/catch(...) that stores the exception; checked on the task call
    for label, f in roots:
        esc = (xf_h if label.startswith('HELPER') else xf).escaping(f)
        if not esc:
            rep.ob(clause, 'K14 exception escape', label + ': nothing escapes', True, f.where, '', f.sname)
        for ty, origin in sorted(esc.items()):
            rep.ob(clause, 'K14 exception escape', '%s: %s' % (label, ty), False, f.where,
                   '%s can leave %s; raised at %s' % (ty, f.sname, ' <- '.join(origin[:6])), f.sname)
    for f in wl:
        # the task invocation must sit inside a catch-all handler
        ok_any = False
        for bid, i, e in f.events():
            if e.get('k') == 'call' and cname(e).endswith('::operator()') and 'std::function' in cname(e):
                hs = X.handlers_at(f, e.get('ln'))
                ok = any(h['t'] == '...' for chain in hs for h in chain)
                rep.ob(clause, 'K14 exception escape', 'POOL worker %s: task call inside catch(...)' % f.sname, ok,
                       R.site(f, e), '' if ok else 'task exceptions can leave the worker thread', f.sname)
                ok_any = True
        if not ok_any:
            rep.broken(clause, 'no task invocation found in ' + f.key)
    rep.extra['exception_model'] = xf.describe()


# ----------------------------------------------------------------------------- .3

def c3_one_bestmove(fb, rep, cg):
    clause = 'C05.3'
    # a. the only function that prints "bestmove"
    printers = set()
    for f in fb.funcs.values():
        if not f.has_cfg or not R.in_engine(f):
            continue
        for bid, i, e in f.events():
            if R.outputs_literal('bestmove')(e):
                printers.add(f.sname)
    rep.ob(clause, 'K5 who-may-print', 'functions printing "bestmove"', printers == {'SearchListener::notifyPlayedMove'},
           '', 'printers: %s' % sorted(printers), '')
    rep.floor(clause, 'bestmove printers', len(printers), 1)
    # b. call chain
    s1 = R.who_may_call(rep, fb, cg, clause, 'SearchListener::notifyPlayedMove', {'EngineControl::finishSearch'})
    s2 = R.who_may_call(rep, fb, cg, clause, 'EngineControl::finishSearch', {'EngineMainThread::doSearch'})
    s3 = R.who_may_call(rep, fb, cg, clause, 'EngineMainThread::doSearch', {'EngineMainThread::mainLoop'})
    rep.floor(clause, 'call chain notifyPlayedMove<-finishSearch<-doSearch<-mainLoop', min(len(s1), len(s2), len(s3)), 1)
    fin = fb.find1('EngineControl::finishSearch')
    if rep.need(clause, fin, 'EngineControl::finishSearch'):
        p = R.is_named_call('SearchListener::notifyPlayedMove')
        R.must_pass_between(rep, fin, clause, 'finishSearch: every path prints the move', None, R.at_exit, p)
        R.at_most_once(rep, fin, clause, 'finishSearch: prints at most once', p)
    npm = fb.find1('SearchListener::notifyPlayedMove')
    if rep.need(clause, npm, 'SearchListener::notifyPlayedMove'):
        p = R.outputs_literal('bestmove')
        R.must_pass_between(rep, npm, clause, 'notifyPlayedMove: every path prints bestmove', None, R.at_exit, p)
        R.at_most_once(rep, npm, clause, 'notifyPlayedMove: prints bestmove at most once', p)
    # c. doSearch: exactly one finishSearch on every path, after the wait loop
    ds = fb.find1('EngineMainThread::doSearch')
    if rep.need(clause, ds, 'EngineMainThread::doSearch'):
        p = R.is_named_call('EngineControl::finishSearch')
        R.must_pass_between(rep, ds, clause, 'doSearch: every path reaches finishSearch', None, R.at_exit, p)
        R.at_most_once(rep, ds, clause, 'doSearch: finishSearch at most once', p)
        _withheld(fb, rep, clause, ds)
    # d. doSearch only under `if (search)`; search=false afterwards, under the mutex
    ml = fb.find1('EngineMainThread::mainLoop')
    if rep.need(clause, ml, 'EngineMainThread::mainLoop'):
        def tr(e, c, pos):
            if e.get('k') == 'call' and cname(e) == 'EngineMainThread::doSearch':
                seen.append((pos, e, c))
            if e.get('k') == 'call' and cname(e) in ('EngineMainThread::notifierWait', 'Notifier::wait', 'EngineMainThread::setOptions'):
                return ['?'] if cname(e) != 'EngineMainThread::setOptions' else [c]
            return [c]

        def rf(cond, truth, c):
            e, pol = strip_not(cond)
            if _reads_field(e, 'this.search'):
                return ['T' if truth == pol else 'F']
            return [c]
        seen = []
        Flow(ml, tr, rf).run({'?'})
        calls = R.calls_in(ml, 'EngineMainThread::doSearch')
        for b, i, e in calls:
            states = {c for (pos, ev, c) in seen if ev is e}
            rep.ob(clause, 'K4 guard', 'mainLoop: doSearch() only when the search flag was tested true', states == {'T'},
                   R.site(ml, e), 'states of the search flag at the call: %s' % sorted(states), ml.sname)
        rep.floor(clause, 'doSearch call sites in mainLoop', len(calls), 1)
    # e. hand-over: search=true only in startSearch <- startThread <- startSearch/startPonder after stopThread
    writers = set()
    for f in fb.funcs.values():
        if not f.has_cfg or not R.in_engine(f):
            continue
        for bid, i, e in f.events():
            if e.get('k') == 'asg' and ap(e.get('l')) == 'this.search' and f.d.get('cls') == 'EngineMainThread':
                if isinstance(e.get('r'), dict) and e['r'].get('cv') == 1:
                    writers.add(f.sname)
            if e.get('k') == 'call' and e.get('recv') is not None and ap(e['recv']) == 'this.search' and \
                    f.d.get('cls') == 'EngineMainThread' and cname(e).split('::')[-1] in ('operator=', 'store'):
                a = e.get('args') or [None]
                if isinstance(a[0], dict) and a[0].get('cv') == 1:
                    writers.add(f.sname)
    rep.ob(clause, 'K5 who-may-write', 'EngineMainThread::search = true', writers == {'EngineMainThread::startSearch'},
           '', 'writers: %s' % sorted(writers), '')
    R.who_may_call(rep, fb, cg, clause, 'EngineMainThread::startSearch', {'EngineControl::startThread'})
    sites = R.who_may_call(rep, fb, cg, clause, 'EngineControl::startThread',
                           {'EngineControl::startSearch', 'EngineControl::startPonder'})
    rep.floor(clause, 'startThread call sites', len(sites), 2)
    for name in ('EngineControl::startSearch', 'EngineControl::startPonder'):
        f = fb.find1(name)
        if rep.need(clause, f, name):
            R.dominated_by(rep, f, clause, '%s: stopThread() precedes startThread()' % name,
                           R.is_named_call('EngineControl::startThread'), R.is_named_call('EngineControl::stopThread'))
    st = fb.find1('EngineControl::stopThread')
    if rep.need(clause, st, 'EngineControl::stopThread'):
        R.must_pass_between(rep, st, clause, 'stopThread: every path waits for the search to stop', None, R.at_exit,
                            R.is_named_call('EngineMainThread::waitStop'))
        R.must_pass_between(rep, st, clause, 'stopThread: every path waits for pending options', None, R.at_exit,
                            R.is_named_call('EngineMainThread::waitOptionsSet'))


def _reads_field(e, path):
    if not isinstance(e, dict):
        return False
    for n in walk(e):
        if ap(n) == path:
            return True
    return False


def _withheld(fb, rep, clause, ds):
    """bestmove is withheld: at finishSearch the last tests of *ponder and *infinite were false
    and nothing time-consuming happened since."""
    seen = []

    def tr(e, c, pos):
        if e.get('k') == 'call':
            n = cname(e)
            if n == 'EngineControl::finishSearch':
                seen.append((e, c))
                return [c]
            if e.get('repo') and not e.get('cmeth') and n.split('::')[-1] not in ('operator bool', 'isEmpty') or \
                    n.startswith('std::this_thread::sleep'):
                # a repo call that may take time (search, book probe) or a sleep
                if n.split('::')[-1] in ('getCommunicator',):
                    return [c]
                return [('?', '?')]
        return [c]

    def rf(cond, truth, c):
        e, pol = strip_not(cond)
        p, i = c
        if _reads_field(e, 'this.ponder'):
            p = 'T' if truth == pol else 'F'
        elif _reads_field(e, 'this.infinite'):
            i = 'T' if truth == pol else 'F'
        else:
            return [c]
        return [(p, i)]
    Flow(ds, tr, rf).run({('?', '?')})
    states = sorted({c for e, c in seen})
    ok = bool(seen) and all(c == ('F', 'F') for e, c in seen)
    e0 = seen[0][0] if seen else {}
    rep.ob(clause, 'K2/K4 withheld while ponder|infinite', 'doSearch: finishSearch only after both release flags tested false',
           ok, R.site(ds, e0), '(ponder, infinite) test outcomes reaching finishSearch: %s' % states, ds.sname)


# ----------------------------------------------------------------------------- .4

def c4_no_output_after(fb, rep, cg):
    clause = 'C05.4'
    R.who_may_call(rep, fb, cg, clause, 'Search::setListener', {'EngineControl::startThread', 'ComputerPlayer::ComputerPlayer',
                                                                 'ComputerPlayer::setListener', 'ComputerPlayer::getCommand',
                                                                 'ComputerPlayer::searchPosition'},
                   scope=lambda f: R.in_engine(f))
    # functions invoking listener callbacks
    notifiers = set()
    for f in fb.funcs.values():
        if not f.has_cfg or not R.in_engine(f):
            continue
        for bid, i, e in f.events():
            if e.get('k') == 'call' and cname(e).startswith('Search::Listener::notify'):
                notifiers.add(f.key)
    rep.floor(clause, 'functions invoking Search::Listener callbacks', len(notifiers), 2)
    ds = fb.find1('EngineMainThread::doSearch')
    if not rep.need(clause, ds, 'EngineMainThread::doSearch'):
        return
    fin = R.calls_in(ds, 'EngineControl::finishSearch')
    for b, i, e in fin:
        # any call after finishSearch that can reach a notifier?
        bad = None

        def target(ev):
            nonlocal bad
            if ev is None or ev.get('k') != 'call' or not ev.get('f'):
                return False
            start = [ev['f']] + sorted(cg.overriders.get(ev['f'], ())) if ev.get('virt') else [ev['f']]
            p = cg.path_to(start, lambda k: k in notifiers)
            if p:
                bad = (ev, p)
                return True
            return False
        w = ds.path_avoiding((b, i), target, R.never)
        rep.ob(clause, 'K2/K5 no listener callback after bestmove', 'doSearch: nothing after finishSearch reaches a Search::Listener callback',
               w is None, R.site(ds, e), '' if w is None else 'call at line %s reaches %s' % (bad[0].get('ln'), ' -> '.join(fb.kname(k) for k in bad[1])), ds.sname)
    rep.floor(clause, 'finishSearch call sites', len(fin), 1)


# ----------------------------------------------------------------------------- .5

def c5_readyok_quit(fb, rep, cg):
    clause = 'C05.5'
    hc = fb.find1('UCIProtocol::handleCommand')
    if rep.need(clause, hc, 'UCIProtocol::handleCommand'):
        printers = set()
        for f in fb.funcs.values():
            if f.has_cfg and R.in_engine(f):
                for bid, i, e in f.events():
                    if R.outputs_literal('readyok')(e):
                        printers.add(f.sname)
        rep.ob(clause, 'K5 who-may-print', 'functions printing "readyok"', printers == {'UCIProtocol::handleCommand'}, '',
               'printers: %s' % sorted(printers), '')
        br = R.branch_blocks(hc, R.str_eq_cond(None, 'isready'))
        rep.floor(clause, 'isready arm', len(br), 1)
        for bid, pol, t, f_ in br:
            start = (t, -1)
            p = R.outputs_literal('readyok')
            R.must_pass_between(rep, hc, clause, 'isready arm: every path prints readyok', start, R.at_exit, p)
            R.must_pass_between(rep, hc, clause, 'isready arm: waitReady() precedes readyok', start, p,
                                R.is_named_call('EngineControl::waitReady'))
        R.at_most_once(rep, hc, clause, 'readyok printed at most once per command', R.outputs_literal('readyok'))
        # the only way to print readyok is the isready arm
        for b, i, e in hc.find_events(R.outputs_literal('readyok')):
            arms = {t for _, _, t, _ in br}
            w = hc.path_avoiding((hc.entry, -1), lambda x, _e=e: x is _e, R.never)
            # dominated by the arm's true successor
            dom = hc.dominators().get(b, set())
            rep.ob(clause, 'K4 guard', 'readyok only in the isready arm', bool(arms & dom), R.site(hc, e), '', hc.sname)
        # quit arm sets the flag
        brq = R.branch_blocks(hc, R.str_eq_cond(None, 'quit'))
        rep.floor(clause, 'quit arm', len(brq), 1)
        for bid, pol, t, f_ in brq:
            def setq(e):
                return e is not None and e.get('k') == 'asg' and ap(e.get('l')) == 'this.quit' and \
                    isinstance(e.get('r'), dict) and e['r'].get('cv') == 1
            R.must_pass_between(rep, hc, clause, 'quit arm: sets the quit flag', (t, -1), R.at_exit, setq)
    ml = fb.find1('UCIProtocol::mainLoop')
    if rep.need(clause, ml, 'UCIProtocol::mainLoop'):
        R.must_pass_between(rep, ml, clause, 'protocol loop: every exit passes engineThread.quit()', None, R.at_exit,
                            R.is_named_call('EngineMainThread::quit'))
        # the loop leaves when the quit flag is set: the true branch of `if (quit)` reaches quit() without reading input
        br = R.branch_blocks(ml, lambda e: ap(e) == 'this.quit')
        rep.floor(clause, 'quit-flag test in the protocol loop', len(br), 1)
        for bid, pol, t, f_ in br:
            w = ml.path_avoiding((t, -1), lambda e: e is not None and e.get('k') == 'call' and cname(e).endswith('getline'), R.never)
            rep.ob(clause, 'K2 loop exit', 'protocol loop: quit flag set => no further input is read', w is None,
                   '%s:%s' % (ml.file, ml.blocks[bid]['term'].get('ln')), '', ml.sname)
        # whatever way the loop is left (end of input in any form, the quit command): a search that may be running was
        # stopped before the engine thread is told to quit - quit() only sets a flag the engine thread reads when idle,
        # so an unstopped infinite / ponder search would never end and the process never exit.  State per path:
        # 'open' after a command was dispatched (it may have started a search); 'stopped' after stopSearch(); 'noengine'
        # where the engine object is known to be null; 'quitcmd' where the quit flag was seen set (its arm stops first).
        def tr_q(e, c, pos):
            if e.get('k') == 'call' and cname(e) == 'EngineControl::stopSearch':
                return ['stopped']
            if e.get('k') == 'call' and cname(e) == 'UCIProtocol::handleCommand':
                return ['open']
            if e.get('k') == 'call' and cname(e) == 'EngineMainThread::quit':
                seen_q.append(c)
            return [c]

        def rf_q(cond, truth, c):
            e2, pol2 = strip_not(cond)
            if isinstance(e2, dict) and e2.get('k') == 'call' and cname(e2).split('::')[-1] == 'operator bool' and ap(e2.get('recv')) == 'this.engine':
                if (truth == pol2) is False:
                    return ['noengine']
            if ap(e2) == 'this.quit' and (truth == pol2):
                return ['quitcmd']
            return [c]
        # no input line is dropped: after a read, the loop is left without dispatching only if nothing was read - the exit
        # is guarded by a test that the line is empty or that the read failed outright (failbit).  `!is.good()` alone is
        # also true when the last line arrived without a newline (eofbit with characters extracted): that command -
        # an isready, a go - would never be answered
        reads = [(b, i, e) for b, i, e in ml.events() if e.get('k') == 'call' and cname(e).split('::')[-1] == 'getline']
        rep.floor(clause, 'line reads in the protocol loop', len(reads), 1)
        for rb, ri, re_ in reads:
            line_arg = _strip_c((re_.get('args') or [None, None])[1] if len(re_.get('args') or []) > 1 else None)
            lid = line_arg.get('id') if isinstance(line_arg, dict) else None

            def is_dispatch(x):
                return x is not None and x.get('k') == 'call' and cname(x) == 'UCIProtocol::handleCommand'
            # the skip region: blocks from which the exit is reachable but no dispatch (before the next read)
            def is_read(x):
                return x is not None and x.get('k') == 'call' and cname(x).split('::')[-1] == 'getline'
            skip = set()
            for bid in ml.blocks:
                if bid in ml.dead or bid == rb or not G_reaches(ml, rb, bid):
                    continue
                to_exit = ml.path_avoiding((bid, -1), R.at_exit, lambda x: is_dispatch(x) or is_read(x)) is not None
                to_disp = ml.path_avoiding((bid, -1), is_dispatch, is_read) is not None
                if to_exit and not to_disp and not any(is_dispatch(e_) for e_ in ml.blocks[bid]['ev']):
                    skip.add(bid)
            # every edge that enters the skip region: the branch condition on that edge (and what already guards its source)
            edges = [(p_, b_) for b_ in sorted(skip) for p_ in ml.preds.get(b_, []) if p_ not in skip and (p_ == rb or G_reaches(ml, rb, p_))]
            ok_all = bool(edges)
            details = []
            for p_, b_ in edges:
                gs = list(G.guard_trees(ml, set(ml.blocks), p_))
                pt = ml.blocks[p_].get('term') or {}
                if len(ml.blocks[p_]['succ']) == 2 and pt.get('cond') is not None:
                    from ..core import implied_atoms
                    gs += implied_atoms(eff_cond(pt), ml.blocks[p_]['succ'][0] == b_)
                norm = []
                for c2, side2 in gs:
                    ce2, pol2 = strip_not(c2)
                    norm.append((_strip_c(ce2), side2 == pol2))
                if any(ap(c2) == 'this.quit' and side2 for c2, side2 in norm):
                    continue        # the quit command: it was dispatched
                good = False
                for c2, side2 in norm:
                    if isinstance(c2, dict) and c2.get('k') == 'call':
                        last = cname(c2).split('::')[-1]
                        if last == 'empty' and side2 and (_strip_c(c2.get('recv')) or {}).get('id') == lid:
                            good = True
                        if last in ('fail', 'bad') and side2:
                            good = True
                        if last == 'operator bool' and not side2 and any(is_read(n_) for n_ in walk(c2)):
                            good = True
                details.append(' && '.join(('' if s2 else '!') + show(c2, 40) for c2, s2 in norm))
                ok_all = ok_all and good
            rep.ob(clause, 'K4 guard', 'protocol loop: a line that was read is dispatched; the loop is left without dispatching only when nothing was read (empty line or failbit)',
                   ok_all, R.site(ml, re_), 'exits taken without dispatching: %s' % details, ml.sname)
            # an emptiness test speaks about *this* read only if the string was emptied before it: getline does not touch
            # the string once the stream has failed, so a stale line would be dispatched again and again (a busy loop)
            uses_empty = any('empty' in d for d in details)
            if uses_empty:
                def is_clear(x):
                    return x is not None and x.get('k') == 'call' and cname(x).split('::')[-1] in ('clear', 'erase') and (_strip_c(x.get('recv')) or {}).get('id') == lid
                stale = [1 for b2, i2, e2 in ml.events() if is_dispatch(e2) and
                         ml.path_avoiding((b2, i2), lambda x: x is re_, is_clear) is not None]
                rep.ob(clause, 'K2 must-precede', 'protocol loop: the line is emptied before every read after a dispatch (getline leaves it alone on a failed stream)', not stale,
                       R.site(ml, re_), '%d dispatch(es) can reach the next read without clearing the line' % len(stale), ml.sname)
        seen_q = []
        Flow(ml, tr_q, rf_q).run({'open'})
        okq = bool(seen_q) and set(seen_q) <= {'stopped', 'noengine', 'quitcmd'}
        rep.ob(clause, 'K2 must-pass-through', 'protocol loop: on every way out, a search that may be running was stopped before engineThread.quit()', okq, ml.where,
               'states in which quit() is reached: %s' % sorted(set(seen_q)), ml.sname)
        # the quit arm of the command handler stops the search before it raises the flag
        if hc is not None:
            for bid, pol, t, f_ in R.branch_blocks(hc, R.str_eq_cond(None, 'quit')):
                def setq2(e):
                    return e is not None and e.get('k') == 'asg' and ap(e.get('l')) == 'this.quit'
                w = hc.path_avoiding((t, -1), setq2, lambda e: e is not None and ((e.get('k') == 'call' and cname(e) == 'EngineControl::stopSearch')))
                # paths on which the engine is null need no stop: accept a path only if it goes through the null branch
                nullok = True
                if w is not None:
                    doms_ = hc.dominators()
                    nullok = any((hc.blocks[bb].get('term') or {}).get('cond') is not None and 'engine' in show(hc.blocks[bb]['term']['cond'], 80) for bb, _ in w)
                rep.ob(clause, 'K2 must-precede', 'quit arm: a running search is stopped before the quit flag is raised', w is None or nullok, hc.where, '', hc.sname)
    q = fb.find1('EngineMainThread::quit')
    if rep.need(clause, q, 'EngineMainThread::quit'):
        def setq(e):
            if e is None:
                return False
            if e.get('k') == 'asg' and ap(e.get('l')) == 'this.quitFlag':
                return True
            return e.get('k') == 'call' and e.get('recv') is not None and ap(e['recv']) == 'this.quitFlag' and \
                cname(e).split('::')[-1] in ('operator=', 'store')
        R.must_pass_between(rep, q, clause, 'EngineMainThread::quit sets quitFlag', None, R.at_exit, setq)
        R.must_pass_between(rep, q, clause, 'EngineMainThread::quit wakes the engine thread', None, R.at_exit,
                            R.is_named_call('Notifier::notify'))


class _SubFunc:
    """View of a function starting at another block (for flows over a region)."""
    def __init__(self, f, entry):
        self.blocks = f.blocks
        self.entry = entry
        self.exit = f.exit


# ----------------------------------------------------------------------------- .6

def c6_options(fb, rep, cg):
    clause = 'C05.6'
    main = fb.find1('UCIProtocol::main')
    if not rep.need(clause, main, 'UCIProtocol::main'):
        return
    lam = fb.lambdas_in(main)
    roots = [l.key for l in lam]
    pset = [f.key for f in fb.find('Parameters::set')]
    rep.need(clause, pset, 'Parameters::set')
    p = cg.path_to(roots, lambda k: k in pset)
    rep.ob(clause, 'K8 thread-role confinement', 'Parameters::set not reachable from the protocol thread', p is None,
           main.where, '' if p is None else 'call path: ' + ' -> '.join(fb.kname(k) for k in p), 'UCIProtocol::main')
    R.who_may_call(rep, fb, cg, clause, 'Parameters::set',
                   {'EngineMainThread::setOptions', 'WorkerThread::CommHandler::setParam', 'TUIGame::handleCommand',
                    'Cluster::CommHandler::setParam'},
                   scope=R.in_engine)
    # the protocol thread only enqueues
    so = fb.find1('EngineControl::setOption')
    if rep.need(clause, so, 'EngineControl::setOption'):
        R.must_pass_between(rep, so, clause, 'EngineControl::setOption enqueues via setOptionWhenIdle', None, R.at_exit,
                            R.is_named_call('EngineMainThread::setOptionWhenIdle'))


# ----------------------------------------------------------------------------- .7

# fields startThread reads that are long-lived by design (one reason each); everything else it reads is per-go state
GO_CONFIG = {
    'engineThread': 'the engine thread object (created once)', 'os': 'output stream of the session', 'listener': 'search listener of the session',
    'et': 'evaluation hash tables (persistent by design, see C14.3)', 'ht': 'history table (persistent; reset by Clear Hash / ucinewgame)',
    'kt': 'killer table (cleared by every search, C14.2)', 'treeLog': 'tree logger of the session',
    'randomSeed': 'strength-limiting seed, set by ucinewgame',
}


def c7_go_frame(fb, rep):
    """Per-`go` frame completeness: the function that derives the search limits from the go
    parameters writes each limit field on *every* path (else a value from an earlier go leaks
    into e.g. the `infinite` decision and an infinite search answers by itself)."""
    from ..effects import Effects
    clause = 'C05.7'
    ct = fb.find1('EngineControl::computeTimeLimit')
    if not rep.need(clause, ct, 'EngineControl::computeTimeLimit'):
        return
    eff = Effects(fb, 'EngineControl')
    may = sorted(f for f in eff.may_write(ct) if not f.endswith('[]'))
    rep.floor(clause, 'limit fields written by computeTimeLimit', len(may), 5)
    for fld in may:
        ok = eff.must_write(ct, fld)
        rep.ob(clause, 'K13 frame completeness', 'computeTimeLimit writes %s on every path' % fld, ok, ct.where,
               '' if ok else 'some path through computeTimeLimit leaves %s at the value of the previous go' % fld, ct.sname)
    # the limits read when a search is started are all recomputed by the preceding computeTimeLimit call
    for name in ('EngineControl::startSearch', 'EngineControl::startPonder'):
        f = fb.find1(name)
        if not rep.need(clause, f, name):
            continue
        reads = set()
        for b, i, e in f.events():
            if e.get('k') == 'acc' and e.get('a') in ('r', 'arg') and isinstance(e.get('e'), dict) and e['e'].get('k') == 'mem' and \
                    ap(e['e']) and ap(e['e']).startswith('this.'):
                fld = ap(e['e'])[5:]
                if fld in ('minTimeLimit', 'maxTimeLimit', 'earlyStopPercentage', 'maxDepth', 'maxNodes'):
                    reads.add(fld)
        for fld in sorted(reads):
            rep.ob(clause, 'K13 frame completeness', '%s: %s is recomputed by computeTimeLimit' % (name.split('::')[-1], fld),
                   fld in may and eff.must_write(ct, fld), f.where, '', f.sname)
        R.dominated_by(rep, f, clause, '%s: computeTimeLimit() precedes startThread()' % name,
                       R.is_named_call('EngineControl::startThread'), R.is_named_call('EngineControl::computeTimeLimit'))
    # every per-go input of startThread is written on each go path (the object outlives the go: a field that one path
    # forgets keeps the value of an earlier go - cf. the searchmoves of a ponder search)
    st = fb.find1('EngineControl::startThread')
    if rep.need(clause, st, 'EngineControl::startThread'):
        st_reads = set()
        trees = [e for _, _, e in st.events()] + [blk['term']['cond'] for bid, blk in st.blocks.items() if bid not in st.dead and (blk.get('term') or {}).get('cond') is not None]
        for t in trees:
            for n in walk(t):
                if n.get('k') == 'mem':
                    p_ = ap(n)
                    if p_ and p_.startswith('this.'):
                        st_reads.add(p_.split('.')[1])
        unknown = st_reads - set(GO_CONFIG)
        for name in ('EngineControl::startSearch', 'EngineControl::startPonder'):
            f = fb.find1(name)
            if f is None:
                continue
            for fld in sorted(unknown):
                rep.ob(clause, 'K13 frame completeness', '%s: the per-go input %s of startThread is written on this go path' % (name.split('::')[-1], fld),
                       eff.must_write(f, fld), f.where, 'inputs of startThread that are long-lived configuration (not per-go): %s' % sorted(GO_CONFIG), f.sname)
        rep.floor(clause, 'per-go inputs of startThread', len(unknown), 6)


# ----------------------------------------------------------------------------- .12

LIMIT_SINKS = ('EngineControl::startThread', 'Search::timeLimit')


def c12_limits_reach_search(fb, rep):
    """K13: every limit computeTimeLimit derives from the go is handed to the search on every go path: either when the
    search is started, or - for a search started in ponder mode - by the release that lets it continue (ponderhit).
    A limit that is computed but never installed makes `go ponder depth N` + `ponderhit` search without limit and
    never answer by itself (defect D11).  A release that installs only constants (stop: zero time) ends the search
    and needs no limits."""
    from ..effects import Effects
    clause = 'C05.12'
    ct = fb.find1('EngineControl::computeTimeLimit')
    if not rep.need(clause, ct, 'EngineControl::computeTimeLimit'):
        return
    eff = Effects(fb, 'EngineControl')
    limits = sorted(f for f in eff.may_write(ct) if not f.endswith('[]'))
    rep.floor(clause, 'limit fields written by computeTimeLimit', len(limits), 5)

    def consumed(f):
        out = set()
        for b, i, e in f.events():
            if e.get('k') == 'call' and cname(e) in LIMIT_SINKS:
                for a in e.get('args', []):
                    for n in walk(a):
                        if n.get('k') == 'mem':
                            p_ = ap(n)
                            if p_ and p_.startswith('this.'):
                                out.add(p_.split('.')[1])
        return out

    def ponder_stores(f):
        out = set()
        for b, i, e in f.events():
            tgt = val = None
            if e.get('k') == 'call' and e.get('op') == '=' and e.get('args'):
                tgt, val = e.get('recv'), e['args'][0]
            elif e.get('k') == 'asg':
                tgt, val = e.get('l'), e.get('r')
            if tgt is not None and ap(tgt) == 'this.ponder':
                while isinstance(val, dict) and val.get('k') == 'cast':
                    val = val.get('e')
                out.add(val.get('cv') if isinstance(val, dict) and val.get('k') == 'int' else '?')
        return out

    def calls(f, name):
        return any(e.get('k') == 'call' and cname(e) == name for _, _, e in f.events())
    methods = [f for f in fb.funcs.values() if f.has_cfg and f.d.get('cls') == 'EngineControl']
    starters = sorted((f for f in methods if calls(f, 'EngineControl::computeTimeLimit') and calls(f, 'EngineControl::startThread')), key=lambda f: f.sname)
    releasers = sorted((f for f in methods if f not in starters and 0 in ponder_stores(f) and consumed(f) & set(limits)), key=lambda f: f.sname)
    rep.floor(clause, 'methods that start a search from a go', len(starters), 2)
    n_ponder = 0
    for m in starters:
        paths = [(m.sname.split('::')[-1], consumed(m))]
        if ponder_stores(m) - {0}:
            n_ponder += 1
            paths = [('%s + %s' % (m.sname.split('::')[-1], r.sname.split('::')[-1]), consumed(m) | consumed(r)) for r in releasers]
            rep.ob(clause, 'K13 limit completeness', '%s starts a withheld search: some method releases it and installs limits' % m.sname.split('::')[-1], bool(releasers), m.where,
                   'continuing releases: %s' % [r.sname for r in releasers], m.sname)
        for label, got in paths:
            for fld in limits:
                rep.ob(clause, 'K13 limit completeness', 'go path %s: the limit %s computed from the go is handed to the search' % (label, fld), fld in got, m.where,
                       'handed to %s on this path: %s' % ('/'.join(x.split('::')[-1] for x in LIMIT_SINKS), sorted(got & set(limits))), m.sname)
    rep.floor(clause, 'go methods that start a withheld (ponder) search', n_ponder, 1)
    # a limit is handed over in its own position: where the receiving parameter is itself named after a limit field, it is that field
    n_pos = 0
    for m in starters + releasers:
        for b, i, e in m.events():
            if e.get('k') == 'call' and cname(e) in LIMIT_SINKS:
                callee = fb.find1(cname(e))
                params = [p_.get('n') for p_ in (callee.d.get('params', []) if callee is not None else [])]
                for k, a in enumerate(e.get('args', [])):
                    while isinstance(a, dict) and a.get('k') == 'cast':
                        a = a.get('e')
                    fld = ap(a)[5:] if isinstance(a, dict) and a.get('k') == 'mem' and (ap(a) or '').startswith('this.') else None
                    if fld in limits and k < len(params) and params[k] in limits:
                        n_pos += 1
                        rep.ob(clause, 'K10 argument agreement', '%s: %s argument %d (%s) receives the limit of the same name' % (m.sname.split('::')[-1], cname(e).split('::')[-1], k, params[k]),
                               fld == params[k], R.site(m, e), 'passed: %s' % fld, m.sname)
    # no floor: the comparison is by parameter *name* and applies only where the receiving function names its parameters
    # after the limits; a renaming of those parameters switches the comparison off, it must not break the analysis
    rep.counts['C05.12 limit fields passed positionally to startThread / timeLimit (by parameter name)'] = (n_pos, 0)


# ----------------------------------------------------------------------------- .13

def c13_output_lines(fb, rep, cg):
    """Lock discipline of the session's output stream.  The protocol thread (readyok, uci answers, info strings) and the
    engine thread (info lines, bestmove) write to one stream with several insertions per line; without a common lock
    an `isready` answered during a search lands inside an info line (`info depth readyok`) and the GUI never sees its
    readyok (defect D10).  Every insertion into the stream held by the UCI classes is made with one and the same
    mutex held - locally, or by every caller of the function."""
    from ..locks import locksets
    clause = 'C05.13'
    holders = {}
    for cls, rec in fb.records.items():
        if '/app/texel/' not in ('/' + (rec.get('file') or '')):
            continue
        for fl in rec.get('fields', []):
            if fl.get('rc') == 'std::basic_ostream<char>' and fl.get('reference'):
                holders[cls] = fl['q']
    rep.floor(clause, 'classes holding the session output stream', len(holders), 3)

    def stream_base(e):
        cur = e
        while isinstance(cur, dict):
            if cur.get('k') == 'cast':
                cur = cur.get('e')
            elif cur.get('k') == 'call' and cur.get('op') == '<<':
                cur = cur.get('recv') if cur.get('recv') is not None else (cur.get('args') or [None])[0]
            else:
                break
        return cur

    def in_scope(f):
        cls = f.d.get('cls') or ''
        if cls in holders:
            return True
        par = f.d.get('lambdaParent')
        return bool(par) and par in fb.funcs and in_scope(fb.funcs[par])
    sites = {}
    for f in fb.funcs.values():
        if not (f.has_cfg and in_scope(f)):
            continue
        for b, i, e in f.events():
            if e.get('k') == 'call' and e.get('op') == '<<':
                base = stream_base(e)
                if not isinstance(base, dict):
                    continue
                ok = (base.get('k') == 'mem' and base.get('f') in holders.values()) or \
                     (base.get('k') == 'var' and base.get('vk') == 'param' and base.get('rc') == 'std::basic_ostream<char>')
                if ok:
                    sites.setdefault(f.key, (f, []))[1].append((b, i, e))
    n_sites = sum(len(v[1]) for v in sites.values())
    rep.floor(clause, 'insertions into the session output stream', n_sites, 30)
    rep.floor(clause, 'functions writing to the session output stream', len(sites), 8)

    # must-held locks on entry: what every call site inside the engine program holds
    entry = {}

    def entry_held(f, depth=0):
        if f.key in entry:
            return entry[f.key]
        entry[f.key] = frozenset()
        calls = [(g, b, i, e) for (g, b, i, e) in cg.call_sites(f.sname) if R.in_engine(g)]
        held = None
        for g, b, i, e in calls:
            h = locksets(g, entry_held(g, depth + 1) if depth < 3 else ()).held(e)
            held = h if held is None else (held & h)
        entry[f.key] = held or frozenset()
        return entry[f.key]
    held_at = {}
    count = {}
    for key, (f, evs) in sites.items():
        ls = locksets(f, entry_held(f))
        for b, i, e in evs:
            h = ls.held(e)
            held_at[id(e)] = h
            for m in h:
                count[m] = count.get(m, 0) + 1
    out_mutex = max(sorted(count), key=lambda m: count[m]) if count else None
    for key, (f, evs) in sorted(sites.items(), key=lambda kv: kv[1][0].sname):
        bad = [(b, i, e) for b, i, e in evs if out_mutex is None or out_mutex not in held_at[id(e)]]
        rep.ob(clause, 'K6 lock discipline', '%s: every insertion into the session output stream holds the output mutex' % f.sname,
               not bad, R.site(f, bad[0][2]) if bad else f.where,
               'output mutex: %s; %d insertions, %d without it%s' % (out_mutex, len(evs), len(bad), ('; on entry: %s' % sorted(entry_held(f))) if entry_held(f) else ''), f.sname)
    # the output mutex is not recursive: nothing called while it is held acquires it again (self-deadlock: no output ever again)
    if out_mutex is not None:
        from ..locks import _accessor_path, _is_lock_type
        acquirers = set()
        for f in fb.funcs.values():
            if not (f.has_cfg and R.in_engine(f)):
                continue
            for b, i, e in f.events():
                if e.get('k') == 'decl':
                    for v in e.get('vars', []):
                        init = v.get('init')
                        if _is_lock_type(v.get('ct') or v.get('t')) and isinstance(init, dict) and init.get('args') and \
                                (ap(init['args'][0]) or _accessor_path(init['args'][0])) == out_mutex:
                            acquirers.add(f.key)
        rep.floor(clause, 'functions acquiring the output mutex', len(acquirers), 8)
        blockers = set()
        for f in fb.funcs.values():
            if f.has_cfg and R.in_engine(f) and any(e.get('k') == 'call' and (cname(e).startswith(('std::condition_variable::wait', 'std::thread::join', 'std::this_thread::sleep')) or cname(e) in ('std::mutex::lock',)) for _, _, e in f.events()):
                blockers.add(f.key)
        blocking = []
        n_held_calls = 0
        nested = []
        for f in fb.funcs.values():
            if f.key not in acquirers and not (f.key in sites and out_mutex in entry_held(f)):
                continue
            ls = locksets(f, entry_held(f))
            for b, i, e in f.events():
                if e.get('k') in ('call', 'ctor') and e.get('repo') and out_mutex in ls.held(e):
                    n_held_calls += 1
                    tgts = [g.key for g in fb.by_name.get(cname(e), [])]
                    hit = sorted(fb.kname(k) for k in cg.reachable(tgts) & acquirers)
                    if hit:
                        nested.append((f, e, hit))
                    hitb = sorted(fb.kname(k) for k in cg.reachable(tgts) & blockers)
                    if hitb:
                        blocking.append((f, e, hitb))
        rep.ob(clause, 'K6 lock discipline', 'no function called with the output mutex held acquires it again', not nested,
               R.site(nested[0][0], nested[0][1]) if nested else '', '%d repo calls made with the mutex held; re-acquiring: %s' % (n_held_calls, [(f.sname, show(e, 60), h) for f, e, h in nested[:3]]),
               nested[0][0].sname if nested else '')
        rep.ob(clause, 'K6 lock discipline', 'no function called with the output mutex held waits for another thread', not blocking,
               R.site(blocking[0][0], blocking[0][1]) if blocking else '', 'functions that wait/join/sleep: %d; reached with the mutex held: %s' % (len(blockers), [(f.sname, show(e, 60), h[:2]) for f, e, h in blocking[:3]]),
               blocking[0][0].sname if blocking else '')


# ----------------------------------------------------------------------------- .14

def _uci_params(t):
    return {n['q'].split('::')[-1] for n in walk(t) if n.get('k') == 'var' and str(n.get('q', '')).startswith('UciParams::')}


def c14_limited_strength_single_thread(fb, rep):
    """K10 agreement between two sites: the strength-limiting machinery of Search (random evaluation noise, move
    skipping, the MaxNPS sleep in shouldStop, which sleeps for total-nodes / maxNPS) runs on the master thread only and
    counts the nodes of all threads; it is sound only with a single search thread.  So every UCI parameter that feeds
    Search::setStrength must force nThreads = 1 where the search is started - either by appearing in that guard, or by
    being read only where a parameter that is itself a bare disjunct of the guard is true."""
    clause = 'C05.14'
    st = fb.find1('EngineControl::startThread')
    ss = fb.find1('EngineMainThread::startSearch')
    if not rep.need(clause, st, 'EngineControl::startThread') or not rep.need(clause, ss, 'EngineMainThread::startSearch'):
        return
    # the single-thread guard
    guard = None
    for b, i, e in ss.events():
        if e.get('k') == 'asg' and (_strip_c(e.get('r')) or {}).get('cv') == 1 and isinstance(_strip_c(e.get('l')), dict) and _strip_c(e['l']).get('k') == 'var':
            vid = _strip_c(e['l'])['id']
            # the variable is the thread count handed to the thread assignment
            if not any(ev.get('k') == 'call' and any(n.get('k') == 'var' and n.get('id') == vid for a in ev.get('args', []) for n in walk(a)) for _, _, ev in ss.events()):
                continue
            for bid, blk in ss.blocks.items():
                t = blk.get('term') or {}
                if t.get('c') == 'IfStmt' and blk['succ'] and blk['succ'][0] == b:
                    guard = t.get('cond')
    if rep.need(clause, guard, 'the guard of `nThreads = 1` in EngineMainThread::startSearch') is None:
        return
    decls = {v['id']: v.get('init') for _, _, e in ss.events() if e.get('k') == 'decl' for v in e.get('vars', []) if v.get('init') is not None}

    def expand(t, depth=0):
        """parameters a condition depends on, through the locals it mentions"""
        out = _uci_params(t)
        if depth < 4:
            for n in walk(t):
                if n.get('k') == 'var' and n.get('vk') == 'local' and n.get('id') in decls:
                    out |= expand(decls[n['id']], depth + 1)
        return out
    gparams = expand(guard)

    def disjuncts(c):
        c = _strip_c(c)
        if isinstance(c, dict) and c.get('k') == 'bin' and c.get('op') == '||':
            return disjuncts(c.get('l')) + disjuncts(c.get('r'))
        return [c]
    bare = set()
    for d in disjuncts(guard):
        if isinstance(d, dict) and d.get('k') == 'call' and cname(d).split('::')[-1] == 'getBoolPar':
            bare |= _uci_params(d)
    # functions feeding setStrength
    feeders = []
    direct = set()
    for b, i, e in st.events():
        if e.get('k') == 'call' and cname(e) == 'Search::setStrength':
            for a in e.get('args', []):
                direct |= _uci_params(a)
                for n in walk(a):
                    if n.get('k') == 'call' and n.get('repo') and cname(n).startswith('EngineControl::'):
                        g = fb.find1(cname(n))
                        if g is not None and g.has_cfg:
                            feeders.append(g)
    rep.floor(clause, 'functions feeding Search::setStrength', len(feeders), 2)
    from .. import regions as G
    need = {}
    for p_ in direct:
        need[p_] = [('EngineControl::startThread', False)]
    for g in feeders:
        trees = [(b, e) for b, i, e in g.events()] + [(bid, blk['term']['cond']) for bid, blk in g.blocks.items() if bid not in g.dead and (blk.get('term') or {}).get('cond') is not None]
        for b, t in trees:
            ps = _uci_params(t)
            if not ps:
                continue
            enabling = set()
            for c, side in G.guard_trees(g, set(g.blocks), b):
                if side and isinstance(_strip_c(c), dict) and _strip_c(c).get('k') == 'call' and cname(_strip_c(c)).split('::')[-1] == 'getBoolPar':
                    enabling |= _uci_params(c)
            for p_ in ps:
                need.setdefault(p_, []).append((g.sname, bool(enabling & bare)))
    rep.floor(clause, 'UCI parameters feeding Search::setStrength', len(need), 3)
    for p_, reads in sorted(need.items()):
        ok = p_ in gparams or all(cov for _, cov in reads)
        rep.ob(clause, 'K10 site agreement', 'the strength-limiting parameter %s forces a single search thread' % p_, ok, ss.where,
               'single-thread guard reads %s (bare switches %s); %s is read in %s' % (sorted(gparams), sorted(bare), p_, sorted({fn for fn, _ in reads})), ss.sname)


def G_reaches(f, a, b):
    from .. import regions as G_
    return G_._reaches(f, a, b)


def _strip_c(t):
    while isinstance(t, dict) and (t.get('k') == 'cast' or (t.get('k') == 'paren')):
        t = t.get('e')
    return t


# ----------------------------------------------------------------------------- .8

def c8_no_blocking_during_search(fb, rep, cg):
    """waitOptionsSet() blocks until the engine thread has applied pending options, which it only does when no
    search is running.  If the protocol thread calls it while a search runs, `stop` is never read: deadlock.
    So every call must come after waitStop() on every path, or be guarded by exactly `!sc` (no search object)."""
    clause = 'C05.8'
    sites = [(f, b, i, e) for (f, b, i, e) in cg.call_sites('EngineMainThread::waitOptionsSet') if R.in_engine(f)]
    rep.floor(clause, 'waitOptionsSet call sites', len(sites), 2)
    for f, b, i, e in sites:
        after_stop = f.path_avoiding((f.entry, -1), lambda x, _e=e: x is _e, R.is_named_call('EngineMainThread::waitStop')) is None
        from .. import regions as G
        g = G.guards_of(f, set(f.blocks), b)
        # evaluated, not matched: unreachable while a search object exists, reachable when there is none
        scv = lambda v: (lambda t: ('v', v) if (t.get('k') == 'mem' and ap(t) == 'this.sc') else (('v', 0) if t.get('k') in ('nullptr', 'null') else None))
        only_nosearch = G.excluded_under(f, b, scv(1)) and not G.excluded_under(f, b, scv(0))
        rep.ob(clause, 'K4 guard', '%s: waits for pending options only after the search was stopped, or when no search object exists' % f.sname,
               after_stop or only_nosearch, R.site(f, e), 'preceded by waitStop on every path: %s; guards: %s' % (after_stop, g), f.sname)
    # the same for waitStop: only stopThread (which first installs the zero time limit, C06.2) may block on it
    R.who_may_call(rep, fb, cg, clause, 'EngineMainThread::waitStop', {'EngineControl::stopThread'}, scope=R.in_engine)
    R.who_may_call(rep, fb, cg, clause, 'EngineMainThread::waitOptionsSet', {'EngineControl::stopThread', 'EngineControl::waitReady'}, scope=R.in_engine)


# ----------------------------------------------------------------------------- .9

def c9_token_lookahead(fb, rep):
    """K3 look-ahead discipline of the command parser: a token that is taken with a consuming read
    (`tokens[idx++]`) is never afterwards *rejected* by a test that leaves the enclosing loop.  A word that only
    ends a list (the first non-move after `searchmoves`) must be peeked at, not consumed - otherwise the
    sub-command keyword that follows the list is swallowed, its argument is skipped as an unknown word, and a
    limited `go` becomes an infinite one that never answers."""
    clause = 'C05.9'
    f = fb.find1('UCIProtocol::handleCommand')
    if rep.need(clause, f, 'UCIProtocol::handleCommand') is None:
        return

    def consuming_read(t):
        for n in walk(t):
            if n.get('k') == 'call' and n.get('op') == '[]' and any(x.get('k') == 'incdec' for a in n.get('args', []) for x in walk(a)):
                return True
        return False
    n_reads = 0
    n_peek = 0
    for b, i, e in f.events():
        if e.get('k') == 'call' and e.get('op') == '[]' and 'basic_string' in (e.get('t') or '') + (cname(e) or '') or (e.get('k') == 'call' and e.get('op') == '[]' and 'vector' in cname(e)):
            if any(x.get('k') == 'incdec' for a in e.get('args', []) for x in walk(a)):
                n_reads += 1
            else:
                n_peek += 1
    rep.floor(clause, 'consuming token reads in the command parser', n_reads, 10)
    # values derived from a consuming read
    derived = {}
    for b, i, e in f.events():
        if e.get('k') == 'decl':
            for v in e.get('vars', []):
                if v.get('init') is not None and consuming_read(v['init']):
                    derived[v['id']] = (v['n'], e)
    bad = []
    for bid, blk in f.blocks.items():
        if bid in f.dead:
            continue
        t = blk.get('term') or {}
        c = t.get('cond')
        if c is None or len(blk['succ']) != 2:
            continue
        used = [n['id'] for n in walk(c) if n.get('k') == 'var' and n.get('id') in derived]
        direct = consuming_read(c)
        if not used and not direct:
            continue
        for s_ in blk['succ']:
            sb = f.blocks[s_]
            # a side that does nothing but leave the loop
            x = s_
            hops = 0
            while hops < 3 and not [ev for ev in f.blocks[x]['ev'] if ev.get('k') not in ('acc', 'dtor')] and (f.blocks[x].get('term') or {}).get('c') != 'BreakStmt' and len(f.blocks[x]['succ']) == 1:
                x = f.blocks[x]['succ'][0]
                hops += 1
            if (f.blocks[x].get('term') or {}).get('c') == 'BreakStmt' and not [ev for ev in f.blocks[x]['ev'] if ev.get('k') not in ('acc', 'dtor')]:
                bad.append((t.get('ln'), show(c, 80), [derived[u][0] for u in used]))
    rep.ob(clause, 'K3 look-ahead', 'handleCommand: no token taken with a consuming read is afterwards rejected by a test that only leaves the loop (list terminators are peeked at)',
           not bad, '%s:%s' % (f.file, bad[0][0]) if bad else f.where,
           '; '.join('line %s: `%s` rejects %s' % (ln, c, vs or 'the token just consumed') for ln, c, vs in bad) if bad else '%d consuming reads, %d peeks' % (n_reads, n_peek), f.sname)
