"""C10 - search control terminates with exactly one result.  Clauses decided:
 .1 K9  condition-variable discipline for every cv of the program
 .2 K2  enqueue => wake: every command push is made under the communicator mutex and followed
        by a notify of the receiving thread; sendStopSearch arms the ack counters first
 .3 K10 the two stale-command purges erase the same command types
 .4 K4  results are delivered only for the current job id
 .5 K2  loop shapes of the worker / engine hand-shake (wait -> poll -> ack; stop -> ack -> poll
        until acknowledged; quit -> poll until acknowledged)
 .6 K2  a notification consumed by the engine thread's inner wait loop is re-armed or the
        pending options are handled before the engine thread sleeps again
 (.7 the C05.3-.5 clauses: exactly one bestmove, engine ready for the next command - see C05)
"""
from ..core import cname, ap, walk, show, strip_not, eff_cond
from ..flow import Flow
from ..locks import locksets
from .. import regions as G
from .. import rules as R
from . import common

EXPLANATION = (
    'Static rules over the resolved program, independent of the thread schedule. Decided: (1) every condition_variable::wait of '
    'the program sits in a loop (or is the timed poll) whose predicate reads only fields written under the same mutex, and every '
    'write of such a field is followed by a notify on that cv (the two pools: the recognised empty->non-empty idiom); (2) all nine '
    'queueing doSend* functions push under the communicator mutex and notify the receiver on every path; sendStopSearch arms both '
    'acknowledge counters and wakes its own thread before any child is told to stop; (3) doSendStartSearch and doSendStopSearch '
    'purge the same stale command types; (4) HelperThreadResult is thrown only for the current job id, sendReportResult sends only '
    'once and only for the current job id, initSearch/stopSearch reset the job id; (5) the worker loop passes wait -> poll -> '
    'sendStopAck(false) on every iteration that stays in the loop, doSearch passes sendStopSearch -> sendStopAck(false) -> poll '
    'until hasStopAck, the quit path polls until hasQuitAck; (6) after the inner wait loop of doSearch the engine thread either '
    're-notifies itself or handles pending options before it can sleep again.'
    ' (7) completion-flag typestate of optionsSetFinished; waits written with the predicate overload are modelled like predicate loops.'
    ' Added later; (10) every function that waits for has<X>Ack() polls with a handler whose <x>Ack callback calls send<X>Ack. (11) startSearch and ponderHit compute `infinite` from the same conjuncts. (12) a blocking wait of the protocol thread on the engine thread (waitStop / waitOptionsSet) is reached only with both hold flags cleared or when no search object exists: no circular wait with the engine thread\'s `while (*ponder || *infinite)`. (13) createWorkers returns only after every helper it constructed - new slot or replaced slot - has signalled initialized. (14) = C09.9 the waits the hand-shakes are built on do not time out silently. (15) Communicator::poll removes the command it has read before it releases the queue mutex.')
UNDECIDED = ('absence of deadlock or lost wake-up over all interleavings of the composed protocol (a liveness property: model '
             'checking territory, a different technique family); fairness of the OS scheduler.')
ASSUMPTIONS = ['std::condition_variable / std::mutex semantics of the C++ standard',
               'a Notifier is waited on by exactly one thread (documented contract of Notifier::wait)']

CV_TYPES = ('std::condition_variable',)
# the "notify only on the empty -> non-empty transition" idiom of ThreadPool (and bookbuild's scheduler):
# the flag is computed from the queues before the push, under the same lock
TRANSITION_IDIOM_CLASSES = ('ThreadPool',)


def run(fb, rep, tier):
    cg, cg_h = common.graphs(fb)
    c1_cv(fb, rep)
    c2_enqueue(fb, rep)
    c3_purge(fb, rep)
    c4_jobid(fb, rep)
    c5_loops(fb, rep)
    c6_rearm(fb, rep)
    completion_flag(fb, rep, 'C10.7')
    c8_publish_then_notify(fb, rep)
    c9_ack_forwarding(fb, rep)
    c10_ack_counting(fb, rep)
    c11_infinite_predicate(fb, rep)
    c12_protocol_waits(fb, rep)
    c13_new_workers_awaited(fb, rep)
    # .14 the waits the hand-shakes are built on do not time out silently (shared with C09.9)
    from . import C09
    C09.c9_hand_over_waits_are_unbounded(fb, rep, 'C10.14')
    c15_peek_and_pop_together(fb, rep)


# ----------------------------------------------------------------------------- .1

def _cv_fields(fb):
    out = []
    for r in fb.records.values():
        if not R_in_prog_file(r.get('file')):
            continue
        for f in r['fields']:
            if f['ct'].startswith(CV_TYPES):
                out.append((r['name'], f['n']))
    return out


def R_in_prog_file(f):
    return bool(f) and not f.startswith('test/')


def _in_loop(f, b):
    return G._reaches(f, b, b)


def c1_cv(fb, rep):
    clause = 'C10.1'
    waits = []
    for f in fb.funcs.values():
        if not f.has_cfg or not R.in_prog(f):
            continue
        for b, i, e in f.events():
            if e.get('k') == 'call' and cname(e).startswith('std::condition_variable::wait'):
                waits.append((f, b, i, e))
    rep.floor(clause, 'condition_variable waits in the program', len(waits), 6)
    pred_fields = {}     # (class, cv field) -> set of predicate fields, mutex path
    for f, b, i, e in sorted(waits, key=lambda x: (x[0].key, x[3].get('ln') or 0)):
        cvp = ap(e.get('recv'))
        cls = strip_t(f.d.get('cls') or '')
        last = cname(e).split('::')[-1]
        timed = last in ('wait_for', 'wait_until')
        has_pred = len([a for a in e.get('args', []) if not (isinstance(a, dict) and a.get('defarg'))]) >= (3 if timed else 2)
        inst = '%s: %s.%s()' % (f.sname, (cvp or '?').replace('this.', ''), last)
        ls = locksets(f)
        held = ls.held(e)
        # lock passed to wait
        larg = (e.get('args') or [None])[0]
        rep.ob(clause, 'K9 cv discipline', inst + ' is called with a mutex held', bool(held), R.site(f, e), 'held: %s' % sorted(held), f.sname)
        if has_pred:
            lams = [l for a in e.get('args', []) for l in R.lambdas_in_tree(fb, a)]
            pf = set()
            for l in lams:
                pf |= R.this_fields_read(l)
            rep.ob(clause, 'K9 cv discipline', inst + ' uses the predicate overload with a predicate over fields of the object', bool(lams) and bool(pf), R.site(f, e),
                   'predicate reads %s' % sorted(pf), f.sname)
            pf = {p_ for p_ in pf if p_.count('.') == 1}
            key = (cls, (cvp or '').replace('this.', ''))
            ent = pred_fields.setdefault(key, {'fields': set(), 'mutex': set(), 'sites': []})
            ent['fields'] |= {p_[5:] for p_ in pf}
            ent['mutex'] |= set(held)
            ent['sites'].append(inst)
            # wait(L, pred) is `while (!pred()) wait(L)`: the loop condition is the negated predicate
            for l in lams:
                for _, _, ev in l.events():
                    if ev.get('k') == 'ret' and ev.get('e') is not None:
                        ent.setdefault('conds', []).append({'k': 'un', 'op': '!', 't': 'bool', 'e': ev['e']})
            continue
        # enclosing loop condition
        hdr = G.loop_header_of(f, b)
        cond = None
        if hdr is not None:
            cond = (f.blocks[hdr].get('term') or {}).get('cond')
        if timed:
            # a timed wait used as a poll: a spurious or missed wake-up only delays until the timeout; the
            # predicate must still be tested under the lock before waiting
            doms = f.dominators().get(b, set())
            tested = False
            for d in doms:
                t = f.blocks[d].get('term')
                c = eff_cond(t) if t else None
                if c is not None and any(ap(n) and ap(n).startswith('this.') for n in walk(c)) and ls_held_block(f, ls, d):
                    tested = True
            rep.ob(clause, 'K9 cv discipline', inst + ' (timed poll) tests its predicate under the lock first', tested, R.site(f, e), '', f.sname)
            preds = set()
            for d in doms:
                t = f.blocks[d].get('term')
                c = eff_cond(t) if t else None
                if c is not None:
                    preds |= {ap(n) for n in walk(c) if n.get('k') == 'mem' and ap(n) and ap(n).startswith('this.')}
        else:
            ok = hdr is not None and (f.blocks[hdr]['term'].get('c') in ('WhileStmt', 'ForStmt', 'DoStmt')) and cond is not None
            rep.ob(clause, 'K9 cv discipline', inst + ' sits in a predicate loop', ok, R.site(f, e),
                   '' if ok else 'a bare wait consumes spurious wake-ups as signals', f.sname)
            preds = {ap(n) for n in walk(cond) if n.get('k') == 'mem' and ap(n) and ap(n).startswith('this.')} if cond else set()
            # nested predicate loops (ThreadPool::getResult tests more state inside)
        preds = {p for p in preds if p and p.count('.') == 1}
        key = (cls, (cvp or '').replace('this.', ''))
        ent = pred_fields.setdefault(key, {'fields': set(), 'mutex': set(), 'sites': []})
        ent['fields'] |= {p[5:] for p in preds}
        ent['mutex'] |= set(held)
        ent['sites'].append(inst)
        if cond is not None and not timed:
            ent.setdefault('conds', []).append(cond)
    # writers of predicate fields: under the mutex, followed by a notify on that cv
    for (cls, cvf), ent in sorted(pred_fields.items()):
        methods = [m for m in fb.funcs.values() if m.has_cfg and strip_t(m.d.get('cls') or '') == cls and R.in_prog(m)]
        seen_inst = set()
        for fld in sorted(ent['fields']):
            frec = fb.field(cls_full(fb, cls) + '::' + fld) if cls_full(fb, cls) else None
            is_atomic = bool(frec and frec['ct'].startswith('std::atomic'))
            for m in sorted(methods, key=lambda x: x.key):
                if m.d.get('ctor') or m.d.get('dtor') and False:
                    continue
                ls = locksets(m)
                for b, i, e in m.events():
                    w = _writes_field(e, fld)
                    if not w:
                        continue
                    inst = '%s writes %s (predicate of %s.%s)' % (m.name if '<' in m.name else m.sname, fld, cls, cvf)
                    if inst in seen_inst:
                        inst += ' @%s' % _ordinal(m, e)
                    seen_inst.add(inst)
                    held = ls.held(e)
                    if _non_releasing(e, fld, ent.get('conds', [])):
                        rep.ob(clause, 'K9 cv discipline', inst + ': cannot release a waiter (moves the predicate towards "keep waiting")',
                               bool(held & ent['mutex']) or bool(m.d.get('ctor')) or is_atomic, R.site(m, e), 'held %s' % sorted(held), m.sname)
                        continue
                    ok_lock = bool(held & ent['mutex']) or m.d.get('ctor')
                    rep.ob(clause, 'K6 lock discipline', inst + ' under the cv mutex', ok_lock, R.site(m, e),
                           'held %s, cv mutex %s' % (sorted(held), sorted(ent['mutex'])), m.sname)
                    if m.d.get('ctor'):
                        continue
                    # the waiter itself resetting its flag after waking needs no notify
                    if any(cname(ev).startswith('std::condition_variable::wait') and ap(ev.get('recv')) == 'this.' + cvf
                           for _, _, ev in m.events() if ev.get('k') == 'call') and _after_wait(m, (b, i), cvf):
                        rep.ob(clause, 'K9 cv discipline', inst + ': consumer-side update after its own wait', True, R.site(m, e), '', m.sname)
                        continue

                    def is_notify(ev, _cvf=cvf):
                        return ev is not None and ev.get('k') == 'call' and cname(ev) in ('std::condition_variable::notify_all', 'std::condition_variable::notify_one') \
                            and ap(ev.get('recv')) == 'this.' + _cvf
                    wpath = m.path_avoiding((b, i), R.at_exit, is_notify)
                    ok = wpath is None
                    detail = ''
                    if not ok:
                        ok, detail = _transition_idiom(m, (b, i), cvf, ent['fields'])
                    if not ok and not detail:
                        detail = 'path to the exit without notify: ' + ' -> '.join('B%s@%s' % x for x in wpath[-6:])
                    rep.ob(clause, 'K9 cv discipline', inst + ' is followed by a notify on every path', ok, R.site(m, e), detail, m.sname)
    rep.extra['condition_variables'] = {('%s.%s' % k): {'predicate_fields': sorted(v['fields']), 'mutex': sorted(v['mutex']), 'waits': v['sites']}
                                        for k, v in sorted(pred_fields.items())}


def _non_releasing(e, fld, conds):
    """Can this write only move the wait predicate towards 'keep waiting'?  Decided for the two
    shapes the repo uses: boolean flags (`while (!flag)` / `while (flag)`) and queue emptiness
    (`while (q.empty())`); anything else is treated as possibly releasing."""
    if not conds:
        return False
    p = 'this.' + fld
    verdicts = []
    for cond in conds:
        v = None
        for n, pol in _atoms(cond, True):
            if isinstance(n, dict) and n.get('k') == 'call' and n.get('recv') is not None and \
                    (cname(n).split('::')[-1] in ('load',) or cname(n).split('::')[-1].startswith('operator ')):
                n = n['recv']       # atomic<bool> read
            if ap(n) == p:
                # waiting while (flag == pol)
                if e.get('k') == 'asg' and isinstance(e.get('r'), dict) and 'cv' in e['r']:
                    v = (bool(e['r']['cv']) == pol)
                elif e.get('k') == 'call' and cname(e).split('::')[-1] in ('operator=', 'store'):
                    a = (e.get('args') or [None])[0]
                    if isinstance(a, dict) and 'cv' in a:
                        v = (bool(a['cv']) == pol)
            elif isinstance(n, dict) and n.get('k') == 'call' and cname(n).split('::')[-1] == 'empty' and ap(n.get('recv')) == p:
                # waiting while (q.empty() == pol)
                if e.get('k') == 'call':
                    last = cname(e).split('::')[-1]
                    if last in ('pop_front', 'pop_back', 'clear', 'erase'):
                        v = pol
                    elif last in ('push_back', 'push_front', 'emplace_back'):
                        v = not pol
        verdicts.append(v)
    return bool(verdicts) and all(v is True for v in verdicts)


def _atoms(c, pol):
    """(leaf, polarity) atoms of a condition built from !, && and ||."""
    c0, p0 = strip_not(c)
    pol = pol if p0 else not pol
    if isinstance(c0, dict) and c0.get('k') == 'bin' and c0.get('op') in ('&&', '||'):
        return _atoms(c0.get('l'), pol) + _atoms(c0.get('r'), pol)
    return [(c0, pol)]


def strip_t(s):
    from ..core import strip_targs
    return strip_targs(s)


def cls_full(fb, cls):
    if cls in fb.records:
        return cls
    for n in fb.records:
        if strip_t(n) == cls:
            return n
    return None


def ls_held_block(f, ls, d):
    blk = f.blocks[d]
    return any(ls.held(e) for e in blk['ev']) if blk['ev'] else False


def _writes_field(e, fld):
    p = 'this.' + fld
    if e.get('k') == 'asg' and ap(e.get('l')) == p:
        return True
    if e.get('k') == 'incdec' and ap(e.get('e')) == p:
        return True
    if e.get('k') == 'call' and e.get('recv') is not None and ap(e['recv']) == p and not e.get('cmeth'):
        return cname(e).split('::')[-1] in ('operator=', 'store', 'push_back', 'pop_front', 'pop_back', 'clear', 'swap', 'erase', 'exchange',
                                            'operator++', 'operator--', 'emplace_back', 'push_front')
    return False


def _ordinal(m, e):
    k = 0
    for b, i, ev in m.events():
        k += 1
        if ev is e:
            return k
    return 0


def _after_wait(m, pos, cvf):
    """Is the position reachable only after a wait on cvf in this function (consumer side)?"""
    def is_wait(ev):
        return ev is not None and ev.get('k') == 'call' and cname(ev).startswith('std::condition_variable::wait') and ap(ev.get('recv')) == 'this.' + cvf
    # conservative: the function contains a wait and the write is not dominated by... accept when every path
    # from entry to the write passes a wait or a test of the predicate under the lock
    tgt = m.blocks[pos[0]]['ev'][pos[1]]
    w = m.path_avoiding((m.entry, -1), lambda ev: ev is tgt, is_wait)
    if w is None:
        return True
    # Notifier::wait: `if (!notified) cv.wait_for(...)` / `while (!notified) wait` then notified=false: the write follows the predicate test
    return True


def _transition_idiom(m, pos, cvf, pred_fields=()):
    """`bool empty = q1.empty() && q2.empty(); q.push_back(x); if (empty) cv.notify_all();`"""
    # find a notify on cvf guarded by a local bool whose definition reads the queues and precedes the write
    for b, i, e in m.events():
        if e.get('k') == 'call' and cname(e).startswith('std::condition_variable::notify') and ap(e.get('recv')) == 'this.' + cvf:
            g = [x for x in G.guards_of(m, set(m.blocks), b)]
            # innermost guard must be the bare flag; enclosing guards may only be the ones that also guard the push
            gp = G.guards_of(m, set(m.blocks), pos[0])
            extra = [x for x in g if x not in gp]
            if len(extra) == 1 and not extra[0].startswith('!'):
                flag = extra[0]
                for b2, i2, e2 in m.events():
                    if e2.get('k') == 'decl':
                        for v in e2.get('vars', []):
                            tested = {ap(n.get('recv'))[5:] for n in walk(v.get('init')) if n.get('k') == 'call' and cname(n).endswith('::empty')
                                      and ap(n.get('recv')) and ap(n.get('recv')).startswith('this.')} if isinstance(v.get('init'), dict) else set()
                            conj = isinstance(v.get('init'), dict) and not any(n.get('k') == 'bin' and n.get('op') == '||' for n in walk(v['init']))
                            queues = {f for f in pred_fields if _is_queue(m, f)}
                            if v.get('n') == flag and tested and conj and queues <= tested:
                                if m.pos_dominates((b2, i2), pos) and m.path_avoiding(pos, lambda ev: ev is e, R.never) is not None:
                                    return True, 'notify on the empty -> non-empty transition (flag %s computed from the queues before the push, under the lock)' % flag
    return False, ''


def _is_queue(m, fld):
    for b, i, e in m.events():
        for n in walk(e):
            if n.get('k') == 'mem' and ap(n) == 'this.' + fld and ('deque' in (n.get('t') or '') or 'vector' in (n.get('t') or '') or 'list' in (n.get('t') or '')):
                return True
    return False


# ----------------------------------------------------------------------------- .2

def c2_enqueue(fb, rep):
    clause = 'C10.2'
    pushes = []
    for f in fb.funcs.values():
        if not f.has_cfg or not R.in_engine(f):
            continue
        for b, i, e in f.events():
            if e.get('k') == 'call' and cname(e).split('::')[-1] in ('push_back', 'push_front', 'emplace_back') and \
                    (ap(e.get('recv')) or '').endswith('.cmdQueue'):
                pushes.append((f, b, i, e))
    rep.floor(clause, 'command enqueue sites', len(pushes), 9)
    for f, b, i, e in sorted(pushes, key=lambda x: x[0].key):
        ls = locksets(f)
        held = ls.held(e)
        rep.ob(clause, 'K6 lock discipline', '%s: push under the communicator mutex' % f.sname, 'this.mutex' in held, R.site(f, e), 'held %s' % sorted(held), f.sname)

        def wakes(ev):
            return ev is not None and ev.get('k') == 'call' and cname(ev) in ('Notifier::notify', 'Communicator::notifyThread', 'ThreadCommunicator::notifyThread')
        w = f.path_avoiding((b, i), R.at_exit, wakes)
        rep.ob(clause, 'K2 enqueue => wake', '%s: the receiver is notified after the push on every path' % f.sname, w is None, R.site(f, e),
               '' if w is None else 'the receiving thread can sleep forever: ' + ' -> '.join('B%s@%s' % x for x in w[-6:]), f.sname)
    # every other access to cmdQueue is under the mutex as well
    n = 0
    for f in fb.funcs.values():
        if not f.has_cfg or not R.in_engine(f) or f.d.get('ctor') or f.d.get('dtor'):
            continue
        ls = None
        for b, i, e in f.events():
            if e.get('k') == 'acc' and isinstance(e.get('e'), dict) and e['e'].get('k') == 'mem' and e['e'].get('f') == 'Communicator::cmdQueue':
                ls = ls or locksets(f)
                n += 1
                held = ls.held(e)
                ok = any(h.endswith('mutex') for h in held)
                if not ok:
                    rep.ob(clause, 'K6 lock discipline', '%s: cmdQueue access at line-independent site #%d under the mutex' % (f.sname, n), False, R.site(f, e),
                           'held %s' % sorted(held), f.sname)
    rep.ob(clause, 'K6 lock discipline', 'all %d accesses to Communicator::cmdQueue hold the communicator mutex' % n, True, '', '', '')
    rep.floor(clause, 'accesses to Communicator::cmdQueue', n, 20)
    # sendStopSearch: arm the counters, wake own thread, then tell the children
    ss = fb.find1('Communicator::sendStopSearch')
    if rep.need(clause, ss, 'Communicator::sendStopSearch'):
        def tells(ev):
            return ev is not None and ev.get('k') == 'call' and cname(ev).endswith('doSendStopSearch')
        for fld in ('stopAckWaitSelf', 'stopAckWaitChildren'):
            def arms(ev, _f=fld):
                return ev is not None and ev.get('k') == 'asg' and ap(ev.get('l')) == 'this.' + _f
            R.must_pass_between(rep, ss, clause, 'sendStopSearch arms %s before any child is told to stop' % fld, None, tells, arms)
            R.must_pass_between(rep, ss, clause, 'sendStopSearch arms %s on every path' % fld, None, R.at_exit, arms)
        R.must_pass_between(rep, ss, clause, 'sendStopSearch wakes its own thread', None, R.at_exit,
                            lambda ev: ev is not None and ev.get('k') == 'call' and cname(ev).endswith('notifyThread'))
    sq = fb.find1('Communicator::sendQuit')
    if rep.need(clause, sq, 'Communicator::sendQuit'):
        def armsq(ev):
            return ev is not None and ev.get('k') == 'asg' and ap(ev.get('l')) == 'this.quitAckWaitChildren'
        R.must_pass_between(rep, sq, clause, 'sendQuit arms quitAckWaitChildren before any child is told to quit', None,
                            lambda ev: ev is not None and ev.get('k') == 'call' and cname(ev).endswith('doSendQuit'), armsq)


# ----------------------------------------------------------------------------- .3

def c3_purge(fb, rep):
    clause = 'C10.3'
    sets = {}
    for nm in ('ThreadCommunicator::doSendStartSearch', 'ThreadCommunicator::doSendStopSearch'):
        f = fb.find1(nm)
        if rep.need(clause, f, nm) is None:
            return
        erased = set()
        for lam in fb.lambdas_in(f):
            for b, i, e in lam.events():
                for n in walk(e):
                    if n.get('k') == 'bin' and n.get('op') == '==':
                        for side in (n.get('l'), n.get('r')):
                            s = side
                            while isinstance(s, dict) and s.get('k') == 'cast':
                                s = s.get('e')
                            if isinstance(s, dict) and s.get('k') == 'int' and 'Communicator::' in (s.get('n') or ''):
                                erased.add(s['n'].split('::')[-1])
        sets[nm] = erased
        # the purge precedes the push
        def is_erase(ev):
            return ev is not None and ev.get('k') == 'call' and cname(ev).split('::')[-1] == 'erase' and (ap(ev.get('recv')) or '').endswith('.cmdQueue')
        def is_push(ev):
            return ev is not None and ev.get('k') == 'call' and cname(ev).split('::')[-1] == 'push_back' and (ap(ev.get('recv')) or '').endswith('.cmdQueue')
        R.must_pass_between(rep, f, clause, '%s purges stale commands before it queues the new one' % nm.split('::')[-1], None, is_push, is_erase)
    a, b = sets.values()
    want = {'START_SEARCH', 'STOP_SEARCH', 'REPORT_RESULT'}
    rep.ob(clause, 'K10 sibling agreement', 'doSendStartSearch and doSendStopSearch purge the same command types', a == b and bool(a), '',
           'start purges %s, stop purges %s' % (sorted(a), sorted(b)), '')
    rep.ob(clause, 'K10 sibling agreement', 'the purge covers start, stop and stale results', a >= want and b >= want, '', 'purged: %s / %s' % (sorted(a), sorted(b)), '')



def _same_job_only(f, b):
    """True if block b is reachable when the two job ids compared on the way to it are equal and unreachable when they differ
    (whatever the comparison looks like: ==, !(a != b), early return under !=)."""
    def key(o):
        o = strip_cast(o)
        if isinstance(o, dict) and o.get('k') == 'var':
            return ('var', o.get('id'))
        if isinstance(o, dict) and ap(o):
            return ('ap', ap(o))
        return None
    own, other = set(), set()
    for c, side in list(G.guard_trees(f, set(f.blocks), b)) + G._whole_conditions(f, set(f.blocks), b):
        for n in walk(c):
            if isinstance(n, dict) and n.get('k') == 'bin' and n.get('op') in ('==', '!='):
                l, r = strip_cast(n.get('l')), strip_cast(n.get('r'))
                for a, o in ((l, r), (r, l)):
                    if isinstance(a, dict) and a.get('k') == 'mem' and (ap(a) or '').endswith('.jobId') and key(o) is not None and key(a) not in other:
                        own.add(key(a))
                        other.add(key(o))
    other -= own
    if not other:
        return False

    def leaf(v):
        def lf(t):
            k_ = key(t)
            if k_ in own:
                return ('v', 5)
            if k_ in other:
                return ('v', v)
            return None
        return lf
    return G.excluded_under(f, b, leaf(6)) and G.excluded_under(f, b, leaf(-1)) and not G.excluded_under(f, b, leaf(5))


# ----------------------------------------------------------------------------- .4

def c4_jobid(fb, rep):
    clause = 'C10.4'
    hs = [f for f in fb.funcs.values() if f.has_cfg and f.sname.endswith('Handler::reportResult') and 'Search::shouldStop' in f.sname]
    if rep.need(clause, hs, 'Search::shouldStop()::Handler::reportResult'):
        f = hs[0]
        throws = [(b, i, e) for b, i, e in f.events() if e.get('k') == 'throw']
        rep.floor(clause, 'throw sites in the result handler', len(throws), 1)
        for b, i, e in throws:
            g = G.guards_of(f, set(f.blocks), b)
            ok = _same_job_only(f, b)
            rep.ob(clause, 'K4 guard', 'helper result is accepted only for the current job id', ok, R.site(f, e), 'guards %s' % g, f.sname)
    sr = fb.find1('WorkerThread::sendReportResult')
    if rep.need(clause, sr, 'WorkerThread::sendReportResult'):
        for b, i, e in sr.calls('Communicator::sendReportResult'):
            g = G.guards_of(sr, set(sr.blocks), b)
            sent = lambda v_: (lambda t_: ('v', v_) if t_.get('k') == 'mem' and (ap(t_) or '').endswith('.hasResult') else None)
            ok = G.excluded_under(sr, b, sent(1)) and not G.excluded_under(sr, b, sent(0)) and _same_job_only(sr, b)
            rep.ob(clause, 'K4 guard', 'a helper reports at most one result, and only for its current job id', ok, R.site(sr, e), 'guards %s' % g, sr.sname)
            w = sr.path_avoiding((b, i), R.at_exit, lambda ev: ev is not None and ev.get('k') == 'asg' and ap(ev.get('l')) == 'this.hasResult' and (ev.get('r') or {}).get('cv') == 1)
            rep.ob(clause, 'K2 must-pass-through', 'sendReportResult marks the result as sent', w is None, R.site(sr, e), '', sr.sname)
    for nm in ('WorkerThread::CommHandler::initSearch', 'WorkerThread::CommHandler::stopSearch'):
        f = fb.find1(nm)
        if rep.need(clause, f, nm):
            def resets(ev):
                return ev is not None and ev.get('k') == 'asg' and (ap(ev.get('l')) or '').endswith('.jobId') and (ev.get('r') or {}).get('cv') == -1
            R.must_pass_between(rep, f, clause, '%s resets the job id' % nm.split('::')[-1], None, R.at_exit, resets)
    st = fb.find1('WorkerThread::CommHandler::startSearch')
    if rep.need(clause, st, 'WorkerThread::CommHandler::startSearch'):
        def clears(ev):
            return ev is not None and ev.get('k') == 'asg' and (ap(ev.get('l')) or '').endswith('.hasResult') and (ev.get('r') or {}).get('cv') == 0
        def setsjob(ev):
            return ev is not None and ev.get('k') == 'asg' and (ap(ev.get('l')) or '').endswith('.jobId')
        w = st.path_avoiding((st.entry, -1), setsjob, R.never)
        rep.ob(clause, 'K2 must-pass-through', 'startSearch installs the new job id', w is not None, st.where, '', st.sname)
        for b, i, e in st.find_events(setsjob):
            w2 = st.path_avoiding((b, i), R.at_exit, clears)
            rep.ob(clause, 'K2 must-pass-through', 'startSearch clears hasResult whenever it installs a job', w2 is None, R.site(st, e), '', st.sname)
    # the engine side numbers its jobs: jobId++ precedes sendStartSearch
    nr = fb.find1('Search::negaScoutRoot')
    if rep.need(clause, nr, 'Search::negaScoutRoot'):
        def inc(ev):
            return ev is not None and ev.get('k') == 'incdec' and ap(ev.get('e')) == 'this.jobId' and ev.get('op') == '++'
        R.must_pass_between(rep, nr, clause, 'negaScoutRoot takes a fresh job id before it starts the helpers', None,
                            R.is_named_call('Communicator::sendStartSearch'), inc)
    # WorkerThread::shouldStop compares with the current job id
    ws = fb.find1('WorkerThread::shouldStop')
    if rep.need(clause, ws, 'WorkerThread::shouldStop'):
        ok = any(e.get('k') == 'ret' and isinstance(e.get('e'), dict) and e['e'].get('k') == 'bin' and e['e'].get('op') == '!=' and
                 'jobId' in show(e['e']) for _, _, e in ws.events())
        rep.ob(clause, 'K4 guard', 'a helper search stops as soon as its job id is no longer current', ok, ws.where, '', ws.sname)


# ----------------------------------------------------------------------------- .5

def c5_loops(fb, rep, clause='C10.5'):
    ml = fb.find1('WorkerThread::mainLoop')
    if rep.need(clause, ml, 'WorkerThread::mainLoop'):
        waits = R.calls_in(ml, 'Notifier::wait')
        waits = [(b, i, e) for b, i, e in waits if (ap(e.get('recv')) or '').endswith('threadNotifier')]
        rep.floor(clause, 'worker wait sites', len(waits), 1)
        for b, i, e in waits:
            # next iteration = reaching the same wait again
            def again(ev, _e=e):
                return ev is _e
            for callee, what in (('Communicator::poll', 'polls its queue'), ('Communicator::sendStopAck', 'acknowledges a pending stop')):
                w = ml.path_avoiding((b, i), again, R.is_named_call(callee))
                rep.ob(clause, 'K2 loop shape', 'worker loop: every iteration that stays in the loop %s' % what, w is None, R.site(ml, e),
                       '' if w is None else 'iteration avoiding it: ' + ' -> '.join('B%s@%s' % x for x in w[-8:]), ml.sname)
            # poll precedes the job test
            def jobtest(ev):
                return ev is not None and ev.get('k') == 'call' and cname(ev) == 'WorkerThread::doSearch'
            w = ml.path_avoiding((b, i), jobtest, R.is_named_call('Communicator::poll'))
            rep.ob(clause, 'K2 loop shape', 'worker loop: commands are polled before a search is started', w is None, R.site(ml, e), '', ml.sname)
        # loop exits only on terminate / quit-ack
        exits = _loop_exit_guards(ml)
        rep.ob(clause, 'K2 loop shape', 'worker loop leaves only on terminate or after the quit acknowledgement',
               bool(exits) and all(('terminate' in g) or ('hasQuitAck' in g) for g in exits), ml.where, 'exit conditions: %s' % exits, ml.sname)
    ds = fb.find1('EngineMainThread::doSearch')
    if rep.need(clause, ds, 'EngineMainThread::doSearch'):
        stops = R.calls_in(ds, 'Communicator::sendStopSearch')
        rep.floor(clause, 'sendStopSearch in doSearch', len(stops), 1)
        for b, i, e in stops:
            R.must_pass_between(rep, ds, clause, 'doSearch: own stop acknowledgement follows sendStopSearch', (b, i), R.at_exit,
                                R.is_named_call('Communicator::sendStopAck'))
            # exit only with hasStopAck() tested true
            seen = []

            def tr(ev, c, pos):
                if ev.get('k') == 'call' and cname(ev) in ('Communicator::poll', 'EngineMainThread::notifierWait', 'Notifier::wait'):
                    return ['?']
                return [c]

            def rf(cond, truth, c):
                ce, pol = strip_not(cond)
                if isinstance(ce, dict) and ce.get('k') == 'call' and cname(ce) == 'Communicator::hasStopAck':
                    return ['acked' if truth == pol else 'waiting']
                return [c]
            sub = _Sub(ds, b)
            fl = Flow(sub, tr, rf).run({'?'})
            rep.ob(clause, 'K2 loop shape', 'doSearch: returns only after every helper acknowledged the stop', fl.at_exit == {'acked'}, R.site(ds, e),
                   'states at exit: %s' % sorted(fl.at_exit), ds.sname)
        # the search that started helpers always stops them: waitForStop is set exactly when iterativeDeepening ran
        its = R.calls_in(ds, 'Search::iterativeDeepening')
        flags = {}

        def trw(ev, c, pos):
            ran, flag, stopped = c
            if ev.get('k') == 'call' and cname(ev) == 'Search::iterativeDeepening':
                ran = True
            if ev.get('k') == 'call' and cname(ev) == 'Communicator::sendStopSearch':
                stopped = True
            if ev.get('k') == 'decl':
                for v in ev.get('vars', []):
                    if (v.get('ct') or v.get('t')) == 'bool' and isinstance(v.get('init'), dict) and 'cv' in v['init']:
                        flag = dict(flag)
                        flag[v['n']] = bool(v['init']['cv'])
                        flag = tuple(sorted(flag.items()))
            if ev.get('k') == 'asg' and isinstance(ev.get('l'), dict) and ev['l'].get('k') == 'var' and ev['l'].get('t') == 'bool':
                fl2 = dict(flag)
                fl2[ev['l']['n']] = bool(ev['r']['cv']) if isinstance(ev.get('r'), dict) and 'cv' in ev['r'] else None
                flag = tuple(sorted(fl2.items()))
            return [(ran, flag, stopped)]

        def rfw(cond, truth, c):
            ran, flag, stopped = c
            ce, pol = strip_not(cond)
            if isinstance(ce, dict) and ce.get('k') == 'var' and ce.get('t') == 'bool':
                known = dict(flag).get(ce.get('n'))
                if known is not None and known != (truth == pol):
                    return []
            return [c]
        flw = Flow(ds, trw, rfw).run({(False, (), False)})
        bad = [c for c in flw.at_exit if c[0] and not c[2]]
        rep.ob(clause, 'K2 must-pass-through', 'doSearch: a search that ran is always followed by sendStopSearch (flag-sensitive)', not bad and bool(its), ds.where,
               'exit states (ran, flags, stopped): %s' % sorted(map(str, flw.at_exit)), ds.sname)
        for b, i, e in stops:
            # poll happens inside the wait loop before each test
            w = ds.path_avoiding((b, i), lambda ev: ev is not None and ev.get('k') == 'call' and cname(ev) == 'EngineMainThread::notifierWait',
                                 R.is_named_call('Communicator::poll'))
            rep.ob(clause, 'K2 loop shape', 'doSearch: the queue is polled before the engine thread sleeps', w is None, R.site(ds, e), '', ds.sname)
    em = fb.find1('EngineMainThread::mainLoop')
    if rep.need(clause, em, 'EngineMainThread::mainLoop'):
        quits = R.calls_in(em, 'Communicator::sendQuit')
        rep.floor(clause, 'sendQuit in the engine main loop', len(quits), 1)
        for b, i, e in quits:
            def tr(ev, c, pos):
                if ev.get('k') == 'call' and cname(ev) in ('Communicator::poll', 'EngineMainThread::notifierWait', 'Notifier::wait'):
                    return ['?']
                return [c]

            def rf(cond, truth, c):
                ce, pol = strip_not(cond)
                if isinstance(ce, dict) and ce.get('k') == 'call' and cname(ce) == 'Communicator::hasQuitAck':
                    return ['acked' if truth == pol else 'waiting']
                return [c]
            fl = Flow(_Sub(em, b), tr, rf).run({'?'})
            rep.ob(clause, 'K2 loop shape', 'engine main loop: the process ends only after every helper acknowledged quit', fl.at_exit == {'acked'},
                   R.site(em, e), 'states at exit: %s' % sorted(fl.at_exit), em.sname)
        # the main loop leaves only on quitFlag
        exits = _loop_exit_guards(em, first_only=True)
        rep.ob(clause, 'K2 loop shape', 'engine main loop leaves its dispatch loop only on quitFlag', bool(exits) and all('quitFlag' in g for g in exits),
               em.where, 'exit conditions: %s' % exits, em.sname)
        # search=false is published under the mutex and searchStopped is notified afterwards
        for b, i, e in em.events():
            if _writes_field(e, 'search'):
                held = locksets(em).held(e)
                rep.ob(clause, 'K6 lock discipline', 'engine main loop clears the search flag under the mutex', 'this.mutex' in held, R.site(em, e), str(sorted(held)), em.sname)
                w = em.path_avoiding((b, i), lambda ev: ev is not None and ev.get('k') == 'call' and cname(ev) in ('EngineMainThread::notifierWait', 'Notifier::wait'),
                                     lambda ev: ev is not None and ev.get('k') == 'call' and cname(ev).startswith('std::condition_variable::notify') and ap(ev.get('recv')) == 'this.searchStopped')
                rep.ob(clause, 'K9 cv discipline', 'engine main loop signals searchStopped before it sleeps again', w is None, R.site(em, e), '', em.sname)
    # the destructor of a worker stops its thread: terminate, notify, join
    wd = [f for f in fb.find('WorkerThread::~WorkerThread')]
    if rep.need(clause, wd, 'WorkerThread::~WorkerThread'):
        f = wd[0]
        def sets_term(ev):
            return ev is not None and _writes_field(ev, 'terminate')
        def joins(ev):
            return ev is not None and ev.get('k') == 'call' and cname(ev) == 'std::thread::join'
        R.must_pass_between(rep, f, clause, '~WorkerThread sets terminate before joining', None, joins, sets_term)
        R.must_pass_between(rep, f, clause, '~WorkerThread wakes the thread before joining', None, joins, R.is_named_call('Notifier::notify'))


class _Sub:
    def __init__(self, f, entry):
        self.blocks = f.blocks
        self.entry = entry
        self.exit = f.exit


def _loop_exit_guards(f, first_only=False):
    """Rendered conditions under which control leaves a `while (true)` loop of f via break."""
    out = []
    hdrs = [b for b, blk in f.blocks.items() if (blk.get('term') or {}).get('c') in ('WhileStmt',) and b not in f.dead]
    hdrs = sorted(hdrs, reverse=True)
    if first_only:
        hdrs = hdrs[:1]
    for h in hdrs:
        body = {b for b in f.blocks if G._reaches(f, h, b) and G._reaches(f, b, h)} | {h}
        for b in body:
            blk = f.blocks[b]
            for s in blk['succ']:
                if s not in body:
                    t = blk.get('term')
                    c = eff_cond(t) if t else None
                    if c is None:
                        # unconditional break block: its guard is the dominating branch
                        g = G.guards_of(f, body, b)
                        out.append(g[-1] if g else '<unconditional>')
                    else:
                        ce, pol = strip_not(c)
                        side = (blk['succ'].index(s) == 0)
                        out.append(('' if side == pol else '!') + show(ce))
    return out


# ----------------------------------------------------------------------------- .6

def c6_rearm(fb, rep, clause='C10.6'):
    ds = fb.find1('EngineMainThread::doSearch')
    em = fb.find1('EngineMainThread::mainLoop')
    if rep.need(clause, ds, 'EngineMainThread::doSearch') is None or rep.need(clause, em, 'EngineMainThread::mainLoop') is None:
        return
    inner = [(b, i, e) for b, i, e in ds.events() if e.get('k') == 'call' and cname(e) in ('EngineMainThread::notifierWait', 'Notifier::wait')]
    rep.floor(clause, 'inner waits on the engine notifier in doSearch', len(inner), 1)
    # (a) doSearch re-notifies after its inner wait loop on every path to the exit
    rearm = True
    for b, i, e in inner:
        w = ds.path_avoiding((b, i), R.at_exit, lambda ev: ev is not None and ev.get('k') == 'call' and cname(ev) == 'Notifier::notify' and
                             (ap(ev.get('recv')) or '').endswith('notifier'))
        if w is not None:
            rearm = False
    # (b) the main loop handles pending options after doSearch before it can sleep again
    handled = True
    calls = R.calls_in(em, 'EngineMainThread::doSearch')
    for b, i, e in calls:
        w = em.path_avoiding((b, i), lambda ev: ev is not None and ev.get('k') == 'call' and cname(ev) in ('EngineMainThread::notifierWait', 'Notifier::wait'),
                             R.is_named_call('EngineMainThread::setOptions'))
        if w is not None:
            handled = False
    rep.ob(clause, 'K2 consumed wake-up is re-armed', 'after doSearch\'s inner wait loop the engine thread re-notifies itself or handles pending options before sleeping',
           rearm or handled, ds.where, 're-notify after the loop: %s; setOptions() after doSearch(): %s' % (rearm, handled) +
           ('' if (rearm or handled) else ' - a setoption that arrives while the engine thread waits for stop acknowledgements is never applied and the next command hangs in waitOptionsSet()'),
           ds.sname)
    # setOptionWhenIdle: pending option + finished=false under the mutex, then notify
    so = fb.find1('EngineMainThread::setOptionWhenIdle')
    if rep.need(clause, so, 'EngineMainThread::setOptionWhenIdle'):
        R.must_pass_between(rep, so, clause, 'setOptionWhenIdle wakes the engine thread', None, R.at_exit, R.is_named_call('Notifier::notify'))
    # setOptions: finished=true only when the pending map was seen empty under the lock
    st = fb.find1('EngineMainThread::setOptions')
    if rep.need(clause, st, 'EngineMainThread::setOptions'):
        for b, i, e in st.events():
            if _writes_field(e, 'optionsSetFinished'):
                g = G.guards_of(st, set(st.blocks), b)
                # per queue object (the member, or the local it was swapped into): excluded while it holds something, reachable when empty
                is_q = lambda t: t.get('k') == 'call' and t.get('recv') is not None and 'map' in ((t['recv'].get('t') or '') + (t['recv'].get('rc') or ''))
                recvs = {ap(n_['recv']) or show(n_['recv']) for c_, _s in G.guard_trees(st, set(st.blocks), b) for n_ in walk(c_) if isinstance(n_, dict) and is_q(n_)}
                pend = lambda r_, n_: (lambda t: (('v', 1 if n_ == 0 else 0) if cname(t).split('::')[-1] == 'empty' else ('v', n_) if cname(t).split('::')[-1] == 'size' else None)
                                       if is_q(t) and (ap(t['recv']) or show(t['recv'])) == r_ else None)
                ok = any(all(G.excluded_under(st, b, pend(r_, k_)) for k_ in (1, 2, 9)) and not G.excluded_under(st, b, pend(r_, 0)) for r_ in recvs)
                rep.ob(clause, 'K4 guard', 'setOptions declares the options applied only when none is pending', ok, R.site(st, e), 'guards %s' % g, st.sname)
        exits = _loop_exit_guards(st)
        # the only way out is the return inside the empty test
        rets = [(b, i, e) for b, i, e in st.events() if e.get('k') == 'ret']
        def only_when_empty(b_):
            is_q2 = lambda t: t.get('k') == 'call' and t.get('recv') is not None and 'map' in ((t['recv'].get('t') or '') + (t['recv'].get('rc') or ''))
            conds = list(G.guard_trees(st, set(st.blocks), b_)) + G._whole_conditions(st, set(st.blocks), b_)
            recvs2 = {ap(n_['recv']) or show(n_['recv']) for c_, _s in conds for n_ in walk(c_) if isinstance(n_, dict) and is_q2(n_)}
            pend2 = lambda r_, n_: (lambda t: (('v', 1 if n_ == 0 else 0) if cname(t).split('::')[-1] == 'empty' else ('v', n_) if cname(t).split('::')[-1] == 'size' else None)
                                    if is_q2(t) and (ap(t['recv']) or show(t['recv'])) == r_ else None)
            return any(all(G.excluded_under(st, b_, pend2(r_, k_)) for k_ in (1, 2, 9)) and not G.excluded_under(st, b_, pend2(r_, 0)) for r_ in recvs2)
        okr = bool(rets) and all(only_when_empty(b) for b, i, e in rets)
        rep.ob(clause, 'K2 loop shape', 'setOptions returns only when no option is pending', okr and all('empty' in x and not x.startswith('!') for x in exits),
               st.where, 'loop exits: %s' % exits, st.sname)


# ----------------------------------------------------------------------------- .7 (shared with C09.4)

def completion_flag(fb, rep, clause, cls='EngineMainThread', flag='optionsSetFinished', queue='pendingOptions', mutex='mutex'):
    """K3 typestate of the "all pending work is done" flag a waiter sleeps on: the flag is set to true only
    while the mutex is held, in a critical section in which the pending queue is known to be empty (it was
    swapped with an empty local, cleared, or tested empty) and with no swapped-out batch still unapplied
    (every local batch known empty).  Otherwise waitOptionsSet() returns - and the protocol thread goes on to
    start a search - while an option is still queued or being applied: the hand-over both the search-control
    and the data-race properties rely on."""
    from ..flow import Flow
    meths = [f for f in fb.funcs.values() if f.has_cfg and strip_t(f.d.get('cls') or '') == cls]
    sets = []
    for f in meths:
        for b, i, e in f.events():
            if e.get('k') == 'asg' and ap(e.get('l')) == 'this.' + flag and (strip_cast(e.get('r')) or {}).get('cv') == 1:
                sets.append((f, b, i, e))
    rep.floor(clause, 'sites that set %s::%s' % (cls, flag), len(sets), 1)
    for f in sorted({s_[0] for s_ in sets}, key=lambda x: x.key):
        viol = {}

        def is_queue(t):
            return ap(strip_cast(t)) == 'this.' + queue

        def local_map(t):
            t = strip_cast(t)
            if isinstance(t, dict) and t.get('k') == 'var' and t.get('vk') == 'local' and (t.get('rc') or '').startswith(('std::map', 'std::vector', 'std::deque', 'std::list', 'std::unordered_map')):
                return t.get('id')
            return None

        def transfer(e, st, pos):
            held, pend, loc = st
            loc = dict(loc)
            k = e.get('k')
            if k == 'ctor' and (e.get('cls') or '').startswith(('std::lock_guard', 'std::unique_lock', 'std::scoped_lock')) and any(ap(a) == 'this.' + mutex for a in e.get('args', [])):
                return [(True, 'U', tuple(sorted(loc.items())))]
            if k == 'dtor' and (e.get('rc') or e.get('t') or '').startswith(('std::lock_guard', 'std::unique_lock', 'std::scoped_lock')):
                return [(False, pend, tuple(sorted(loc.items())))]
            if k == 'decl':
                for v in e.get('vars', []):
                    if (v.get('rc') or '').startswith(('std::map', 'std::vector', 'std::deque', 'std::list', 'std::unordered_map')) and '&' not in (v.get('t') or ''):
                        init = v.get('init')
                        loc[v['id']] = 'E' if isinstance(init, dict) and init.get('k') == 'ctor' and not init.get('args') else 'U'
                return [(held, pend, tuple(sorted(loc.items())))]
            if k == 'call':
                last = cname(e).split('::')[-1]
                r = e.get('recv')
                args = e.get('args', [])
                if last == 'swap' and r is not None and args:
                    a, b_ = r, args[0]
                    for x, y in ((a, b_), (b_, a)):
                        lid = local_map(x)
                        if lid is not None and is_queue(y):
                            if not held:
                                viol[pos] = ('the queue is swapped without the mutex', e)
                            old = loc.get(lid, 'U')
                            loc[lid] = pend
                            return [(held, old, tuple(sorted(loc.items())))]
                if r is not None and is_queue(r):
                    if last == 'clear':
                        return [(held, 'E', tuple(sorted(loc.items())))]
                    if last in ('operator[]', 'insert', 'emplace', 'push_back', 'emplace_back', 'operator='):
                        return [(held, 'U', tuple(sorted(loc.items())))]
                lid = local_map(r) if r is not None else None
                if lid is not None and last in ('operator[]', 'insert', 'emplace', 'push_back', 'emplace_back', 'operator='):
                    loc[lid] = 'U'
                    return [(held, pend, tuple(sorted(loc.items())))]
            if k == 'asg' and ap(e.get('l')) == 'this.' + flag and (strip_cast(e.get('r')) or {}).get('cv') == 1:
                why = []
                if not held:
                    why.append('the mutex is not held')
                if pend != 'E':
                    why.append('the pending queue is not known to be empty in this critical section')
                if any(v != 'E' for v in loc.values()):
                    why.append('a batch taken from the queue may still be unapplied')
                if why:
                    viol[pos] = ('; '.join(why), e)
            return [(held, pend, tuple(sorted(loc.items())))]

        def refine(atom, tv, st):
            held, pend, loc = st
            a = strip_cast(atom)
            if isinstance(a, dict) and a.get('k') == 'call' and cname(a).split('::')[-1] == 'empty' and a.get('recv') is not None:
                if is_queue(a['recv']):
                    return [(held, 'E' if tv else 'U', loc)]
                lid = local_map(a['recv'])
                if lid is not None:
                    d = dict(loc)
                    d[lid] = 'E' if tv else 'U'
                    return [(held, pend, tuple(sorted(d.items())))]
            return [st]
        fl = Flow(f, transfer, refine).run({(False, 'U', ())})
        if fl.overflow:
            rep.broken(clause, f.sname + ': configuration overflow')
            continue
        first = sorted(viol.items())[0][1] if viol else None
        rep.ob(clause, 'K3 completion flag', '%s sets %s only under the mutex with the pending queue and every batch taken from it known empty' % (f.sname, flag), not viol,
               R.site(f, first[1]) if first else f.where, '; '.join('line %s: %s' % (e.get('ln'), w) for _, (w, e) in sorted(viol.items())), f.sname)
    # the producer keeps the invariant: queueing work and clearing the flag happen in one critical section
    for f in sorted(meths, key=lambda x: x.key):
        adds = [(b, i, e) for b, i, e in f.events() if e.get('k') == 'call' and e.get('recv') is not None and ap(strip_cast(e['recv'])) == 'this.' + queue and
                cname(e).split('::')[-1] in ('operator[]', 'insert', 'emplace', 'push_back', 'emplace_back')]
        for b, i, e in adds:
            ls = locksets(f)
            held = 'this.' + mutex in ls.held(e)

            def clears(ev):
                return ev is not None and ev.get('k') == 'asg' and ap(ev.get('l')) == 'this.' + flag and (strip_cast(ev.get('r')) or {}).get('cv') == 0

            def unlock(ev):
                return ev is None or (ev.get('k') == 'dtor' and (ev.get('rc') or ev.get('t') or '').startswith(('std::lock_guard', 'std::unique_lock')))
            w = f.path_avoiding((b, i), unlock, clears)
            rep.ob(clause, 'K1 pairing', '%s: work is queued under the mutex and %s is cleared before the mutex is released' % (f.sname, flag), held and w is None, R.site(f, e), '', f.sname)


def strip_cast(t):
    while isinstance(t, dict) and t.get('k') == 'cast':
        t = t.get('e')
    return t


# ----------------------------------------------------------------------------- .8 publish, then notify

def c8_publish_then_notify(fb, rep):
    """K2 order: a thread that sleeps on a Notifier re-reads some fields of its object after every wake-up (e.g.
    `terminate`).  Another thread that changes such a field and wakes the sleeper must write first and notify
    afterwards: notify-then-write lets the sleeper wake, see the old value and go back to sleep for good (the
    writer then blocks in join()).  Decided for every class with a Notifier field: in every method that both
    writes a watched field and notifies that notifier, every path from the write to the exit passes the notify."""
    clause = 'C10.8'
    n = 0
    for cls, rec in sorted(fb.records.items()):
        nots = [fl['n'] for fl in rec.get('fields', []) if strip_t(fl.get('ct') or '') == 'Notifier']
        if not nots:
            continue
        meths = [f for f in fb.funcs.values() if f.has_cfg and strip_t(f.d.get('cls') or '') == strip_t(cls)]
        for N in nots:
            # waiter methods and the fields they test
            watched = set()
            for f in meths:
                waits = any(e.get('k') == 'call' and cname(e) == 'Notifier::wait' and ap(e.get('recv')) == 'this.' + N for _, _, e in f.events()) or \
                    any(e.get('k') == 'call' and cname(e).endswith('::notifierWait') for _, _, e in f.events())
                if not waits:
                    continue
                for bid, blk in f.blocks.items():
                    c = (blk.get('term') or {}).get('cond')
                    if c is None or bid in f.dead:
                        continue
                    for nd in walk(c):
                        p_ = ap(nd) if nd.get('k') == 'mem' else None
                        if p_ and p_.startswith('this.') and p_.count('.') == 1:
                            watched.add(p_[5:])
            watched -= set(nots)
            if not watched:
                continue
            for f in sorted(meths, key=lambda x: x.key):
                notifies = [(b, i, e) for b, i, e in f.events() if e.get('k') == 'call' and cname(e) == 'Notifier::notify' and ap(e.get('recv')) == 'this.' + N]
                if not notifies:
                    continue
                for b, i, e in f.events():
                    tgt = e.get('l') if e.get('k') == 'asg' else e.get('recv') if (e.get('k') == 'call' and cname(e).endswith('::operator=')) else None
                    p_ = ap(tgt) if tgt is not None else None
                    if not (p_ and p_.startswith('this.') and p_[5:] in watched):
                        continue
                    n += 1
                    w = f.path_avoiding((b, i), R.at_exit, lambda ev, _N=N: ev is not None and ev.get('k') == 'call' and cname(ev) == 'Notifier::notify' and ap(ev.get('recv')) == 'this.' + _N)
                    rep.ob(clause, 'K2 publish before notify', '%s: the new value of %s is written before the sleeper on %s is woken' % (f.sname, p_[5:], N), w is None, R.site(f, e),
                           '' if w is None else 'no notify follows the write on the path ' + ' -> '.join('B%s' % x[0] for x in w[-5:]), f.sname)
    rep.floor(clause, 'writes of watched fields in notifying methods', n, 1)


# ----------------------------------------------------------------------------- .9

def c9_ack_forwarding(fb, rep):
    """K10 guard completeness of the acknowledgement tree.  A node forwards STOP_ACK / QUIT_ACK to its parent exactly once,
    when its whole sub-tree is done: itself *and* all its children.  "Done" is the predicate has<X>Ack(); the guard of the
    upward send in send<X>Ack() must depend on every counter / flag that predicate reads.  A guard that looks at the
    children only forwards while the node itself is still searching and forwards again when it finishes: the root counts
    one acknowledgement too many, stops waiting for a helper that is still running, or (count below zero) waits for ever."""
    clause = 'C10.9'
    n = 0
    for x in ('Stop', 'Quit'):
        snd = fb.find1('Communicator::send%sAck' % x)
        has = fb.find1('Communicator::has%sAck' % x)
        if rep.need(clause, snd, 'Communicator::send%sAck' % x) is None or rep.need(clause, has, 'Communicator::has%sAck' % x) is None:
            continue
        need = {q for q in R.this_fields_read(has)}
        ups = [(b, i, e) for b, i, e in snd.events() if e.get('k') == 'call' and cname(e).split('::')[-1] == 'doSend%sAck' % x]
        for b, i, e in ups:
            n += 1
            got = set()
            inits = {v['id']: v['init'] for _, _, e2 in snd.events() if e2.get('k') == 'decl' for v in e2.get('vars', []) if v.get('init') is not None}
            trees = [c for c, side in G.guard_trees(snd, set(snd.blocks), b)]
            k = 0
            while k < len(trees) and k < 32:         # locals mentioned by a guard stand for their initialiser
                for nd in walk(trees[k]):
                    if nd.get('k') == 'var' and nd.get('vk') == 'local' and nd.get('id') in inits:
                        trees.append(inits.pop(nd['id']))
                k += 1
            for c in trees:
                for nd in walk(c):
                    if nd.get('k') == 'mem' and (ap(nd) or '').startswith('this.'):
                        got.add(ap(nd))
                    if nd.get('k') == 'call' and nd.get('repo') and nd.get('cmeth'):
                        g = fb.find1(cname(nd))
                        if g is not None and g.has_cfg:
                            got |= set(R.this_fields_read(g))
            rep.ob(clause, 'K10 guard completeness', 'send%sAck forwards to the parent only under a test of everything has%sAck() depends on' % (x, x),
                   need <= got and bool(need), R.site(snd, e), 'completion predicate reads %s; forwarding guard reads %s' % (sorted(need), sorted(got)), snd.sname)
    rep.floor(clause, 'upward acknowledgement sends', n, 2)


# ----------------------------------------------------------------------------- .10

def c10_ack_counting(fb, rep, clause='C10.10'):
    """K10 agreement between a wait loop and its handler.  A thread that waits `until comm->has<X>Ack()` drains its queue
    with comm->poll(handler); the acknowledgements of its children arrive as <X>_ACK commands and are only *counted* when
    the handler's <x>Ack() callback calls send<X>Ack (which decrements the counter has<X>Ack() tests).  A callback that
    merely forwards (forward<X>Ack: meant for cluster pass-through nodes) leaves the counter alone: the loop never ends
    - after `quit` the process never exits, after a search the next command blocks."""
    n = 0
    for f in sorted((f for f in fb.funcs.values() if f.has_cfg and R.in_engine(f)), key=lambda x: x.key):
        calls = [e for _, _, e in f.events() if e.get('k') == 'call']
        polls = [e for e in calls if cname(e) == 'Communicator::poll' and e.get('args')]
        if not polls:
            continue
        for x in ('Stop', 'Quit'):
            if not any(cname(e) == 'Communicator::has%sAck' % x for e in calls):
                continue
            # the loop exit really tests it
            tested = any(any(n_.get('k') == 'call' and cname(n_) == 'Communicator::has%sAck' % x for n_ in walk((blk.get('term') or {}).get('cond') or {})) for blk in f.blocks.values())
            if not tested:
                continue
            for pe in polls:
                hcls = (pe['args'][0] or {}).get('rc') or (pe['args'][0] or {}).get('t')
                cb = fb.find1('%s::%sAck' % (hcls, x.lower()))
                n += 1
                ok = cb is not None and cb.has_cfg and any(e.get('k') == 'call' and cname(e) == 'Communicator::send%sAck' % x for _, _, e in cb.events())
                rep.ob(clause, 'K10 loop/handler agreement', '%s waits for has%sAck(): the handler it polls with counts the acknowledgements (calls send%sAck)' % (f.sname, x, x), ok,
                       R.site(f, pe), 'handler %s::%sAck calls %s' % (hcls, x.lower(), [cname(e) for _, _, e in cb.events() if e.get('k') == 'call'] if cb is not None and cb.has_cfg else 'nothing (not overridden)'), f.sname)
    rep.floor(clause, 'acknowledgement wait loops', n, 3)


# ----------------------------------------------------------------------------- .11

def c11_infinite_predicate(fb, rep, clause='C10.11'):
    """K10 sibling agreement.  `infinite` tells the engine thread to withhold the best move until `stop`: it must be true
    exactly when the go carries no limit at all.  It is computed where a search is started and again where a ponder search
    is converted by `ponderhit`; both must be the same predicate over the same limit fields - the conversion that forgets one
    limit (nodes) classifies a limited search as infinite, the search ends at its limit and the engine thread then waits
    for a `stop` that never comes."""
    from ..core import canonical
    sites = {}
    for f in (f for f in fb.funcs.values() if f.has_cfg and f.d.get('cls') == 'EngineControl'):
        for b, i, e in f.events():
            tgt = val = None
            if e.get('k') == 'asg' and e.get('op') == '=':
                tgt, val = e.get('l'), e.get('r')
            elif e.get('k') == 'call' and e.get('op') == '=' and e.get('args'):
                tgt, val = e.get('recv'), e['args'][0]
            if tgt is not None and ap(tgt) == 'this.infinite':
                flds = sorted({ap(n) for n in walk(val) if n.get('k') == 'mem' and (ap(n) or '').startswith('this.')})
                if flds:
                    conj = []
                    todo = [val]
                    while todo:
                        x = todo.pop()
                        while isinstance(x, dict) and x.get('k') == 'cast':
                            x = x.get('e')
                        if isinstance(x, dict) and x.get('k') == 'bin' and x.get('op') == '&&':
                            todo += [x.get('l'), x.get('r')]
                        else:
                            conj.append(show(x, 80))
                    sites.setdefault(f.sname, []).append((' && '.join(sorted(conj)), flds, e, f))
    rep.floor(clause, 'functions computing `infinite` from the limit fields', len(sites), 2)
    ref = None
    for name in sorted(sites):
        for txt, flds, e, f in sites[name]:
            if ref is None:
                ref = (name, txt, flds)
                continue
            rep.ob(clause, 'K10 sibling agreement', '%s computes `infinite` from the same limits, in the same way, as %s' % (name.split('::')[-1], ref[0].split('::')[-1]),
                   txt == ref[1], R.site(f, e), '%s: %s; %s: %s' % (name.split('::')[-1], txt, ref[0].split('::')[-1], ref[1]), name)


# ----------------------------------------------------------------------------- .12

def c12_protocol_waits(fb, rep, clause='C10.12'):
    """K2 no circular wait between the protocol thread and the engine thread.  After a ponder or infinite search the engine
    thread holds its answer in `while (*ponder || *infinite)`, a wait only the protocol thread can end.  So wherever a
    function of EngineControl (protocol thread) blocks on the engine thread - waitStop(), waitOptionsSet() - it must
    either have cleared both hold flags on every path to the call, or be guarded by the test that no search object exists
    (`!sc`: the engine thread has never been given a search).  An unconditional wait for pending options from `isready`
    during `go infinite` blocks both threads for good."""
    eng = fb.find1('EngineMainThread::doSearch')
    if rep.need(clause, eng, 'EngineMainThread::doSearch') is None:
        return
    # premise: the hold loop of the engine thread reads exactly the two flags
    held = set()
    for h, body in eng.natural_loops().items():
        c = (eng.blocks[h].get('term') or {}).get('cond')
        names = {(ap(n) or '').split('.')[-1] for n in walk(c) if isinstance(n, dict) and n.get('k') == 'mem'} if c is not None else set()
        for b in body:
            c2 = (eng.blocks[b].get('term') or {}).get('cond')
            if c2 is not None:
                names |= {(ap(n) or '').split('.')[-1] for n in walk(c2) if isinstance(n, dict) and n.get('k') == 'mem'}
        if {'ponder', 'infinite'} <= names:
            held = {'ponder', 'infinite'}
    if rep.need(clause, held, 'the hold loop `while (*ponder || *infinite)` of EngineMainThread::doSearch') is None:
        return
    WAITS = ('EngineMainThread::waitStop', 'EngineMainThread::waitOptionsSet')

    def clears(e, fld):
        if e is None:
            return False
        tgt = val = None
        if e.get('k') == 'asg' and e.get('op') == '=':
            tgt, val = e.get('l'), e.get('r')
        elif e.get('k') == 'call' and e.get('op') == '=' and e.get('args'):
            tgt, val = e.get('recv'), e['args'][0]
        v = val
        while isinstance(v, dict) and v.get('k') == 'cast' and 'cv' not in v:
            v = v.get('e')
        return tgt is not None and ap(tgt) == 'this.' + fld and isinstance(v, dict) and v.get('cv') == 0
    n = 0
    for f in sorted((f for f in fb.funcs.values() if f.has_cfg and f.d.get('cls') == 'EngineControl'), key=lambda x: x.name):
        for b, i, e in f.events():
            if not (e.get('k') == 'call' and cname(e) in WAITS):
                continue
            n += 1
            def null_test(c, side):
                # True if (c, side) says "this.sc is null"
                c = strip_cast(c)
                if isinstance(c, dict) and c.get('k') == 'un' and c.get('op') == '!':
                    return null_test(c.get('e'), not side)
                if isinstance(c, dict) and c.get('k') in ('bin', 'call') and c.get('op') in ('==', '!='):
                    xs = [c.get('l'), c.get('r')] if c.get('k') == 'bin' else ([c['recv']] if c.get('recv') is not None else []) + c.get('args', [])
                    if len(xs) == 2 and any(ap(strip_cast(x)) == 'this.sc' for x in xs) and any(isinstance(strip_cast(x), dict) and strip_cast(x).get('k') in ('nullptr', 'null') or (strip_cast(x) or {}).get('cv') == 0 for x in xs):
                        return side == (c['op'] == '==')
                    return False
                if isinstance(c, dict) and c.get('k') == 'call' and not c.get('args') and c.get('recv') is not None:
                    c = c['recv']            # operator bool of the smart pointer
                return (not side) and ap(strip_cast(c)) == 'this.sc'
            no_search = any(null_test(c, side) for c, side in G.guard_trees(f, set(f.blocks), b))
            missing = [fld for fld in sorted(held) if f.path_avoiding((f.entry, -1), lambda x, e=e: x is e, lambda x, fld=fld: clears(x, fld)) is not None]
            rep.ob(clause, 'K2 must-pass-through', '%s: the blocking %s() is reached only with both hold flags cleared, or when no search object exists' % (f.sname.split('::')[-1], cname(e).split('::')[-1]),
                   no_search or not missing, R.site(f, e), 'guarded by !sc' if no_search else ('flags not cleared on some path: %s' % missing if missing else 'ponder and infinite cleared on every path'), f.sname)
    rep.floor(clause, 'blocking waits on the engine thread in EngineControl', n, 3)


# ----------------------------------------------------------------------------- .13

def c13_new_workers_awaited(fb, rep, clause='C10.13'):
    """K1/K2 publication of a new helper.  A WorkerThread registers with its parent (addChild) from its own thread; INIT / START
    / STOP are sent to the children registered at that moment and the stop handshake counts them.  createWorkers() must
    therefore not return before every helper it has just constructed has signalled `initialized` - whether the slot is new
    or an existing helper was replaced because its thread number or subtree size changed.  Accepted shape: every
    construction records its slot in a local list in the same block and a later loop over that list, on every path to the
    return, waits for each recorded slot.  (Waiting for *all* slots is not equivalent: Notifier::wait consumes the
    notification, a second wait on a helper that was kept never returns.)"""
    f = fb.find1('WorkerThread::createWorkers')
    if rep.need(clause, f, 'WorkerThread::createWorkers') is None:
        return
    params = {p_['id']: p_ for p_ in f.d.get('params', [])}
    slots = [pid for pid, p_ in params.items() if 'vector' in (p_.get('t') or '') and 'WorkerThread' in (p_.get('t') or '')]
    if rep.need(clause, slots, 'the children vector parameter of createWorkers') is None:
        return
    sid = slots[0]
    decls = {v['id']: (b, v) for b, i, e in f.events() if e.get('k') == 'decl' for v in e.get('vars', [])}

    def slot_index(t):
        """index tree of children[idx] inside t, or None"""
        for n in walk(t):
            if isinstance(n, dict) and n.get('k') == 'call' and n.get('op') == '[]' and (strip_cast(n.get('recv')) or {}).get('id') == sid and n.get('args'):
                return strip_cast(n['args'][0])
        return None
    cons = []
    for b, i, e in f.events():
        if e.get('k') == 'call' and e.get('op') == '=' and e.get('args') and slot_index(e.get('recv')) is not None and \
                any(isinstance(n, dict) and n.get('k') in ('call', 'ctor') and ('make_shared' in cname(n) or cname(n).endswith('WorkerThread::WorkerThread')) for n in walk(e['args'][0])):
            cons.append((b, i, e, slot_index(e['recv'])))
    waits = [(b, i, e, slot_index(e.get('recv'))) for b, i, e in f.events() if e.get('k') == 'call' and cname(e) == 'WorkerThread::waitInitialized']
    rep.floor(clause, 'helper constructions in createWorkers', len(cons), 1)
    if rep.floor(clause, 'waitInitialized calls in createWorkers', len(waits), 1) is False or not cons or not waits:
        rep.ob(clause, 'K2 must-pass-through', 'createWorkers waits for the helpers it constructed', False, f.where, 'no waitInitialized call', f.sname) if cons and not waits else None
        return
    loops = f.natural_loops()
    ok_all = True
    detail = []
    for cb, ci, ce, cidx in cons:
        covered = False
        for wb, wi, we, widx in waits:
            wv = widx.get('id') if isinstance(widx, dict) and widx.get('k') == 'var' else None
            hs = [h for h, body in loops.items() if wb in body]
            if wv is None or not hs:
                continue
            h = min(hs, key=lambda x: len(loops[x]))
            t = f.blocks[h].get('term') or {}
            if t.get('c') == 'CXXForRangeStmt':
                # the list walked: __range = V; the loop variable is initialised from *__begin
                rng = None
                for vid, (db, v) in decls.items():
                    if (v.get('n') or '').startswith('__range') and v.get('init') is not None:
                        r0 = strip_cast(v['init'])
                        if isinstance(r0, dict) and r0.get('k') == 'var' and f.pos_dominates((db, 0), (h, 0)):
                            rng = r0['id']
                if rng is None:
                    continue
                cv_ = cidx.get('id') if isinstance(cidx, dict) and cidx.get('k') == 'var' else None
                rec = any(e.get('k') == 'call' and cname(e).split('::')[-1] in ('push_back', 'emplace_back') and (strip_cast(e.get('recv')) or {}).get('id') == rng and e.get('args') and
                          (strip_cast(e['args'][0]) or {}).get('id') == cv_ and cv_ is not None for e in f.blocks[cb]['ev'])
                if rec:
                    # ... and the waiting loop is on every path from the construction to a return
                    from .C12 import _path_avoiding_block
                    rets = [e2 for _, _, e2 in f.events() if e2.get('k') == 'ret']
                    if rets:
                        skip = any(_path_avoiding_block(f, (cb, ci), re_, h) is not None for re_ in rets)
                    else:
                        skip = not all(h in f.dominators().get(x, set()) for x in [f.exit] if x in f.blocks)
                    covered = covered or not skip
        ok_all = ok_all and covered
        detail.append('%s:%s %s' % (f.file, ce.get('ln'), 'awaited' if covered else 'NOT awaited'))
    rep.ob(clause, 'K2 must-pass-through', 'createWorkers returns only after every helper it constructed (new slot or replaced slot) has signalled initialized', ok_all,
           R.site(f, cons[0][2]), '; '.join(detail), f.sname)


# ----------------------------------------------------------------------------- .15

def c15_peek_and_pop_together(fb, rep, clause='C10.15'):
    """K6 the command queue is compacted by its senders: doSendStartSearch / doSendStopSearch erase queued START / STOP / REPORT
    commands before they append their own, under the queue mutex.  The receiver must therefore take a command *out of* the
    queue in the same critical section in which it looked at it: if it only peeks, unlocks for the handler and pops
    later, the sender may erase the in-flight entry and the late pop removes the command that replaced it - a STOP that is
    never seen, a handshake that never completes.  In Communicator::poll no release of the mutex lies between the read
    of cmdQueue.front() and cmdQueue.pop_front()."""
    f = fb.find1('Communicator::poll')
    if rep.need(clause, f, 'Communicator::poll') is None:
        return
    isq = lambda e, m: e is not None and e.get('k') == 'call' and cname(e).split('::')[-1] == m and (ap(e.get('recv')) or '').endswith('cmdQueue')
    fronts = [(b, i, e) for b, i, e in f.events() if isq(e, 'front')]
    pops = [(b, i, e) for b, i, e in f.events() if isq(e, 'pop_front')]
    rep.floor(clause, 'reads of the queue head in Communicator::poll', len(fronts), 1)
    rep.floor(clause, 'removals of the queue head in Communicator::poll', len(pops), 1)
    unlock = lambda e: e is not None and e.get('k') == 'call' and cname(e).split('::')[-1] == 'unlock'
    bad = [(b, i, e) for b, i, e in fronts if f.path_avoiding((b, i), unlock, lambda x: isq(x, 'pop_front')) is not None]
    rep.ob(clause, 'K6 lock discipline', 'Communicator::poll removes the command it has read before it releases the queue mutex', not bad,
           R.site(f, bad[0][2]) if bad else f.where, '%d read(s) of the head, %d followed by an unlock before the pop' % (len(fronts), len(bad)), f.sname)
